/*
 * h_apply.c — C10: dispatch_apply invokes every index exactly once and then returns.
 *   per-index counters (each == 1, no index outside 0..n-1), every body inside
 *   [call, return] of its dispatch_apply, sequential and in index order when the queue
 *   is serial or targets a serial queue, iterations behave as non-barrier items of a
 *   concurrent queue (no overlap with barriers, ordered after barriers whose submission
 *   returned before the apply began), nested applies recursively, width given back
 *   (a following barrier_sync must run).
 */
#include "vf_common.h"
#include <dispatch/dispatch.h>
#include <dispatch/private.h>
#include <sched.h>

enum { AQ_GLOBAL, AQ_AUTO, AQ_SERIAL, AQ_CONC, AQ_CONC_OVER_SERIAL, AQ_CONC_OVER_CONC, AQ_SERIAL_OVER_CONC, AQ_NEST, AQ_NKINDS };
static const char *const aq_names[] = { "global", "auto", "serial", "concurrent", "concurrent->serial", "concurrent->concurrent", "serial->concurrent",
	"concurrent (no barriers, applies nested onto the same queue)" };

typedef struct { uint32_t count; int tid; uint64_t start, end; } aidx_t;
typedef struct arec {
	struct arec *next;
	size_t n; int qkind, qi, depth, fform;
	uint64_t call, ret;
	aidx_t *idx;
	_Atomic uint64_t out_of_range;
	struct atrial *t;
	uint32_t body_ns; int nest_pct;
} arec_t;

typedef struct { uint64_t sub_call, sub_ret, start, end; int qi; } abar_t;

typedef struct atrial {
	dispatch_queue_t qs[AQ_NKINDS]; dispatch_queue_t bottoms[AQ_NKINDS];
	pthread_mutex_t mtx; arec_t *recs; int nrecs;
	abar_t *bars; _Atomic int nbars; int barcap;
	_Atomic uint64_t bars_done;
	uint64_t salt;
	int ncallers, napplies;
	pthread_barrier_t bar;
	_Atomic int callers_done;
} atrial_t;

static size_t pick_n(vf_rng_t *r, int depth)
{
	int cpu = vf_opts.ncpu;
	if (depth > 0) return vf_rnd_n(r, 4) == 0 ? 1 : vf_rnd_range(r, 1, 12);
	uint32_t c = vf_rnd_n(r, 16);
	switch (c) {
	case 0: return 0;
	case 1: return 1;
	case 2: return 2;
	case 3: return (size_t)(cpu > 1 ? cpu - 1 : 1);
	case 4: return (size_t)cpu;
	case 5: return (size_t)cpu + 1;
	case 6: case 7: return vf_rnd_range(r, 3, 64);
	case 8: case 9: case 10: return vf_rnd_range(r, 65, 1000);
	case 11: case 12: return vf_rnd_range(r, 1000, 10000);
	case 13: return (size_t)((long)vf_rnd_range(r, 10000, 100000) * vf_opts.scale / 100) + 1;
	default: return vf_rnd_range(r, 8, 300);
	}
}

static void do_apply(atrial_t *t, vf_rng_t *r, int qkind, int depth);

static void abody(void *ctx, size_t i)
{
	arec_t *a = ctx;
	if (i >= a->n) { atomic_fetch_add(&a->out_of_range, 1); return; }
	aidx_t *x = &a->idx[i];
	uint64_t s = vf_stamp();
	uint32_t c = __atomic_fetch_add(&x->count, 1, __ATOMIC_RELAXED);
	if (c == 0) { x->start = s; x->tid = vf_gettid(); }
	vf_rng_t r;
	vf_rng_seed(&r, a->t->salt ^ (uint64_t)(uintptr_t)a, i);
	if (a->body_ns) vf_spin_ns(vf_rnd_n(&r, a->body_ns));
	if (vf_rnd_n(&r, 16) == 0) sched_yield();
	if (a->depth < 2 && a->nest_pct && (int)vf_rnd_n(&r, 100) < a->nest_pct) {
		/* nested apply: only onto global queues / AUTO (a nested synchronous call into the
		 * hierarchy the iteration runs under would be a client deadlock) */
		/* ... except on the dedicated concurrent queue that never sees a barrier: there a nested apply onto the
		 * SAME queue is legitimate (iterations are non-barrier items) and must return like any other */
		do_apply(a->t, &r, a->qkind == AQ_NEST ? AQ_NEST : vf_rnd_n(&r, 2) ? AQ_GLOBAL : AQ_AUTO, a->depth + 1);
	}
	if (c == 0) x->end = vf_stamp();
	vf_progress();
}

static void do_apply(atrial_t *t, vf_rng_t *r, int qkind, int depth)
{
	arec_t *a = calloc(1, sizeof(*a));
	a->t = t; a->qkind = qkind; a->depth = depth;
	a->n = pick_n(r, depth);
	a->idx = calloc(a->n + 1, sizeof(aidx_t));
	a->body_ns = a->n > 5000 ? 0 : vf_rnd_n(r, 4) * 3000;
	a->nest_pct = (depth < 2 && a->n <= 300) ? (int)vf_rnd_n(r, 3) * 4 : 0;
	if (qkind == AQ_NEST && depth < 2 && a->n <= 300) a->nest_pct = 25;
	a->fform = (int)vf_rnd_n(r, 2);
	dispatch_queue_t q;
	if (qkind == AQ_AUTO) q = DISPATCH_APPLY_AUTO;
	else if (qkind == AQ_GLOBAL) {
		static const long ids[] = { DISPATCH_QUEUE_PRIORITY_DEFAULT, DISPATCH_QUEUE_PRIORITY_HIGH, DISPATCH_QUEUE_PRIORITY_LOW, DISPATCH_QUEUE_PRIORITY_BACKGROUND, QOS_CLASS_UTILITY };
		q = dispatch_get_global_queue(ids[vf_rnd_n(r, 5)], 0);
	} else q = t->qs[qkind];
	pthread_mutex_lock(&t->mtx);
	a->next = t->recs; t->recs = a; t->nrecs++;
	pthread_mutex_unlock(&t->mtx);
	a->call = vf_stamp();
	if (a->fform) dispatch_apply_f(a->n, q, a, abody);
	else dispatch_apply(a->n, q, ^(size_t i) { abody(a, i); });
	a->ret = vf_stamp();
	vf_progress();
}

typedef struct { atrial_t *t; int id; pthread_t th; vf_rng_t rng; } acl_t;

static void via_item(void *ctx)
{
	acl_t *c = ctx;
	do_apply(c->t, &c->rng, vf_rnd_n(&c->rng, 2) ? AQ_AUTO : AQ_GLOBAL, 0);
}

static void *acaller(void *arg)
{
	acl_t *c = arg;
	atrial_t *t = c->t;
	pthread_barrier_wait(&t->bar);
	for (int i = 0; i < t->napplies; i++) {
		int qk = (int)vf_rnd_n(&c->rng, AQ_NKINDS);
		if (vf_rnd_n(&c->rng, 8) == 0) {
			/* apply from inside an item of a global queue (a dispatch worker thread) */
			dispatch_sync_f(dispatch_get_global_queue(0, 0), c, via_item);
		} else do_apply(t, &c->rng, qk, 0);
	}
	atomic_fetch_add(&t->callers_done, 1);
	return NULL;
}

static void bar_body(void *ctx)
{
	abar_t *b = ctx;
	b->start = vf_stamp();
	vf_spin_ns(2000);
	b->end = vf_stamp();
	vf_progress();
}

static void *barrier_thread(void *arg)
{
	acl_t *c = arg;
	atrial_t *t = c->t;
	static const int conc[] = { AQ_CONC, AQ_CONC_OVER_SERIAL, AQ_CONC_OVER_CONC };
	pthread_barrier_wait(&t->bar);
	while (atomic_load(&t->callers_done) < t->ncallers) {
		int i = atomic_fetch_add(&t->nbars, 1);
		if (i >= t->barcap) break;
		abar_t *b = &t->bars[i];
		b->qi = conc[vf_rnd_n(&c->rng, 3)];
		b->sub_call = vf_stamp();
		if (vf_rnd_n(&c->rng, 2)) dispatch_barrier_sync_f(t->qs[b->qi], b, bar_body);
		else { dispatch_barrier_async_f(t->qs[b->qi], b, bar_body); }
		b->sub_ret = vf_stamp();
		struct timespec ts = { 0, (long)vf_rnd_range(&c->rng, 20000, 400000) };
		nanosleep(&ts, NULL);
	}
	return NULL;
}

static int idx_cmp(const void *a, const void *b) { uint64_t x = ((const aidx_t *)a)->start, y = ((const aidx_t *)b)->start; return x < y ? -1 : x > y; }

static void run_trial(int idx)
{
	atrial_t *t = calloc(1, sizeof(*t));
	vf_rng_t r;
	vf_rng_seed(&r, vf_opts.seed, (uint64_t)idx * 4409 + 53);
	t->salt = vf_rnd(&r) | 1;
	pthread_mutex_init(&t->mtx, NULL);
	vf_profile_t prof;
	vf_perturb_draw(&r, &prof);
	t->bottoms[0] = dispatch_queue_create("vf.apply.bottom.serial", DISPATCH_QUEUE_SERIAL);
	t->bottoms[1] = dispatch_queue_create("vf.apply.bottom.conc", DISPATCH_QUEUE_CONCURRENT);
	t->qs[AQ_SERIAL] = dispatch_queue_create("vf.apply.serial", DISPATCH_QUEUE_SERIAL);
	t->qs[AQ_CONC] = dispatch_queue_create("vf.apply.conc", DISPATCH_QUEUE_CONCURRENT);
	t->qs[AQ_CONC_OVER_SERIAL] = dispatch_queue_create_with_target("vf.apply.conc-over-serial", DISPATCH_QUEUE_CONCURRENT, t->bottoms[0]);
	t->qs[AQ_CONC_OVER_CONC] = dispatch_queue_create_with_target("vf.apply.conc-over-conc", DISPATCH_QUEUE_CONCURRENT, t->bottoms[1]);
	t->qs[AQ_SERIAL_OVER_CONC] = dispatch_queue_create_with_target("vf.apply.serial-over-conc", DISPATCH_QUEUE_SERIAL, t->bottoms[1]);
	t->qs[AQ_NEST] = dispatch_queue_create("vf.apply.nest", DISPATCH_QUEUE_CONCURRENT);
	t->ncallers = (int)vf_rnd_range(&r, 1, 6);
	t->napplies = (int)((long)(prof.kind == VF_P_OFF ? 40 : 14) * vf_opts.scale / 100) + 1;
	t->barcap = 20000;
	t->bars = calloc((size_t)t->barcap, sizeof(abar_t));
	int nbt = 1;
	pthread_barrier_init(&t->bar, NULL, (unsigned)(t->ncallers + nbt));
	acl_t cl[8];
	vf_watch_begin("apply:callers", 0);
	for (int i = 0; i < t->ncallers + nbt; i++) {
		cl[i].t = t; cl[i].id = i; vf_rng_seed(&cl[i].rng, t->salt, 200 + (uint64_t)i);
		pthread_create(&cl[i].th, NULL, i < t->ncallers ? acaller : barrier_thread, &cl[i]);
	}
	for (int i = 0; i < t->ncallers + nbt; i++) pthread_join(cl[i].th, NULL);
	vf_watch_end();
	/* width fully returned: a barrier on every concurrent queue must still be able to run */
	vf_watch_begin("apply:barrier-after-apply-must-run(width-returned)", 0);
	static const int conc[] = { AQ_CONC, AQ_CONC_OVER_SERIAL, AQ_CONC_OVER_CONC };
	for (int k = 0; k < 3; k++) dispatch_barrier_sync(t->qs[conc[k]], ^{ vf_progress(); });
	dispatch_barrier_sync(t->bottoms[1], ^{ vf_progress(); });
	dispatch_sync(t->bottoms[0], ^{ vf_progress(); });
	vf_watch_end();
	vf_perturb_off();

	/* ---- oracle ---- */
	uint64_t iters = 0, serial_applies = 0, conc_applies = 0, nested = 0, multi_thread = 0, bar_pairs = 0, maxn = 0;
	int nb = atomic_load(&t->nbars); if (nb > t->barcap) nb = t->barcap;
	for (arec_t *a = t->recs; a; a = a->next) {
		char what[128];
		snprintf(what, sizeof(what), "dispatch_apply%s(n=%zu, %s queue, nesting depth %d, %s)", a->fform ? "_f" : "", a->n, aq_names[a->qkind], a->depth, prof.desc);
		iters += a->n; if (a->depth) nested++; if (a->n > maxn) maxn = a->n;
		if (atomic_load(&a->out_of_range)) vf_violation("C10:index-out-of-range", "%s: %llu invocations with an index >= n", what, (unsigned long long)atomic_load(&a->out_of_range));
		uint64_t maxend = 0, minstart = UINT64_MAX; int bad = 0, tids = 0, tid0 = 0;
		for (size_t i = 0; i < a->n; i++) {
			aidx_t *x = &a->idx[i];
			if (x->count != 1) { if (bad++ < 3) vf_violation(x->count ? "C10:index-invoked-twice" : "C10:index-skipped", "%s: index %zu invoked %u times", what, i, x->count); continue; }
			if (x->end > maxend) maxend = x->end;
			if (x->start < minstart) minstart = x->start;
			if (!tid0) tid0 = x->tid; else if (x->tid != tid0) tids = 1;
		}
		if (tids) multi_thread++;
		if (a->n && !bad) {
			if (maxend > a->ret) vf_violation("C10:returned-before-last-invocation-finished", "%s returned at stamp %llu but an invocation finished at %llu", what, (unsigned long long)a->ret, (unsigned long long)maxend);
			if (minstart < a->call) vf_violation("C10:invocation-before-call", "%s: invocation at %llu before the call at %llu", what, (unsigned long long)minstart, (unsigned long long)a->call);
		}
		int serial = (a->qkind == AQ_SERIAL || a->qkind == AQ_CONC_OVER_SERIAL || a->qkind == AQ_SERIAL_OVER_CONC);
		if (serial && !bad) {
			serial_applies++;
			for (size_t i = 1; i < a->n; i++) {
				if (a->idx[i].start < a->idx[i - 1].end) {
					vf_violation("C10:serial-queue:not-sequential-in-index-order", "%s: index %zu started at %llu before index %zu ended at %llu", what, i,
							(unsigned long long)a->idx[i].start, i - 1, (unsigned long long)a->idx[i - 1].end);
					break;
				}
			}
		}
		if ((a->qkind == AQ_CONC || a->qkind == AQ_CONC_OVER_CONC || a->qkind == AQ_CONC_OVER_SERIAL) && a->n && !bad && a->depth == 0) {
			conc_applies++;
			/* iterations are non-barrier items of the queue: no overlap with its barriers, and they
			 * start after every barrier whose submission returned before the apply began */
			aidx_t *s = malloc(sizeof(aidx_t) * a->n);
			memcpy(s, a->idx, sizeof(aidx_t) * a->n);
			qsort(s, a->n, sizeof(aidx_t), idx_cmp);
			for (int k = 0; k < nb; k++) {
				abar_t *b = &t->bars[k];
				if (b->qi != a->qkind || !b->start || !b->end) continue;
				if (b->sub_ret < a->call && b->end > minstart) {
					vf_violation("C10:iteration-before-earlier-barrier", "%s: an invocation started at %llu although a barrier whose submission returned (stamp %llu) before the apply call (%llu) only finished at %llu", what,
							(unsigned long long)minstart, (unsigned long long)b->sub_ret, (unsigned long long)a->call, (unsigned long long)b->end);
				}
				bar_pairs++;
				if (b->end < minstart || b->start > maxend) continue;
				for (size_t i = 0; i < a->n; i++) {
					if (s[i].start > b->end) break;
					if (s[i].end > b->start && s[i].start < b->end) {
						vf_violation("C10:iteration-overlaps-barrier", "%s: an invocation [%llu,%llu] overlaps a barrier item [%llu,%llu] of the same queue", what,
								(unsigned long long)s[i].start, (unsigned long long)s[i].end, (unsigned long long)b->start, (unsigned long long)b->end);
						break;
					}
				}
			}
			free(s);
		}
	}
	vf_count("applies", (uint64_t)t->nrecs);
	vf_count("iterations", iters);
	vf_count("items", iters);
	vf_count("serial_domain_applies", serial_applies);
	vf_count("concurrent_queue_applies", conc_applies);
	vf_count("nested_applies", nested);
	vf_count("applies_run_by_several_threads", multi_thread);
	vf_count("barrier_apply_pairs_checked", bar_pairs);
	vf_count("barriers", (uint64_t)nb);
	vf_emit("trial", "\"n\":%d,\"sig\":\"apply-%d-%d-%d-%d-%d\",\"nontrivial\":%s,\"sample\":{\"trial\":%d,\"callers\":%d,\"applies\":%d,\"iterations\":%llu,\"max_n\":%llu,\"nested\":%llu,\"run_by_several_threads\":%llu,\"barriers\":%d,\"perturb\":\"%s\"}",
			t->nrecs, t->ncallers, prof.kind, vf_log2_bucket(iters), vf_log2_bucket(nested), vf_log2_bucket(multi_thread), multi_thread ? "true" : "false",
			idx, t->ncallers, t->nrecs, (unsigned long long)iters, (unsigned long long)maxn, (unsigned long long)nested, (unsigned long long)multi_thread, nb, prof.desc);
	for (arec_t *a = t->recs; a;) { arec_t *n = a->next; free(a->idx); free(a); a = n; }
	for (int k = AQ_SERIAL; k < AQ_NKINDS; k++) dispatch_release(t->qs[k]);
	dispatch_release(t->bottoms[0]); dispatch_release(t->bottoms[1]);
	free(t->bars);
	pthread_barrier_destroy(&t->bar);
	pthread_mutex_destroy(&t->mtx);
	free(t);
}

int main(int argc, char **argv)
{
	vf_init(argc, argv, "h_apply");
	for (int i = 0; i < vf_opts.trials; i++) run_trial(vf_opts.first_trial + i);
	return vf_finish();
}
