/*
 * h_block.c — C19: dispatch block objects: cancel, wait and notify follow the execution.
 * One "case" = one block object executed (submitted) exactly once, waited on by at most
 * one thread at a time, observed by 0-3 notifications, possibly cancelled. A driver thread
 * and a racer thread act on the same object concurrently; the oracle runs over stamps.
 */
#include "vf_common.h"
#include "vf_time.h"
#include <dispatch/dispatch.h>
#include <dispatch/private.h>
#include <Block.h>
#include <semaphore.h>
#include <sched.h>

enum { S_PLAIN, S_CANCEL_BEFORE_SUBMIT, S_CANCEL_BEHIND_GATE, S_CANCEL_WHILE_RUNNING, S_N };
static const char *const s_names[] = { "plain(race)", "cancel-before-submit", "cancel-behind-gate", "cancel-while-running" };
enum { SUB_ASYNC, SUB_SYNC, SUB_GROUP_ASYNC, SUB_DIRECT, SUB_BARRIER_ASYNC, SUB_BARRIER_SYNC, SUB_ASYNC_AND_WAIT, SUB_AFTER, SUB_GROUP_NOTIFY, SUB_BARRIER_ASYNC_AND_WAIT, SUB_N };
#define SUB_IS_SYNC(s) ((s) == SUB_SYNC || (s) == SUB_DIRECT || (s) == SUB_BARRIER_SYNC || (s) == SUB_ASYNC_AND_WAIT || (s) == SUB_BARRIER_ASYNC_AND_WAIT)
static const char *const sub_names[] = { "async", "sync", "group_async", "direct-invocation", "barrier_async", "barrier_sync", "async_and_wait", "dispatch_after", "group_notify", "barrier_async_and_wait" };

typedef struct { uint64_t reg_call, reg_ret, start; _Atomic uint32_t runs; struct bcase *c; } bntf_t;
typedef struct { uint64_t call, ret, deadline, now_after; int rc; uint8_t timed, clk; } bwait_t;

typedef struct bcase {
	dispatch_block_t b;
	int scen, sub, hold;
	_Atomic uint32_t runs;
	uint64_t start, end;
	_Atomic int started, finished, release;
	int testcancel_in_body_end;
	uint64_t cancel_call, cancel_ret; int cancelled, testcancel_after_cancel;
	uint64_t sub_call, sub_ret, gate_open;
	bwait_t waits[6]; int nwaits;
	bntf_t ntf[3]; _Atomic int nntf; _Atomic uint32_t ntf_done;
	/* racer plan */
	int racer_cancel, racer_wait, racer_notify; uint32_t racer_delay_ns;
	_Atomic int racer_done;
	struct btrial *t;
} bcase_t;

typedef struct btrial {
	dispatch_queue_t qs[5];   /* serial, concurrent, global, workloop, serial over (serial | workloop) */
	dispatch_group_t empty_grp;
	dispatch_group_t grp;
	uint64_t salt;
	int ncases;
	vf_profile_t prof;
	_Atomic uint64_t cases, bodies_run, cancelled_skipped, waits_ok, waits_tmo, ntf_total, race_ran, race_skipped;
} btrial_t;

static void body(bcase_t *c)
{
	c->start = vf_stamp();
	if (atomic_fetch_add(&c->runs, 1)) vf_violation("C19:body-ran-twice", "block object body ran twice although it was executed once (%s, %s)", s_names[c->scen], sub_names[c->sub]);
	atomic_store(&c->started, 1);
	if (c->hold) {
		/* stay inside the body until the canceller has finished */
		while (!atomic_load(&c->release)) sched_yield();
	} else if (((uintptr_t)c >> 6) & 1) vf_spin_ns(3000);
	c->testcancel_in_body_end = dispatch_block_testcancel(c->b) != 0;
	c->end = vf_stamp();
	atomic_store(&c->finished, 1);
	vf_progress();
}

static void ntf_run(bntf_t *n)
{
	n->start = vf_stamp();
	if (atomic_fetch_add(&n->runs, 1)) vf_violation("C19:notify-ran-twice", "a dispatch_block_notify block ran twice");
	atomic_fetch_add(&n->c->ntf_done, 1);
	vf_progress();
}

static void add_notify(bcase_t *c, vf_rng_t *r)
{
	int i = atomic_fetch_add(&c->nntf, 1);
	if (i >= 3) { atomic_fetch_sub(&c->nntf, 1); return; }
	bntf_t *n = &c->ntf[i];
	n->c = c;
	n->reg_call = vf_stamp();
	dispatch_block_notify(c->b, c->t->qs[vf_rnd_n(r, 5)], ^{ ntf_run(n); });
	n->reg_ret = vf_stamp();
}

static void do_cancel(bcase_t *c)
{
	c->cancel_call = vf_stamp();
	dispatch_block_cancel(c->b);
	c->cancel_ret = vf_stamp();
	c->cancelled = 1;
	c->testcancel_after_cancel = dispatch_block_testcancel(c->b) != 0;
}

/* one waiter thread at a time; a timed-out wait may be retried */
static void do_wait(bcase_t *c, vf_rng_t *r)
{
	for (;;) {
		int i = c->nwaits;
		if (i >= 6) vf_fail("wait record overflow");
		bwait_t *w = &c->waits[i];
		uint32_t k = vf_rnd_n(r, 4);
		dispatch_time_t when;
		if (k == 0 || i == 5) { w->timed = 0; when = DISPATCH_TIME_FOREVER; }
		else {
			w->timed = 1;
			int clk = vf_rnd_n(r, 3) == 0 ? VF_CLK_WALL : VF_CLK_UPTIME;
			when = vf_make_deadline(clk, (int64_t)vf_rnd_range(r, 2000, 150000), (int)vf_rnd_n(r, 2));
			vf_deadline_t d = vf_decode_time(when);
			w->clk = (uint8_t)d.kind; w->deadline = d.value;
		}
		w->call = vf_stamp();
		w->rc = (int)dispatch_block_wait(c->b, when);
		if (w->timed) w->now_after = vf_now_ns(w->clk == VF_CLK_WALL ? CLOCK_REALTIME : CLOCK_MONOTONIC);
		w->ret = vf_stamp();
		c->nwaits++;
		if (w->rc == 0 || !w->timed) return;
	}
}

/* ---- racer thread: one per driver, fed through a single slot ---- */
typedef struct { btrial_t *t; int id; pthread_t th, racer; vf_rng_t rng, rrng; _Atomic(bcase_t *) slot; _Atomic int quit; } bdrv_t;

static void *racer_main(void *arg)
{
	bdrv_t *d = arg;
	for (;;) {
		bcase_t *c;
		while (!(c = atomic_load(&d->slot))) {
			if (atomic_load(&d->quit)) return NULL;
			sched_yield();
		}
		atomic_store(&d->slot, NULL);
		if (c->racer_delay_ns) vf_spin_ns(c->racer_delay_ns);
		if (c->racer_notify) add_notify(c, &d->rrng);
		if (c->racer_cancel) do_cancel(c);
		if (c->racer_wait) do_wait(c, &d->rrng);
		if (c->racer_notify > 1) add_notify(c, &d->rrng);
		atomic_store(&c->racer_done, 1);
	}
}

typedef struct { sem_t open; _Atomic int entered; } gate_t;
static void gate_body(void *ctx) { gate_t *g = ctx; atomic_store(&g->entered, 1); while (sem_wait(&g->open) && errno == EINTR) {} }

static void check_case(bcase_t *c);

static void run_case(bdrv_t *d, int ci)
{
	btrial_t *t = d->t;
	vf_rng_t *r = &d->rng;
	bcase_t *c = calloc(1, sizeof(*c));
	c->t = t;
	c->scen = (int)vf_rnd_n(r, S_N + 2); if (c->scen >= S_N) c->scen = S_PLAIN;
	c->sub = (int)vf_rnd_n(r, SUB_N);
	int qi = (int)vf_rnd_n(r, 5);
	if (c->scen == S_CANCEL_BEHIND_GATE) { qi = vf_rnd_n(r, 3) ? 0 : 4; c->sub = vf_rnd_n(r, 2) ? SUB_ASYNC : SUB_GROUP_ASYNC; }
	if (c->scen == S_CANCEL_WHILE_RUNNING) { c->hold = 1; if (SUB_IS_SYNC(c->sub)) c->sub = SUB_ASYNC; }
	if (c->sub == SUB_BARRIER_ASYNC && qi != 1) c->sub = SUB_ASYNC;
	if (qi == 3 && (c->sub == SUB_SYNC || c->sub == SUB_BARRIER_SYNC)) c->sub = SUB_ASYNC_AND_WAIT;   /* no dispatch_sync onto a workloop */
	static const dispatch_block_flags_t fl[] = { 0, DISPATCH_BLOCK_BARRIER, DISPATCH_BLOCK_DETACHED, DISPATCH_BLOCK_ASSIGN_CURRENT,
			DISPATCH_BLOCK_NO_QOS_CLASS, DISPATCH_BLOCK_INHERIT_QOS_CLASS, DISPATCH_BLOCK_ENFORCE_QOS_CLASS };
	dispatch_block_flags_t flags = fl[vf_rnd_n(r, 7)];
	if (vf_rnd_n(r, 4) == 0) c->b = dispatch_block_create_with_qos_class(flags, vf_rnd_n(r, 2) ? QOS_CLASS_UTILITY : QOS_CLASS_USER_INITIATED, -(int)vf_rnd_n(r, 3), ^{ body(c); });
	else c->b = dispatch_block_create(flags, ^{ body(c); });
	if (!c->b) vf_fail("dispatch_block_create returned NULL");
	/* who does what */
	int waiter = (int)vf_rnd_n(r, 3);       /* 0 none, 1 driver, 2 racer */
	int nn = (int)vf_rnd_n(r, 4);           /* notifications in total */
	c->racer_wait = (waiter == 2);
	c->racer_notify = nn >= 2 ? (nn == 3 ? 2 : 1) : 0;
	c->racer_cancel = (c->scen == S_PLAIN && vf_rnd_n(r, 3) == 0);
	c->racer_delay_ns = vf_rnd_n(r, 3) ? vf_rnd_n(r, 60000) : 0;
	if (vf_rnd_n(r, 2) && nn >= 1) { add_notify(c, r); nn = 0; }     /* notify registered before submission */
	if (c->scen == S_CANCEL_BEFORE_SUBMIT) do_cancel(c);
	gate_t gate; int gated = 0;
	if (c->scen == S_CANCEL_BEHIND_GATE) {
		sem_init(&gate.open, 0, 0); atomic_store(&gate.entered, 0);
		dispatch_async_f(t->qs[qi], &gate, gate_body);
		while (!atomic_load(&gate.entered)) sched_yield();
		gated = 1;
	}
	atomic_store(&d->slot, c);   /* racer starts acting now, concurrently with the submission */
	dispatch_queue_t q = t->qs[qi];
	c->sub_call = vf_stamp();
	switch (c->sub) {
	case SUB_ASYNC: dispatch_async(q, c->b); break;
	case SUB_BARRIER_ASYNC: dispatch_barrier_async(q, c->b); break;
	case SUB_SYNC: dispatch_sync(q, c->b); break;
	case SUB_GROUP_ASYNC: dispatch_group_async(t->grp, q, c->b); break;
	case SUB_BARRIER_SYNC: dispatch_barrier_sync(q, c->b); break;
	case SUB_ASYNC_AND_WAIT: dispatch_async_and_wait(q, c->b); break;
	case SUB_BARRIER_ASYNC_AND_WAIT: dispatch_barrier_async_and_wait(q, c->b); break;
	case SUB_AFTER: dispatch_after(dispatch_time(DISPATCH_TIME_NOW, (int64_t)vf_rnd_n(r, 1500000)), q, c->b); break;
	case SUB_GROUP_NOTIFY: dispatch_group_notify(t->empty_grp, q, c->b); break;   /* an empty group: submitted at once */
	default: c->b(); break;
	}
	c->sub_ret = vf_stamp();
	if (gated) {
		do_cancel(c);
		c->gate_open = vf_stamp();
		sem_post(&gate.open);
	}
	if (c->scen == S_CANCEL_WHILE_RUNNING) {
		while (!atomic_load(&c->started)) sched_yield();
		do_cancel(c);
		atomic_store(&c->release, 1);
	}
	if (nn >= 1) add_notify(c, r);
	if (waiter == 1) do_wait(c, r);
	/* case quiescence: racer finished, every registered notification delivered, execution over */
	while (!atomic_load(&c->racer_done)) sched_yield();
	int total_ntf = atomic_load(&c->nntf);
	if (waiter == 0 && total_ntf == 0) {
		/* nothing observes completion: wait for it ourselves (forever wait must return) */
		do_wait(c, r);
	}
	while ((int)atomic_load(&c->ntf_done) < total_ntf) sched_yield();
	if (atomic_load(&c->started)) while (!atomic_load(&c->finished)) sched_yield();
	if (gated) sem_destroy(&gate.open);
	check_case(c);
	Block_release(c->b);
	free(c);
	(void)ci;
}

static void check_case(bcase_t *c)
{
	btrial_t *t = c->t;
	char what[160];
	snprintf(what, sizeof(what), "scenario %s, submitted by %s, %s", s_names[c->scen], sub_names[c->sub], t->prof.desc);
	uint32_t runs = atomic_load(&c->runs);
	atomic_fetch_add(&t->cases, 1);
	if (runs) atomic_fetch_add(&t->bodies_run, 1);
	int must_skip = (c->scen == S_CANCEL_BEFORE_SUBMIT || c->scen == S_CANCEL_BEHIND_GATE);
	if (must_skip) {
		if (runs) vf_violation(c->scen == S_CANCEL_BEFORE_SUBMIT ? "C19:cancelled-before-submission-but-body-ran" : "C19:cancelled-before-start-but-body-ran",
				"block object cancelled (cancel returned at %llu) before it could start (%s %llu) yet its body ran at %llu (%s)",
				(unsigned long long)c->cancel_ret, c->scen == S_CANCEL_BEFORE_SUBMIT ? "submitted at" : "gate opened at",
				(unsigned long long)(c->scen == S_CANCEL_BEFORE_SUBMIT ? c->sub_call : c->gate_open), (unsigned long long)c->start, what);
		else atomic_fetch_add(&t->cancelled_skipped, 1);
	} else if (!c->cancelled && runs != 1) {
		vf_violation("C19:body-never-ran", "block object that was never cancelled ran %u times (%s)", runs, what);
	} else if (c->cancelled && c->scen == S_PLAIN) {
		if (runs) atomic_fetch_add(&t->race_ran, 1); else atomic_fetch_add(&t->race_skipped, 1);
		if (runs == 0 && c->cancel_call > c->sub_ret && SUB_IS_SYNC(c->sub)) {
			vf_violation("C19:body-skipped-without-cancel", "synchronously executed block object did not run its body although cancel was only called afterwards (%s)", what);
		}
	}
	if (c->scen == S_CANCEL_WHILE_RUNNING) {
		if (runs != 1 || !c->end || c->end < c->cancel_ret) vf_violation("C19:cancel-while-running-interrupted", "block cancelled while running did not run to its end (%s)", what);
		if (runs == 1 && !c->testcancel_in_body_end) vf_violation("C19:testcancel-false-after-cancel", "dispatch_block_testcancel returned 0 inside the body after dispatch_block_cancel had returned (%s)", what);
	}
	if (c->cancelled && !c->testcancel_after_cancel) vf_violation("C19:testcancel-false-after-cancel", "dispatch_block_testcancel returned 0 right after dispatch_block_cancel returned (%s)", what);
	if (c->cancelled && !dispatch_block_testcancel(c->b)) vf_violation("C19:testcancel-false-after-cancel", "dispatch_block_testcancel returned 0 at the end of the case (%s)", what);
	if (!c->cancelled && dispatch_block_testcancel(c->b)) vf_violation("C19:testcancel-true-without-cancel", "dispatch_block_testcancel is non-zero for a block that was never cancelled (%s)", what);
	for (int i = 0; i < c->nwaits; i++) {
		bwait_t *w = &c->waits[i];
		if (w->rc == 0) {
			atomic_fetch_add(&t->waits_ok, 1);
			if (runs && (!c->end || c->end > w->ret)) {
				vf_violation("C19:wait-returned-before-completion", "dispatch_block_wait returned 0 at stamp %llu but the body ran over [%llu,%llu] (%s)",
						(unsigned long long)w->ret, (unsigned long long)c->start, (unsigned long long)c->end, what);
			}
			if (w->ret < c->sub_call) {
				vf_violation("C19:wait-returned-before-execution", "dispatch_block_wait returned 0 at stamp %llu before the block object was executed or submitted at %llu (%s)",
						(unsigned long long)w->ret, (unsigned long long)c->sub_call, what);
			}
		} else {
			atomic_fetch_add(&t->waits_tmo, 1);
			if (!w->timed) vf_violation("C19:forever-wait-returned-nonzero", "dispatch_block_wait(FOREVER) returned non-zero (%s)", what);
			else if (w->now_after < w->deadline) vf_violation("C19:timeout-before-deadline", "dispatch_block_wait returned non-zero %llu ns before its deadline on the %s clock (%s)",
					(unsigned long long)(w->deadline - w->now_after), vf_clk_names[w->clk], what);
		}
	}
	int nn = atomic_load(&c->nntf);
	for (int i = 0; i < nn; i++) {
		bntf_t *n = &c->ntf[i];
		uint32_t nr = atomic_load(&n->runs);
		atomic_fetch_add(&t->ntf_total, 1);
		if (nr != 1) vf_violation(nr ? "C19:notify-ran-twice" : "C19:notify-never-ran", "notification ran %u times (%s)", nr, what);
		if (runs && n->start && n->start < c->end) {
			vf_violation("C19:notify-before-completion", "notification block started at %llu before the observed block finished at %llu (%s)", (unsigned long long)n->start, (unsigned long long)c->end, what);
		}
		if (n->start && n->start < c->sub_call) {
			vf_violation("C19:notify-before-execution", "notification block started at %llu before the observed block was executed or submitted at %llu (%s)", (unsigned long long)n->start, (unsigned long long)c->sub_call, what);
		}
	}
}

static void *driver_main(void *arg)
{
	bdrv_t *d = arg;
	for (int i = 0; i < d->t->ncases; i++) { run_case(d, i); vf_progress(); }
	return NULL;
}

static void run_trial(int idx)
{
	btrial_t *t = calloc(1, sizeof(*t));
	vf_rng_t r;
	vf_rng_seed(&r, vf_opts.seed, (uint64_t)idx * 6007 + 59);
	t->salt = vf_rnd(&r) | 1;
	vf_perturb_draw(&r, &t->prof);
	t->qs[0] = dispatch_queue_create("vf.block.serial", DISPATCH_QUEUE_SERIAL);
	t->qs[1] = dispatch_queue_create("vf.block.conc", DISPATCH_QUEUE_CONCURRENT);
	t->qs[2] = dispatch_get_global_queue(DISPATCH_QUEUE_PRIORITY_DEFAULT, 0);
	t->qs[3] = (dispatch_queue_t)dispatch_workloop_create("vf.block.workloop");
	{
		dispatch_queue_t base = vf_rnd_n(&r, 2) ? dispatch_queue_create("vf.block.base", DISPATCH_QUEUE_SERIAL) : (dispatch_queue_t)dispatch_workloop_create("vf.block.base-workloop");
		t->qs[4] = dispatch_queue_create_with_target("vf.block.serial-over-serial", DISPATCH_QUEUE_SERIAL, base);
		dispatch_release(base);
	}
	t->grp = dispatch_group_create();
	t->empty_grp = dispatch_group_create();
	int nd = (int)vf_rnd_range(&r, 1, 4);
	t->ncases = (int)((long)(t->prof.kind == VF_P_OFF ? 1500 : 500) * vf_opts.scale / 100) + 1;
	bdrv_t *d = calloc((size_t)nd, sizeof(*d));
	vf_watch_begin("block:cases", 0);
	for (int i = 0; i < nd; i++) {
		d[i].t = t; d[i].id = i;
		vf_rng_seed(&d[i].rng, t->salt, 300 + (uint64_t)i); vf_rng_seed(&d[i].rrng, t->salt, 400 + (uint64_t)i);
		pthread_create(&d[i].racer, NULL, racer_main, &d[i]);
		pthread_create(&d[i].th, NULL, driver_main, &d[i]);
	}
	for (int i = 0; i < nd; i++) { pthread_join(d[i].th, NULL); atomic_store(&d[i].quit, 1); pthread_join(d[i].racer, NULL); }
	dispatch_group_wait(t->grp, DISPATCH_TIME_FOREVER);
	vf_watch_end();
	vf_perturb_off();
	/* dispatch_block_perform: create + synchronous execute + release */
	for (int i = 0; i < 50; i++) {
		__block int ran = 0;
		dispatch_block_perform(i & 1 ? DISPATCH_BLOCK_DETACHED : 0, ^{ ran++; });
		if (ran != 1) vf_violation("C19:block_perform-count", "dispatch_block_perform ran its block %d times", ran);
	}
	vf_count("block_cases", atomic_load(&t->cases));
	vf_count("bodies_run", atomic_load(&t->bodies_run));
	vf_count("cancelled_before_start_skipped", atomic_load(&t->cancelled_skipped));
	vf_count("cancel_raced_start_ran", atomic_load(&t->race_ran));
	vf_count("cancel_raced_start_skipped", atomic_load(&t->race_skipped));
	vf_count("block_waits_ok", atomic_load(&t->waits_ok));
	vf_count("block_waits_timed_out", atomic_load(&t->waits_tmo));
	vf_count("block_notifications", atomic_load(&t->ntf_total));
	vf_count("items", atomic_load(&t->cases));
	vf_emit("trial", "\"n\":%llu,\"sig\":\"blk-%d-%d-%d-%d-%d\",\"nontrivial\":%s,\"sample\":{\"trial\":%d,\"drivers\":%d,\"cases\":%llu,\"bodies_run\":%llu,\"cancelled_before_start\":%llu,\"cancel_raced_start\":[%llu,%llu],\"waits_ok\":%llu,\"waits_timed_out\":%llu,\"notifications\":%llu,\"perturb\":\"%s\"}",
			(unsigned long long)atomic_load(&t->cases), nd, t->prof.kind, vf_log2_bucket(atomic_load(&t->waits_tmo)), vf_log2_bucket(atomic_load(&t->race_ran)), vf_log2_bucket(atomic_load(&t->race_skipped)),
			(atomic_load(&t->waits_tmo) && atomic_load(&t->cancelled_skipped)) ? "true" : "false", idx, nd, (unsigned long long)atomic_load(&t->cases),
			(unsigned long long)atomic_load(&t->bodies_run), (unsigned long long)atomic_load(&t->cancelled_skipped), (unsigned long long)atomic_load(&t->race_ran), (unsigned long long)atomic_load(&t->race_skipped),
			(unsigned long long)atomic_load(&t->waits_ok), (unsigned long long)atomic_load(&t->waits_tmo), (unsigned long long)atomic_load(&t->ntf_total), t->prof.desc);
	dispatch_release(t->qs[0]); dispatch_release(t->qs[1]); dispatch_release(t->qs[3]); dispatch_release(t->qs[4]); dispatch_release(t->grp); dispatch_release(t->empty_grp);
	free(d); free(t);
}

/* ---- window mode: directed schedule (failpoint via H1) --------------------------
 * The submitting thread is stalled inside dispatch_async / dispatch_sync /
 * dispatch_group_async right after it has published the target queue in the block
 * object; meanwhile another thread calls dispatch_block_wait with a short timeout
 * (allowed: one waiter, block executed once). Using the object and the queue through
 * held references must stay memory-safe (C17) and the wait/execution protocol must
 * hold (C19). */
typedef struct { bcase_t *c; dispatch_queue_t q; int sub; dispatch_group_t g; } wsub_t;
static void *window_submitter(void *arg)
{
	wsub_t *w = arg;
	bcase_t *c = w->c;
	vf_stall_arm(w->sub == SUB_SYNC ? "_dispatch_sync_block_with_privdata" : "_dispatch_continuation_init_slow", 3, 1, 20ull * 1000 * 1000);
	c->sub_call = vf_stamp();
	if (w->sub == SUB_ASYNC) dispatch_async(w->q, c->b);
	else if (w->sub == SUB_SYNC) dispatch_sync(w->q, c->b);
	else dispatch_group_async(w->g, w->q, c->b);
	c->sub_ret = vf_stamp();
	vf_stall_disarm();
	return NULL;
}

static void run_window_trial(int idx)
{
	btrial_t *t = calloc(1, sizeof(*t));
	vf_rng_t r;
	vf_rng_seed(&r, vf_opts.seed, (uint64_t)idx * 7757 + 61);
	vf_perturb_off();
	snprintf(t->prof.desc, sizeof(t->prof.desc), "stall(submitter after publishing the queue in the block object)");
	t->grp = dispatch_group_create();
	int reached = 0;
	for (int k = 0; k < 12; k++) {
		int sub = k % 3 == 0 ? SUB_ASYNC : k % 3 == 1 ? SUB_SYNC : SUB_GROUP_ASYNC;
		/* a fresh queue per case with only the harness reference on it */
		dispatch_queue_t q = dispatch_queue_create("vf.block.window", (k & 4) ? DISPATCH_QUEUE_CONCURRENT : DISPATCH_QUEUE_SERIAL);
		bcase_t *c = calloc(1, sizeof(*c));
		c->t = t; c->scen = S_PLAIN; c->sub = sub;
		c->b = dispatch_block_create(0, ^{ body(c); });
		vf_stall_reset();
		wsub_t w = { c, q, sub, t->grp };
		pthread_t th;
		pthread_create(&th, NULL, window_submitter, &w);
		vf_watch_begin("block:window", 0);
		uint64_t t0 = vf_now_ns(CLOCK_MONOTONIC);
		while (!vf_stall_reached() && vf_now_ns(CLOCK_MONOTONIC) - t0 < 1000000000ull) sched_yield();
		reached += vf_stall_reached();
		/* the one allowed waiter, concurrent with the submission */
		do_wait(c, &r);
		vf_stall_release();
		pthread_join(th, NULL);
		while (!atomic_load(&c->finished)) sched_yield();
		/* the queue is still referenced by the harness: using it must be safe */
		dispatch_sync(q, ^{ vf_progress(); });
		dispatch_barrier_sync(q, ^{ vf_progress(); });
		vf_watch_end();
		check_case(c);
		dispatch_release(q);
		Block_release(c->b);
		free(c);
	}
	dispatch_group_wait(t->grp, DISPATCH_TIME_FOREVER);
	vf_count("window_stall_reached", (uint64_t)reached);
	vf_count("block_cases", 12);
	vf_count("items", 12);
	vf_emit("trial", "\"n\":12,\"sig\":\"blkwin-%d\",\"nontrivial\":%s,\"sample\":{\"trial\":%d,\"scenario\":\"wait concurrent with submission (directed stall)\",\"cases\":12,\"stall_reached\":%d}",
			reached, reached ? "true" : "false", idx, reached);
	dispatch_release(t->grp);
	free(t);
}

int main(int argc, char **argv)
{
	vf_init(argc, argv, "h_block");
	for (int i = 0; i < vf_opts.trials; i++) {
		if (!strcmp(vf_opts.mode, "window")) run_window_trial(vf_opts.first_trial + i);
		else run_trial(vf_opts.first_trial + i);
	}
	return vf_finish();
}
