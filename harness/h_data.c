/*
 * h_data.c — C13: every dispatch_data object denotes a fixed byte string.
 *
 * Model-based random testing: every live reference the harness holds on a
 * dispatch_data object ("entry") is shadowed by a malloc'd copy of the byte string it
 * must denote plus a provenance list (which leaf buffers its bytes come from; the list
 * mirrors the library's record list and is used for coverage classification and for the
 * destructor rule only — never for the byte oracle). Random sequences of
 * create/concat/subrange/map/apply/copy_region/retain/release are checked after every
 * step against the model; custom destructors are counted per leaf buffer, poison the
 * buffer (0xDD, a value no model byte ever has) and free it, so that a premature
 * destructor shows up as an ASan/memcheck report or a model mismatch.
 *
 * Modes:  default  random op sequences (one trial = one sequence of 200..2000 ops)
 *         munmap   directed probe of DISPATCH_DATA_DESTRUCTOR_MUNMAP in a forked child
 * Options: --ops=N (force sequence length)  --munmap=auto|0|1 (MUNMAP leaves in random trees)
 * Replay:  --seed=S --first=<trial> --trials=1 (the main-thread op sequence is a function of
 *          seed and trial index only).
 */
#include "vf_common.h"
#include <dispatch/dispatch.h>
#include <dispatch/private.h>
#include <stdarg.h>
#include <sched.h>
#include <fcntl.h>
#include <sys/mman.h>
#include <sys/wait.h>
#include <signal.h>

#if defined(__has_include)
#if __has_include(<valgrind/valgrind.h>)
#include <valgrind/valgrind.h>
#define VF_HAVE_VG 1
#endif
#endif
#ifndef VF_HAVE_VG
#define VF_HAVE_VG 0
#define RUNNING_ON_VALGRIND 0
#define VALGRIND_COUNT_ERRORS 0
#endif

#define POISON 0xDD
#define MAXPOOL 64
#define POOLCAP (MAXPOOL + 4)
#define MAXPINS 8
#define MAXDEPTH 12
#define MAXSEGS 300
#define MAXSIZE ((size_t)1 << 18)
#define NQ 3

/* ---------------------------------------------------------------- coverage cases */
#define CASES(X) \
	X(leaf_default) X(leaf_default_f) X(leaf_free) X(leaf_free_f) X(leaf_none) X(leaf_block) X(leaf_block_q) \
	X(leaf_func) X(leaf_func_q) X(leaf_alloc) X(leaf_empty_singleton) X(leaf_zero_len) X(leaf_munmap) \
	X(concat_leaf_leaf) X(concat_composites) X(concat_mixed) X(concat_self) X(concat_with_empty) X(concat_of_subranges) \
	X(sub_of_leaf) X(sub_of_trivial) X(sub_whole) X(sub_whole_clamped) X(sub_offset_oob) X(sub_zero_len) \
	X(sub_len_clamped) X(sub_sum_overflow) X(sub_comp_within_record) X(sub_comp_multi) X(sub_comp_cut_first) \
	X(sub_comp_cut_last) X(sub_comp_to_end) X(sub_comp_record_aligned) X(sub_comp_multi_cut) \
	X(map_direct) X(map_flatten) X(map_empty) X(map_same_object) X(map_null_outptrs) \
	X(apply_block) X(apply_f) X(apply_multi_region) X(apply_early_stop) X(apply_region_pinned) X(apply_region_to_pool) \
	X(cr_single) X(cr_first_record) X(cr_last_record) X(cr_middle_record) X(cr_oob) X(cr_result_is_subrange) \
	X(extra_retain) X(release_nonfinal) X(release_final_with_live_derived) \
	X(dtor_on_queue) X(dtor_default_queue) X(none_buffer_freed_early) X(recheck) X(recheck_mapbuf)
#define X(n) CS_##n,
enum { CASES(X) CS_N };
#undef X
#define X(n) #n,
static const char *const case_name[] = { CASES(X) };
#undef X
_Static_assert(CS_N <= 64, "case mask is 64 bits");

/* ---------------------------------------------------------------- model */
enum { K_DEFAULT, K_FREE, K_NONE, K_BLOCK, K_BLOCK_Q, K_FUNC, K_FUNC_Q, K_ALLOC, K_EMPTY, K_MUNMAP, K_NK };
static const char *const kind_name[] = { "default", "free", "none", "block", "block+queue", "func", "func+queue", "alloc", "empty", "munmap" };

typedef struct leaf {          /* a buffer whose lifetime the harness can observe */
	int id, kind, op;
	uint8_t *buf;              /* the bytes handed to the constructor */
	size_t size;               /* size handed to the constructor (0 for zero-length leaves) */
	size_t maplen;             /* K_MUNMAP: mapping length */
	bool has_dtor;             /* a custom destructor must run exactly once */
	bool harness_owned;        /* K_NONE: the harness frees it once nothing can reference it */
	bool buf_freed;
	int qidx;                  /* destructor queue or -1 */
	_Atomic int runs;
	_Atomic long live;         /* live entries/pins whose bytes come from this buffer */
} leaf_t;

typedef struct { int leaf; size_t off, len, lsize; } seg_t;   /* leaf = -1: bytes owned by the library */

typedef struct {
	dispatch_data_t dd;
	uint8_t *m; size_t n;      /* the byte string this reference must denote */
	seg_t *segs; int nsegs;    /* provenance, mirrors the record list */
	int refs, depth, id;
	const uint8_t *mapbuf;     /* create_map result: pointer valid while this reference lives */
} ent_t;

typedef struct { dispatch_data_t region; const uint8_t *buf; size_t size; uint8_t *copy; seg_t *segs; int nsegs; int id; } pin_t;

typedef struct trial {
	int idx; uint64_t nops; int opno;
	vf_rng_t r;
	int mix, szclass, maxpool;
	ent_t pool[POOLCAP]; int npool;
	pin_t pins[MAXPINS]; int npins;
	leaf_t *leaves; _Atomic int nleaves; int capleaves;
	dispatch_queue_t q[NQ];
	_Atomic uint64_t dtor_first_runs; uint64_t dtor_expected;
	uint64_t mask; uint64_t cases[CS_N];
	int next_id, max_depth, max_segs;
	bool violated;
	uint64_t bytes_checked, objects_checked, regions_seen, regions_match, regions_differ;
	char lastop[200];
} trial_t;

static trial_t *T;
static leaf_t *g_retired_leaves;       /* previous trial's leaves stay valid for late (duplicate) destructor calls */
static bool g_munmap_ok;
static bool g_free_on_destroy;         /* ASan/valgrind: free poisoned buffers at once; else quarantine until trial end */
static unsigned g_vg_errors;

/* op log: last ops, for witnesses */
#define RING 12
static char g_ring[RING][220];
static int g_ringn;
static pthread_mutex_t g_ring_mtx = PTHREAD_MUTEX_INITIALIZER;

static void oplog(const char *fmt, ...) __attribute__((format(printf, 1, 2)));
static void oplog(const char *fmt, ...)
{
	va_list ap;
	pthread_mutex_lock(&g_ring_mtx);
	char *s = g_ring[g_ringn % RING];
	int k = snprintf(s, sizeof(g_ring[0]), "#%d ", T->opno);
	va_start(ap, fmt);
	vsnprintf(s + k, sizeof(g_ring[0]) - (size_t)k, fmt, ap);
	va_end(ap);
	snprintf(T->lastop, sizeof(T->lastop), "%s", s);
	g_ringn++;
	pthread_mutex_unlock(&g_ring_mtx);
}
/* append the result to the newest log line */
static void oplog_res(const char *fmt, ...) __attribute__((format(printf, 1, 2)));
static void oplog_res(const char *fmt, ...)
{
	va_list ap;
	pthread_mutex_lock(&g_ring_mtx);
	if (g_ringn) {
		char *s = g_ring[(g_ringn - 1) % RING];
		size_t k = strlen(s);
		va_start(ap, fmt);
		vsnprintf(s + k, sizeof(g_ring[0]) - k, fmt, ap);
		va_end(ap);
	}
	pthread_mutex_unlock(&g_ring_mtx);
}

static const char *const mix_name[] = { "balanced", "concat-heavy", "subrange-heavy", "churn" };
static const char *const sz_name[] = { "tiny(1-4)", "small(1-48)", "mixed(1-70000)" };

static void viol(const char *key, const char *fmt, ...) __attribute__((format(printf, 2, 3)));
static void viol(const char *key, const char *fmt, ...)
{
	char msg[640], tail[1100];
	va_list ap;
	va_start(ap, fmt);
	vsnprintf(msg, sizeof(msg), fmt, ap);
	va_end(ap);
	size_t o = 0;
	tail[0] = 0;
	pthread_mutex_lock(&g_ring_mtx);
	int first = g_ringn > 10 ? g_ringn - 10 : 0;
	for (int i = first; i < g_ringn && o < sizeof(tail) - 4; i++) {
		o += (size_t)snprintf(tail + o, sizeof(tail) - o, "%s%s", i > first ? " ; " : "", g_ring[i % RING]);
		if (o >= sizeof(tail)) o = sizeof(tail) - 1;
	}
	pthread_mutex_unlock(&g_ring_mtx);
	vf_violation(key, "%s | replay: h_data --seed=%llu --first=%d --trials=1%s (trial %d, op #%d of %llu, mix=%s sizes=%s) | last ops: %s",
			msg, (unsigned long long)vf_opts.seed, T->idx, vf_opt("ops", NULL) ? " --ops=<same>" : "", T->idx, T->opno,
			(unsigned long long)T->nops, mix_name[T->mix], sz_name[T->szclass], tail);
	T->violated = true;
}

static inline void hit(int c) { T->mask |= 1ull << c; T->cases[c]++; }

/* memcheck: turn new valgrind errors into a violation naming the op that was running */
static void vg_check(const char *op)
{
#if VF_HAVE_VG
	if (RUNNING_ON_VALGRIND) {
		unsigned e = (unsigned)VALGRIND_COUNT_ERRORS;
		if (e != g_vg_errors) {
			char key[96];
			snprintf(key, sizeof(key), "memcheck:error:%s", op);
			viol(key, "valgrind reported %u new error(s) during this op (error text is on stderr)", e - g_vg_errors);
			g_vg_errors = e;
		}
	}
#else
	(void)op;
#endif
}

/* ---------------------------------------------------------------- bytes */
static void fill_bytes(vf_rng_t *r, uint8_t *p, size_t n)
{
	size_t i = 0;
	while (i < n) {
		uint64_t v = vf_rnd(r);
		for (int k = 0; k < 8 && i < n; k++, i++) {
			uint8_t b = (uint8_t)(v >> (k * 8));
			p[i] = b == POISON ? 0xDC : b;
		}
	}
}

static size_t first_diff(const uint8_t *a, const uint8_t *b, size_t n)
{
	for (size_t i = 0; i < n; i++) if (a[i] != b[i]) return i;
	return n;
}

/* ---------------------------------------------------------------- provenance */
static seg_t *segs_dup(const seg_t *s, int n)
{
	seg_t *d = malloc(sizeof(seg_t) * (size_t)(n ? n : 1));
	if (n) memcpy(d, s, sizeof(seg_t) * (size_t)n);
	return d;
}
static seg_t *segs_slice(const seg_t *s, int ns, size_t off, size_t len, int *out_n)
{
	seg_t *d = malloc(sizeof(seg_t) * (size_t)(ns ? ns : 1));
	int k = 0;
	size_t pos = 0, end = off + len;
	for (int i = 0; i < ns; i++) {
		size_t a = off > pos ? off : pos, b = end < pos + s[i].len ? end : pos + s[i].len;
		if (a < b) { d[k] = s[i]; d[k].off = s[i].off + (a - pos); d[k].len = b - a; k++; }
		pos += s[i].len;
	}
	*out_n = k;
	return d;
}
static int seg_index_at(const ent_t *e, size_t p, size_t *start)
{
	size_t pos = 0;
	for (int i = 0; i < e->nsegs; i++) {
		if (p < pos + e->segs[i].len) { if (start) *start = pos; return i; }
		pos += e->segs[i].len;
	}
	if (start) *start = pos;
	return e->nsegs;
}
static inline bool seg_is_whole_leaf(const seg_t *s) { return s->off == 0 && s->len == s->lsize; }

static void segs_live(const seg_t *s, int n, long d)
{
	for (int i = 0; i < n; i++) if (s[i].leaf >= 0) atomic_fetch_add(&T->leaves[s[i].leaf].live, d);
}

/* ---------------------------------------------------------------- leaf buffers and destructors */
static void leaf_release_buffer(leaf_t *L)
{
	if (L->buf_freed) return;
	if (L->kind == K_MUNMAP) return;
	if (L->buf) {
		memset(L->buf, POISON, L->size);
		if (g_free_on_destroy) { free(L->buf); L->buf_freed = true; }
	}
}

static void leaf_destroyed(leaf_t *L)
{
	int r = atomic_fetch_add(&L->runs, 1);
	vf_progress();
	if (r >= 1) {
		viol("C13:destructor:ran-twice", "destructor of leaf L%d (kind %s, size %zu, created by op #%d) invoked %d times", L->id, kind_name[L->kind], L->size, L->op, r + 1);
		return;
	}
	long lv = atomic_load(&L->live);
	if (lv > 0) {
		viol("C13:destructor:ran-while-derived-object-live", "destructor of leaf L%d (kind %s, size %zu, created by op #%d) ran while %ld live object reference(s) still denote bytes of this buffer",
				L->id, kind_name[L->kind], L->size, L->op, lv);
		if (L->buf) memset(L->buf, POISON, L->size);   /* poison, keep allocated */
	} else {
		leaf_release_buffer(L);
	}
	if (T && L >= T->leaves && L < T->leaves + T->capleaves) atomic_fetch_add(&T->dtor_first_runs, 1);
}

static void func_dtor(void *ctx)
{
	trial_t *t = T;
	leaf_t *pending = NULL, *done = NULL;
	int n = atomic_load_explicit(&t->nleaves, memory_order_acquire);
	for (int i = n - 1; i >= 0; i--) {
		leaf_t *L = &t->leaves[i];
		if ((L->kind != K_FUNC && L->kind != K_FUNC_Q) || L->buf != ctx) continue;
		if (atomic_load(&L->runs) == 0) { pending = L; break; }
		if (!done) done = L;
	}
	if (pending) leaf_destroyed(pending);
	else if (done) leaf_destroyed(done);
	else viol("C13:destructor:unknown-buffer", "destructor function called with context %p which is no buffer handed to dispatch_data_create_f in this trial", ctx);
}

static leaf_t *leaf_new(int kind, uint8_t *buf, size_t size, int qidx)
{
	int i = atomic_load(&T->nleaves);
	if (i >= T->capleaves) vf_fail("leaf table overflow");
	leaf_t *L = &T->leaves[i];
	memset(L, 0, sizeof(*L));
	L->id = i; L->kind = kind; L->op = T->opno; L->buf = buf; L->size = size; L->qidx = qidx;
	L->has_dtor = kind == K_BLOCK || kind == K_BLOCK_Q || kind == K_FUNC || kind == K_FUNC_Q;
	L->harness_owned = kind == K_NONE;
	atomic_store(&L->runs, 0);
	atomic_store(&L->live, size ? 1 : 0);   /* the object about to be created denotes these bytes */
	atomic_store_explicit(&T->nleaves, i + 1, memory_order_release);
	if (L->has_dtor) T->dtor_expected++;
	return L;
}

/* ---------------------------------------------------------------- entries */
static ent_t *ent_add(dispatch_data_t dd, const uint8_t *m, size_t n, seg_t *segs, int nsegs, int depth, bool count_live)
{
	if (T->npool >= POOLCAP) vf_fail("pool overflow");
	ent_t *e = &T->pool[T->npool++];
	e->dd = dd; e->n = n;
	e->m = malloc(n ? n : 1);
	if (n) memcpy(e->m, m, n);
	e->segs = segs; e->nsegs = nsegs; e->refs = 1; e->depth = depth; e->id = T->next_id++;
	e->mapbuf = NULL;
	if (count_live) segs_live(segs, nsegs, +1);
	if (depth > T->max_depth) T->max_depth = depth;
	if (nsegs > T->max_segs) T->max_segs = nsegs;
	return e;
}

static void none_buffers_maybe_free(const seg_t *s, int n)
{
	for (int i = 0; i < n; i++) {
		if (s[i].leaf < 0) continue;
		leaf_t *L = &T->leaves[s[i].leaf];
		if (L->harness_owned && !L->buf_freed && atomic_load(&L->live) == 0) {
			/* nothing denotes bytes of this NONE buffer any more: the application may reuse it */
			memset(L->buf, POISON, L->size);
			if (g_free_on_destroy) { free(L->buf); L->buf_freed = true; }
			else L->harness_owned = false, L->has_dtor = false; /* quarantined; freed at trial end */
			hit(CS_none_buffer_freed_early);
		}
	}
}

static void ent_drop_ref(int i)
{
	ent_t *e = &T->pool[i];
	if (--e->refs > 0) { dispatch_release(e->dd); hit(CS_release_nonfinal); return; }
	segs_live(e->segs, e->nsegs, -1);
	for (int k = 0; k < e->nsegs; k++) if (e->segs[k].leaf >= 0 && atomic_load(&T->leaves[e->segs[k].leaf].live) > 0) { hit(CS_release_final_with_live_derived); break; }
	dispatch_release(e->dd);
	none_buffers_maybe_free(e->segs, e->nsegs);
	free(e->m); free(e->segs);
	T->pool[i] = T->pool[--T->npool];
}

static void pin_drop(int i)
{
	pin_t *p = &T->pins[i];
	if (memcmp(p->buf, p->copy, p->size)) {
		size_t d = first_diff(p->buf, p->copy, p->size);
		viol("C13:apply:retained-region-bytes-changed", "region object p%d retained inside an apply callback: memory at its buffer changed at +%zu/%zu: expected %02x got %02x",
				p->id, d, p->size, p->copy[d], p->buf[d]);
	}
	T->bytes_checked += p->size;
	segs_live(p->segs, p->nsegs, -1);
	dispatch_release(p->region);
	none_buffers_maybe_free(p->segs, p->nsegs);
	free(p->copy); free(p->segs);
	T->pins[i] = T->pins[--T->npins];
}

/* ---------------------------------------------------------------- apply-based checking */
typedef struct { size_t off, size; } reg_t;
typedef struct {
	const ent_t *e;
	const char *bytes_key;      /* key for a content mismatch (names the op that produced the object) */
	const char *what;
	size_t next; int calls;
	int stop_at, pin_at;        /* callback index, -1 = never */
	bool failed, stopped; int after_stop;
	reg_t *regs; int nregs, capregs;      /* optional record of the regions visited */
	dispatch_data_t pinned; const uint8_t *pin_buf; size_t pin_off, pin_size; bool pin_exact;
	int supersets;
	vf_rng_t *r;
} actx_t;

static bool apply_cb(void *c, dispatch_data_t region, size_t off, const void *buf, size_t sz)
{
	actx_t *a = c;
	const ent_t *e = a->e;
	int idx = a->calls++;
	if (a->stopped) { a->after_stop++; return false; }
	if (a->failed) return false;
	if (off != a->next) {
		viol("C13:apply:offsets-not-consecutive", "%s e%d{n=%zu,records=%d}: region #%d has offset %zu, expected %zu (size %zu)", a->what, e->id, e->n, e->nsegs, idx, off, a->next, sz);
		a->failed = true; return false;
	}
	if (off > e->n || sz > e->n - off) {
		viol("C13:apply:region-out-of-range", "%s e%d{n=%zu,records=%d}: region #%d = [%zu,+%zu) exceeds the object's size", a->what, e->id, e->n, e->nsegs, idx, off, sz);
		a->failed = true; return false;
	}
	if (sz && memcmp(buf, e->m + off, sz)) {
		size_t d = first_diff(buf, e->m + off, sz);
		viol(a->bytes_key, "%s e%d{n=%zu,records=%d}: region #%d = [%zu,+%zu): byte %zu is %02x, model says %02x", a->what, e->id, e->n, e->nsegs, idx, off, sz, off + d,
				((const uint8_t *)buf)[d], e->m[off + d]);
		a->failed = true; return false;
	}
	T->bytes_checked += sz;
	/* the region object must be usable inside the callback */
	size_t rs = dispatch_data_get_size(region);
	if (rs > sz) a->supersets++;
	bool want_pin = idx == a->pin_at && !a->pinned;
	if (want_pin || (a->r && vf_rnd_n(a->r, 4) == 0)) {
		const void *rb = NULL; size_t rsz = 0;
		dispatch_data_t rm = dispatch_data_create_map(region, &rb, &rsz);
		if (rm) {
			volatile uint8_t sink = 0;
			for (size_t i = 0; i < rsz; i += 61) sink ^= ((const uint8_t *)rb)[i];
			if (rsz) sink ^= ((const uint8_t *)rb)[rsz - 1];
			(void)sink;
			if (want_pin) a->pin_exact = (rb == buf && rsz == sz && rm == region);
			dispatch_release(rm);
		}
	}
	if (want_pin) {
		dispatch_retain(region);
		a->pinned = region; a->pin_buf = buf; a->pin_off = off; a->pin_size = sz;
	}
	if (a->regs) {
		if (a->nregs == a->capregs) { a->capregs = a->capregs ? a->capregs * 2 : 16; a->regs = realloc(a->regs, sizeof(reg_t) * (size_t)a->capregs); }
		a->regs[a->nregs].off = off; a->regs[a->nregs].size = sz; a->nregs++;
	}
	a->next = off + sz;
	if (idx == a->stop_at) { a->stopped = true; return false; }
	return true;
}

static void actx_init(actx_t *a, const ent_t *e, const char *bytes_key, const char *what)
{
	memset(a, 0, sizeof(*a));
	a->e = e; a->bytes_key = bytes_key; a->what = what; a->stop_at = -1; a->pin_at = -1;
}

/* run apply over e and check tiling; returns false if a violation was reported */
static bool run_apply(actx_t *a, bool use_block)
{
	const ent_t *e = a->e;
	bool ret;
	if (use_block) {
		ret = dispatch_data_apply(e->dd, ^bool(dispatch_data_t region, size_t off, const void *buf, size_t sz) { return apply_cb(a, region, off, buf, sz); });
	} else {
		ret = dispatch_data_apply_f(e->dd, a, apply_cb);
	}
	(void)ret;
	T->regions_seen += (uint64_t)a->calls;
	if (a->failed) return false;
	if (!a->stopped && a->next != e->n) {
		viol("C13:apply:incomplete-tiling", "%s e%d{n=%zu,records=%d}: %d region(s) cover [0,%zu) only", a->what, e->id, e->n, e->nsegs, a->calls, a->next);
		return false;
	}
	if (!a->stopped) { if (a->calls == e->nsegs) T->regions_match++; else T->regions_differ++; }
	return true;
}

/* a freshly produced object: size and bytes against the model. Returns false (and removes
 * the entry) when it disagrees, so that one defect does not cascade. */
static bool check_fresh(ent_t *e, const char *op)
{
	char key[64];
	size_t sz = dispatch_data_get_size(e->dd);
	bool ok = true;
	if (sz != e->n) {
		snprintf(key, sizeof(key), "C13:size-mismatch:%s", op);
		viol(key, "result e%d of %s: dispatch_data_get_size = %zu, model says %zu", e->id, op, sz, e->n);
		ok = false;
	} else {
		char what[64];
		snprintf(key, sizeof(key), "C13:%s:bytes-mismatch", op);
		snprintf(what, sizeof(what), "checking the result of %s by apply_f:", op);
		actx_t a; actx_init(&a, e, key, what);
		a.r = &T->r;
		ok = run_apply(&a, false);
	}
	T->objects_checked++;
	vg_check(op);
	if (!ok) { e->refs = 1; ent_drop_ref((int)(e - T->pool)); }
	return ok;
}

static void recheck(ent_t *e)
{
	hit(CS_recheck);
	size_t sz = dispatch_data_get_size(e->dd);
	if (sz != e->n) { viol("C13:size-mismatch:recheck", "e%d: dispatch_data_get_size = %zu now, was %zu when the object was created", e->id, sz, e->n); return; }
	actx_t a; actx_init(&a, e, "C13:recheck:bytes-changed", "re-reading (apply)");
	a.r = &T->r;
	if (!run_apply(&a, vf_rnd_n(&T->r, 2))) return;
	if (e->mapbuf && e->n) {
		hit(CS_recheck_mapbuf);
		if (memcmp(e->mapbuf, e->m, e->n)) {
			size_t d = first_diff(e->mapbuf, e->m, e->n);
			viol("C13:map:mapped-bytes-changed", "e%d (a create_map result still held): mapped memory byte %zu/%zu is %02x, model says %02x", e->id, d, e->n, e->mapbuf[d], e->m[d]);
		}
		T->bytes_checked += e->n;
	}
	T->objects_checked++;
}

/* ---------------------------------------------------------------- picking */
static int pick_ent_raw(void)
{
	int n = T->npool;
	if (n > 8 && vf_rnd_n(&T->r, 2)) return n - 1 - (int)vf_rnd_n(&T->r, 8);
	return (int)vf_rnd_n(&T->r, (uint32_t)n);
}
/* mostly non-empty objects; empties are cheap to make and would otherwise flood the pool */
static int pick_ent(void)
{
	int i = pick_ent_raw();
	for (int k = 0; k < 3 && T->pool[i].n == 0 && vf_rnd_n(&T->r, 4); k++) i = pick_ent_raw();
	return i;
}
/* prefer multi-record objects half of the time */
static int pick_ent_composite(void)
{
	int i = pick_ent();
	if (vf_rnd_n(&T->r, 2)) for (int k = 0; k < 4 && T->pool[i].nsegs < 2; k++) i = pick_ent();
	return i;
}
/* an empty result stays in the pool only now and then */
static void maybe_discard_empty(ent_t *e)
{
	if (e->n == 0 && vf_rnd_n(&T->r, 4)) { oplog_res(" (released at once)"); ent_drop_ref((int)(e - T->pool)); }
}

static size_t rnd_size(vf_rng_t *r, size_t hi) /* [0,hi] */
{
	return hi ? (size_t)(vf_rnd(r) % (hi + 1)) : 0;
}

static size_t leaf_size(void)
{
	vf_rng_t *r = &T->r;
	switch (T->szclass) {
	case 0: return vf_rnd_range(r, 1, 4);
	case 1: return vf_rnd_range(r, 1, 48);
	default: {
		uint32_t k = vf_rnd_n(r, 100);
		if (k < 70) return vf_rnd_range(r, 1, 64);
		if (k < 90) return vf_rnd_range(r, 65, 600);
		if (k < 98) return 4095 + vf_rnd_n(r, 3);
		return vf_rnd_range(r, 20000, 70000);
	}
	}
}

static size_t seg_boundary(const ent_t *e)
{
	if (!e->nsegs) return 0;
	int k = (int)vf_rnd_n(&T->r, (uint32_t)e->nsegs + 1);
	size_t pos = 0;
	for (int i = 0; i < k; i++) pos += e->segs[i].len;
	return pos;
}

static size_t pick_off(const ent_t *e)
{
	size_t n = e->n;
	switch (vf_rnd_n(&T->r, 24)) {
	case 0: case 1: return 0;
	case 2: return 1;
	case 3: return n - 1;              /* SIZE_MAX when n == 0 */
	case 4: return n;
	case 5: return n + 1;
	case 6: return SIZE_MAX;
	case 7: return n + 1 + (size_t)(vf_rnd(&T->r) >> vf_rnd_n(&T->r, 60));
	case 8: case 9: case 10: case 11: case 12: { size_t b = seg_boundary(e); uint32_t d = vf_rnd_n(&T->r, 3); return d == 0 ? b - 1 : d == 1 ? b : b + 1; }
	default: return rnd_size(&T->r, n ? n - 1 : 0);
	}
}

static size_t pick_len(const ent_t *e, size_t off)
{
	size_t n = e->n;
	size_t rest = off < n ? n - off : 0;
	switch (vf_rnd_n(&T->r, 14)) {
	case 0: return 0;
	case 1: return 1;
	case 2: return n - 1;
	case 3: return n;
	case 4: return n + 1;
	case 5: return SIZE_MAX;
	case 6: return SIZE_MAX - off + 1;  /* offset + length wraps to 0 */
	case 7: return rest;                /* exactly to the end */
	case 8: return rest + 1;
	case 9: case 10: { size_t b = seg_boundary(e); uint32_t d = vf_rnd_n(&T->r, 3); size_t end = d == 0 ? b - 1 : d == 1 ? b : b + 1; return end > off ? end - off : 1; }
	case 11: return rest ? rest - 1 : 0;
	default: return rnd_size(&T->r, rest);
	}
}

/* ---------------------------------------------------------------- operations */
static int pick_queue_idx(void) { return (int)vf_rnd_n(&T->r, NQ); }

#define AS_FN(blk) ((dispatch_function_t)(uintptr_t)(const void *)(blk))

static void op_leaf(void)
{
	vf_rng_t *r = &T->r;
	static const int kinds[] = { K_DEFAULT, K_DEFAULT, K_FREE, K_FREE, K_NONE, K_NONE, K_BLOCK, K_BLOCK, K_BLOCK_Q, K_BLOCK_Q, K_FUNC, K_FUNC_Q, K_ALLOC, K_EMPTY, K_MUNMAP };
	int kind = kinds[vf_rnd_n(r, sizeof(kinds) / sizeof(kinds[0]))];
	if (kind == K_MUNMAP && !g_munmap_ok) kind = K_BLOCK;
	bool zero = kind != K_EMPTY && kind != K_MUNMAP && vf_rnd_n(r, 12) == 0;
	size_t n = zero ? 0 : leaf_size();
	bool via_f = vf_rnd_n(r, 2);
	dispatch_data_t dd = NULL;
	leaf_t *L = NULL;
	uint8_t *buf = NULL;
	int qi = -1;
	dispatch_queue_t q = NULL;

	if (kind == K_EMPTY) {
		oplog("leaf(empty singleton)");
		dd = dispatch_data_empty; n = 0;
		hit(CS_leaf_empty_singleton);
	} else if (kind == K_ALLOC) {
		void *p = (void *)0x1;
		oplog("leaf(create_alloc,n=%zu)", n);
		dd = dispatch_data_create_alloc(n, vf_rnd_n(r, 8) || n ? &p : NULL);
		if (n) fill_bytes(r, p, n);
		buf = malloc(n ? n : 1);
		if (n) memcpy(buf, p, n);
		hit(CS_leaf_alloc);
	} else if (kind == K_MUNMAP) {
		char name[64];
		snprintf(name, sizeof(name), "vfc13mm-%d-%d", T->idx, T->opno);
		int fd = memfd_create(name, 0);
		size_t ml = (n + 4095) & ~(size_t)4095;
		if (fd < 0 || ftruncate(fd, (off_t)ml)) vf_fail("memfd_create/ftruncate: %s", strerror(errno));
		buf = mmap(NULL, ml, PROT_READ | PROT_WRITE, MAP_PRIVATE, fd, 0);
		close(fd);
		if (buf == MAP_FAILED) vf_fail("mmap: %s", strerror(errno));
		fill_bytes(r, buf, n);
		L = leaf_new(K_MUNMAP, buf, n, -1);
		L->maplen = ml;
		oplog("leaf(munmap,n=%zu)=L%d", n, L->id);
		dd = dispatch_data_create(buf, n, NULL, DISPATCH_DATA_DESTRUCTOR_MUNMAP);
		hit(CS_leaf_munmap);
	} else {
		/* exact-size heap block so that an over-read hits a red zone; a zero-length leaf gets a 0- or 8-byte block */
		buf = malloc(zero ? (vf_rnd_n(r, 2) ? 8 : 0) : n);
		if (!buf) vf_fail("malloc");
		fill_bytes(r, buf, n);
		if (kind == K_BLOCK_Q || kind == K_FUNC_Q || vf_rnd_n(r, 4) == 0) { qi = pick_queue_idx(); q = T->q[qi]; }
		if (kind == K_BLOCK || kind == K_FUNC) { qi = -1; q = NULL; }
		switch (kind) {
		case K_DEFAULT:
			oplog("leaf(default%s,n=%zu,q=%d)", via_f ? ",create_f" : "", n, qi);
			dd = via_f ? dispatch_data_create_f(buf, n, q, AS_FN(DISPATCH_DATA_DESTRUCTOR_DEFAULT)) : dispatch_data_create(buf, n, q, DISPATCH_DATA_DESTRUCTOR_DEFAULT);
			hit(via_f ? CS_leaf_default_f : CS_leaf_default);
			break;
		case K_FREE:
			oplog("leaf(free%s,n=%zu,q=%d)", via_f ? ",create_f" : "", n, qi);
			hit(via_f ? CS_leaf_free_f : CS_leaf_free);
			break;
		case K_NONE:
			L = leaf_new(K_NONE, buf, n, qi);
			oplog("leaf(none%s,n=%zu,q=%d)=L%d", via_f ? ",create_f" : "", n, qi, L->id);
			dd = via_f ? dispatch_data_create_f(buf, n, q, AS_FN(DISPATCH_DATA_DESTRUCTOR_NONE)) : dispatch_data_create(buf, n, q, DISPATCH_DATA_DESTRUCTOR_NONE);
			hit(CS_leaf_none);
			break;
		case K_BLOCK: case K_BLOCK_Q:
			L = leaf_new(kind, buf, n, qi);
			oplog("leaf(block,n=%zu,q=%d)=L%d", n, qi, L->id);
			{ leaf_t *Lc = L; dd = dispatch_data_create(buf, n, q, ^{ leaf_destroyed(Lc); }); }
			hit(kind == K_BLOCK ? CS_leaf_block : CS_leaf_block_q);
			hit(q ? CS_dtor_on_queue : CS_dtor_default_queue);
			break;
		default:
			L = leaf_new(kind, buf, n, qi);
			oplog("leaf(func,n=%zu,q=%d)=L%d", n, qi, L->id);
			dd = dispatch_data_create_f(buf, n, q, func_dtor);
			hit(kind == K_FUNC ? CS_leaf_func : CS_leaf_func_q);
			hit(q ? CS_dtor_on_queue : CS_dtor_default_queue);
			break;
		}
		if (kind == K_FREE) {
			/* keep a model copy first: the buffer belongs to the library from now on */
			uint8_t *copy = malloc(n ? n : 1);
			if (n) memcpy(copy, buf, n);
			dd = via_f ? dispatch_data_create_f(buf, n, q, AS_FN(DISPATCH_DATA_DESTRUCTOR_FREE)) : dispatch_data_create(buf, n, q, DISPATCH_DATA_DESTRUCTOR_FREE);
			buf = copy;
		}
		if (zero) hit(CS_leaf_zero_len);
	}
	if (!dd) vf_fail("constructor returned NULL (kind %s, n=%zu)", kind_name[kind], n);
	seg_t *segs = malloc(sizeof(seg_t));
	int ns = 0;
	if (n) { segs[0].leaf = L ? L->id : -1; segs[0].off = 0; segs[0].len = n; segs[0].lsize = n; ns = 1; }
	/* leaf_new already counted the new object in L->live */
	ent_t *e = ent_add(dd, buf, n, segs, ns, 0, false);
	oplog_res(" -> e%d{n=%zu}", e->id, n);
	if (kind == K_DEFAULT) { memset(buf, POISON, n); free(buf); }           /* DEFAULT copies: the caller's buffer may go away at once */
	else if (kind == K_ALLOC || kind == K_FREE) free(buf);                    /* that was our model copy */
	else if (kind == K_NONE && zero) { free(buf); L->buf_freed = true; }
	if (check_fresh(e, "create")) maybe_discard_empty(e);
}

static void op_concat(void)
{
	vf_rng_t *r = &T->r;
	int i = pick_ent(), j = pick_ent();
	uint32_t k = vf_rnd_n(r, 10);
	if (k == 0) j = i;                      /* an object with itself */
	ent_t *a = &T->pool[i], *b = &T->pool[j];
	if (a->n + b->n > MAXSIZE || a->nsegs + b->nsegs > MAXSEGS || a->depth >= MAXDEPTH || b->depth >= MAXDEPTH) { recheck(a); return; }
	oplog("concat(e%d{n=%zu,r=%d},e%d{n=%zu,r=%d})", a->id, a->n, a->nsegs, b->id, b->n, b->nsegs);
	if (i == j) hit(CS_concat_self);
	if (!a->n || !b->n) hit(CS_concat_with_empty);
	else if (a->nsegs > 1 && b->nsegs > 1) hit(CS_concat_composites);
	else if (a->nsegs == 1 && b->nsegs == 1) {
		if (seg_is_whole_leaf(&a->segs[0]) && seg_is_whole_leaf(&b->segs[0])) hit(CS_concat_leaf_leaf); else hit(CS_concat_of_subranges);
	} else hit(CS_concat_mixed);
	dispatch_data_t dd = dispatch_data_create_concat(a->dd, b->dd);
	if (!dd) vf_fail("concat returned NULL");
	size_t n = a->n + b->n;
	uint8_t *m = malloc(n ? n : 1);
	memcpy(m, a->m, a->n); memcpy(m + a->n, b->m, b->n);
	int ns = a->nsegs + b->nsegs;
	seg_t *segs = malloc(sizeof(seg_t) * (size_t)(ns ? ns : 1));
	memcpy(segs, a->segs, sizeof(seg_t) * (size_t)a->nsegs);
	memcpy(segs + a->nsegs, b->segs, sizeof(seg_t) * (size_t)b->nsegs);
	int depth = 1 + (a->depth > b->depth ? a->depth : b->depth);
	ent_t *e = ent_add(dd, m, n, segs, ns, depth, true);
	free(m);
	oplog_res(" -> e%d{n=%zu,r=%d}", e->id, n, ns);
	if (check_fresh(e, "concat")) maybe_discard_empty(e);
}

static void op_subrange(void)
{
	ent_t *s = &T->pool[pick_ent_composite()];
	if (s->depth >= MAXDEPTH) { recheck(s); return; }
	size_t off = pick_off(s), len = pick_len(s, off);
	size_t n = s->n;
	oplog("subrange(e%d{n=%zu,r=%d},off=0x%zx,len=0x%zx)", s->id, n, s->nsegs, off, len);
	/* the clamped slice */
	size_t mo = 0, ml = 0;
	if (off < n) { mo = off; ml = len < n - off ? len : n - off; }
	/* classification */
	if (off + len < off) hit(CS_sub_sum_overflow);
	if (off >= n) hit(CS_sub_offset_oob);
	else if (!len) hit(CS_sub_zero_len);
	else {
		if (len > n - off) hit(CS_sub_len_clamped);
		if (off == 0 && len == n) hit(CS_sub_whole);
		else if (off == 0 && len > n) hit(CS_sub_whole_clamped);
		if (s->nsegs == 1) hit(seg_is_whole_leaf(&s->segs[0]) ? CS_sub_of_leaf : CS_sub_of_trivial);
		else if (s->nsegs > 1 && !(off == 0 && len == n)) {
			size_t st_i, st_j;
			int si = seg_index_at(s, mo, &st_i), sj = seg_index_at(s, mo + ml - 1, &st_j);
			if (si == sj) hit(CS_sub_comp_within_record);
			else {
				bool cut_first = mo > st_i, cut_last = mo + ml < st_j + s->segs[sj].len;
				hit(CS_sub_comp_multi);
				if (cut_first) hit(CS_sub_comp_cut_first);
				if (cut_last) hit(CS_sub_comp_cut_last);
				if (cut_first || cut_last) hit(CS_sub_comp_multi_cut); else hit(CS_sub_comp_record_aligned);
				if (mo + ml == n) hit(CS_sub_comp_to_end);
			}
		}
	}
	dispatch_data_t dd = dispatch_data_create_subrange(s->dd, off, len);
	if (!dd) vf_fail("subrange returned NULL");
	int ns;
	seg_t *segs = segs_slice(s->segs, s->nsegs, mo, ml, &ns);
	ent_t *e = ent_add(dd, s->m + mo, ml, segs, ns, s->depth + 1, true);
	oplog_res(" -> e%d{n=%zu,r=%d}", e->id, ml, ns);
	if (check_fresh(e, "subrange")) maybe_discard_empty(e);
}

static void op_map(void)
{
	ent_t *s = &T->pool[pick_ent()];
	if (s->depth >= MAXDEPTH) { recheck(s); return; }
	uint32_t v = vf_rnd_n(&T->r, 8);       /* 0: no out pointers, 1: buffer only, 2: size only, else both */
	const void *b = (const void *)0x1; size_t sz = (size_t)-3;
	bool want_b = v == 1 || v > 2, want_s = v >= 2;
	oplog("map(e%d{n=%zu,r=%d},buf=%d,size=%d)", s->id, s->n, s->nsegs, want_b, want_s);
	if (!s->n) hit(CS_map_empty); else if (s->nsegs == 1) hit(CS_map_direct); else hit(CS_map_flatten);
	if (!want_b || !want_s) hit(CS_map_null_outptrs);
	dispatch_data_t dd = dispatch_data_create_map(s->dd, want_b ? &b : NULL, want_s ? &sz : NULL);
	if (!dd) vf_fail("create_map returned NULL (n=%zu)", s->n);
	bool ok = true;
	if (want_s && sz != s->n) { viol("C13:size-mismatch:map", "create_map(e%d) stored size %zu, model says %zu", s->id, sz, s->n); ok = false; }
	if (ok && want_b && s->n) {
		if (memcmp(b, s->m, s->n)) {
			size_t d = first_diff(b, s->m, s->n);
			viol("C13:map:bytes-mismatch", "create_map(e%d{n=%zu,r=%d}): mapped byte %zu is %02x, model says %02x", s->id, s->n, s->nsegs, d, ((const uint8_t *)b)[d], s->m[d]);
			ok = false;
		}
		T->bytes_checked += s->n;
	}
	if (!ok) { dispatch_release(dd); return; }
	seg_t *segs; int ns;
	if (dd == s->dd) { hit(CS_map_same_object); segs = segs_dup(s->segs, s->nsegs); ns = s->nsegs; }
	else {
		/* a new object: a contiguous copy owned by the library (or, conservatively, nothing we track) */
		segs = malloc(sizeof(seg_t)); ns = 0;
		if (s->n) { segs[0].leaf = -1; segs[0].off = 0; segs[0].len = s->n; segs[0].lsize = s->n; ns = 1; }
	}
	ent_t *e = ent_add(dd, s->m, s->n, segs, ns, s->depth + 1, true);
	if (want_b && s->n) e->mapbuf = b;
	oplog_res(" -> e%d{n=%zu,r=%d}%s", e->id, e->n, ns, dd == s->dd ? " (same object)" : "");
	if (check_fresh(e, "map")) maybe_discard_empty(e);
}

static void op_apply(void)
{
	vf_rng_t *r = &T->r;
	int si = pick_ent_composite();
	ent_t *s = &T->pool[si];
	bool blk = vf_rnd_n(r, 2);
	actx_t a; actx_init(&a, s, "C13:apply:bytes-mismatch", blk ? "apply" : "apply_f");
	a.r = r;
	if (s->nsegs && vf_rnd_n(r, 3) == 0) a.stop_at = (int)vf_rnd_n(r, (uint32_t)s->nsegs);
	if (s->nsegs && T->npins < MAXPINS && T->npool < T->maxpool && vf_rnd_n(r, 3) == 0) {
		a.pin_at = (int)vf_rnd_n(r, (uint32_t)s->nsegs);
		if (a.stop_at >= 0 && a.pin_at > a.stop_at) a.pin_at = a.stop_at;
	}
	oplog("%s(e%d{n=%zu,r=%d},stop_at=%d,retain_region_at=%d)", a.what, s->id, s->n, s->nsegs, a.stop_at, a.pin_at);
	hit(blk ? CS_apply_block : CS_apply_f);
	bool ok = run_apply(&a, blk);
	if (a.calls > 1) hit(CS_apply_multi_region);
	if (a.stopped) { hit(CS_apply_early_stop); if (a.after_stop) vf_count("apply_continued_after_stop", 1); }
	if (a.supersets) vf_count("apply_region_object_larger_than_region", (uint64_t)a.supersets);
	oplog_res(" -> %d regions", a.calls);
	if (a.pinned) {
		int ns;
		seg_t *segs = segs_slice(s->segs, s->nsegs, a.pin_off, a.pin_size, &ns);
		if (ok && a.pin_exact && s->depth < MAXDEPTH) {
			/* the region object was observed (through create_map) to denote exactly [buf,buf+size): it is an object like any other */
			ent_t *e = ent_add(a.pinned, s->m + a.pin_off, a.pin_size, segs, ns, s->depth + 1, true);
			e->mapbuf = a.pin_buf;
			hit(CS_apply_region_to_pool);
			oplog_res(", region kept as e%d{n=%zu}", e->id, e->n);
			check_fresh(e, "apply-region");
		} else if (ok) {
			pin_t *p = &T->pins[T->npins++];
			p->region = a.pinned; p->buf = a.pin_buf; p->size = a.pin_size; p->segs = segs; p->nsegs = ns; p->id = T->next_id++;
			p->copy = malloc(a.pin_size ? a.pin_size : 1);
			memcpy(p->copy, T->pool[si].m + a.pin_off, a.pin_size);
			segs_live(segs, ns, +1);
			hit(CS_apply_region_pinned);
			oplog_res(", region retained as p%d", p->id);
		} else { dispatch_release(a.pinned); free(segs); }
	}
	vg_check("apply");
}

static void op_copy_region(void)
{
	vf_rng_t *r = &T->r;
	ent_t *s = &T->pool[pick_ent_composite()];
	if (s->depth >= MAXDEPTH) { recheck(s); return; }
	size_t loc;
	switch (vf_rnd_n(r, 10)) {
	case 0: loc = 0; break;
	case 1: loc = s->n - 1; break;
	case 2: loc = s->n; break;
	case 3: loc = vf_rnd_n(r, 2) ? s->n + 1 : SIZE_MAX; break;
	case 4: case 5: { size_t b = seg_boundary(s); uint32_t d = vf_rnd_n(r, 3); loc = d == 0 ? b - 1 : d == 1 ? b : b + 1; break; }
	default: loc = rnd_size(r, s->n ? s->n - 1 : 0); break;
	}
	size_t off = (size_t)-7;
	oplog("copy_region(e%d{n=%zu,r=%d},loc=0x%zx)", s->id, s->n, s->nsegs, loc);
	dispatch_data_t dd = dispatch_data_copy_region(s->dd, loc, &off);
	if (loc >= s->n) {
		/* no region contains loc; the headers document nothing for this case: only memory safety (sanitizers) and that a
		 * returned object is usable */
		hit(CS_cr_oob);
		if (dd) {
			size_t rs = dispatch_data_get_size(dd);
			if (rs == 0 && off == s->n) vf_count("cr_oob_returned_empty_and_size", 1);
			oplog_res(" -> {n=%zu},off=0x%zx", rs, off);
			dispatch_release(dd);
		}
		vg_check("copy_region");
		return;
	}
	if (!dd) vf_fail("copy_region returned NULL for an in-range location");
	size_t rs = dispatch_data_get_size(dd);
	oplog_res(" -> {n=%zu},off=%zu", rs, off);
	if (!(off <= loc && loc - off < rs)) {
		viol("C13:copy_region:wrong-offset", "copy_region(e%d{n=%zu,r=%d}, loc=%zu) returned offset %zu and a region of size %zu: the location is not inside it", s->id, s->n, s->nsegs, loc, off, rs);
		dispatch_release(dd); return;
	}
	if (rs > s->n - off) {
		viol("C13:copy_region:region-out-of-range", "copy_region(e%d{n=%zu,r=%d}, loc=%zu) returned [%zu,+%zu) which exceeds the object", s->id, s->n, s->nsegs, loc, off, rs);
		dispatch_release(dd); return;
	}
	/* "the region": one of the regions dispatch_data_apply enumerates */
	actx_t a; actx_init(&a, s, "C13:apply:bytes-mismatch", "apply_f (to locate the regions for copy_region) on");
	a.capregs = 16; a.regs = malloc(sizeof(reg_t) * 16);
	bool ok = run_apply(&a, false);
	if (ok) {
		int k;
		for (k = 0; k < a.nregs; k++) if (a.regs[k].off <= loc && loc - a.regs[k].off < a.regs[k].size) break;
		if (k < a.nregs && (a.regs[k].off != off || a.regs[k].size != rs)) {
			viol("C13:copy_region:region-differs-from-apply-region", "copy_region(e%d{n=%zu,r=%d}, loc=%zu) returned [%zu,+%zu) but dispatch_data_apply visits location %zu in region [%zu,+%zu)",
					s->id, s->n, s->nsegs, loc, off, rs, loc, a.regs[k].off, a.regs[k].size);
			ok = false;
		}
		if (s->nsegs <= 1) hit(CS_cr_single);
		else if (k == 0) hit(CS_cr_first_record);
		else if (k == a.nregs - 1) hit(CS_cr_last_record);
		else hit(CS_cr_middle_record);
	}
	free(a.regs);
	if (!ok) { dispatch_release(dd); return; }
	int ns;
	seg_t *segs = segs_slice(s->segs, s->nsegs, off, rs, &ns);
	if (ns == 1 && !seg_is_whole_leaf(&segs[0])) hit(CS_cr_result_is_subrange);
	ent_t *e = ent_add(dd, s->m + off, rs, segs, ns, s->depth + 1, true);
	oplog_res(" = e%d", e->id);
	check_fresh(e, "copy_region");
}

static void op_retain(void)
{
	ent_t *e = &T->pool[pick_ent()];
	if (e->refs >= 4) { recheck(e); return; }
	oplog("retain(e%d)", e->id);
	dispatch_retain(e->dd);
	e->refs++;
	hit(CS_extra_retain);
}

static void op_release(void)
{
	int i = vf_rnd_n(&T->r, 3) ? (int)vf_rnd_n(&T->r, (uint32_t)T->npool) : pick_ent();
	oplog("release(e%d{n=%zu,refs=%d})", T->pool[i].id, T->pool[i].n, T->pool[i].refs);
	ent_drop_ref(i);
	vg_check("release");
}

static void op_unpin(void)
{
	if (!T->npins) return;
	int i = (int)vf_rnd_n(&T->r, (uint32_t)T->npins);
	oplog("release-retained-region(p%d{n=%zu})", T->pins[i].id, T->pins[i].size);
	pin_drop(i);
	vg_check("release");
}

/* ---------------------------------------------------------------- quiescence */
static void nop_fn(void *c) { (void)c; }
static void sem_signal_fn(void *c) { dispatch_semaphore_signal(c); }

static bool munmap_leaves_still_mapped(void)
{
	FILE *f = fopen("/proc/self/maps", "r");
	if (!f) return false;
	char line[512]; bool found = false;
	while (fgets(line, sizeof(line), f)) if (strstr(line, "vfc13mm-")) { found = true; break; }
	fclose(f);
	return found;
}

static void quiesce(void)
{
	vf_rng_t *r = &T->r;
	oplog("quiesce: release %d entries, %d retained regions in random order", T->npool, T->npins);
	while (T->npool || T->npins) {
		if (T->npins && (!T->npool || vf_rnd_n(r, 8) == 0)) pin_drop((int)vf_rnd_n(r, (uint32_t)T->npins));
		else {
			int i = (int)vf_rnd_n(r, (uint32_t)T->npool);
			/* now and then look at a survivor after its relatives went away */
			if (!T->violated && vf_rnd_n(r, 6) == 0) recheck(&T->pool[i]);
			while (T->pool[i].refs > 1) { dispatch_release(T->pool[i].dd); T->pool[i].refs--; }
			ent_drop_ref(i);
		}
	}
	vg_check("release");
	vf_watch_begin("C13:quiesce-destructors", 0);
	/* destructor queues: everything submitted by the releases above precedes this barrier */
	for (int i = 0; i < NQ; i++) dispatch_barrier_sync_f(T->q[i], NULL, nop_fn);
	/* queue-less destructors go to the default global queue: push markers through it and poll, bounded by rounds */
	dispatch_queue_t gq = dispatch_get_global_queue(DISPATCH_QUEUE_PRIORITY_DEFAULT, 0);
	dispatch_semaphore_t sem = dispatch_semaphore_create(0);
	int nl = atomic_load(&T->nleaves);
	bool have_mm = false;
	for (int i = 0; i < nl; i++) if (T->leaves[i].kind == K_MUNMAP) have_mm = true;
	int rounds = 0;
	const int max_rounds = RUNNING_ON_VALGRIND ? 20000 : 5000;
	while ((atomic_load(&T->dtor_first_runs) < T->dtor_expected || (have_mm && munmap_leaves_still_mapped())) && rounds < max_rounds) {
		dispatch_async_f(gq, sem, sem_signal_fn);
		dispatch_semaphore_wait(sem, DISPATCH_TIME_FOREVER);
		vf_progress();
		if (rounds++ < 100) sched_yield();
		else { struct timespec ts = { 0, 1000000 }; nanosleep(&ts, NULL); }
	}
	for (int i = 0; i < NQ; i++) dispatch_barrier_sync_f(T->q[i], NULL, nop_fn);
	vf_watch_end();
	dispatch_release(sem);
	uint64_t once = 0;
	for (int i = 0; i < nl; i++) {
		leaf_t *L = &T->leaves[i];
		long lv = atomic_load(&L->live);
		if (lv != 0) vf_fail("model bookkeeping: leaf L%d live=%ld at quiescence", L->id, lv);
		if (L->has_dtor) {
			int runs = atomic_load(&L->runs);
			if (runs == 0) viol("C13:destructor:never-ran", "leaf L%d (kind %s, size %zu, destructor queue %d, created by op #%d): every object was released and the destructor queues were drained (%d marker rounds) but the destructor has not run",
					L->id, kind_name[L->kind], L->size, L->qidx, L->op, rounds);
			else if (runs == 1) once++;
		} else if (L->kind == K_MUNMAP && have_mm && rounds >= max_rounds) {
			viol("C13:destructor:never-ran", "leaf L%d (kind munmap, size %zu, created by op #%d): every object was released but the mapping is still present", L->id, L->size, L->op);
			have_mm = false;
		}
	}
	vf_count("dtor_expected", T->dtor_expected);
	vf_count("dtor_ran_once", once);
}

/* ---------------------------------------------------------------- one trial */
static const uint8_t mix_w[4][10] = {
	/* leaf concat subrange map apply copy_region retain release recheck unpin */
	{ 14, 16, 22, 8, 8, 10, 4, 12, 5, 1 },
	{ 12, 30, 14, 6, 6, 8, 3, 14, 5, 2 },
	{ 10, 12, 36, 6, 6, 10, 3, 11, 5, 1 },
	{ 20, 12, 14, 6, 6, 8, 6, 22, 5, 1 },
};

static const char *const op_name[] = { "create", "concat", "subrange", "map", "apply", "copy_region", "retain", "release", "recheck", "release" };

static void run_trial(int idx)
{
	trial_t *t = calloc(1, sizeof(*t));
	T = t;
	t->idx = idx;
	vf_rng_seed(&t->r, vf_opts.seed, (uint64_t)idx * 7919 + 13);
	vf_rng_t *r = &t->r;
	t->mix = (int)vf_rnd_n(r, 4);
	t->szclass = (int)vf_rnd_n(r, 3);
	t->maxpool = t->mix == 3 ? 12 : (int)vf_rnd_range(r, 16, MAXPOOL);
	long forced = vf_opt_long("ops", 0);
	t->nops = forced > 0 ? (uint64_t)forced : (uint64_t)vf_rnd_range(r, 200, 2000) * (uint64_t)vf_opts.scale / 100;
	if (t->nops < 10) t->nops = 10;
	t->capleaves = (int)t->nops + 8;
	t->leaves = calloc((size_t)t->capleaves, sizeof(leaf_t));
	vf_profile_t prof;
	bool perturbed = vf_rnd_n(r, 4) == 0;
	if (perturbed) vf_perturb_draw(r, &prof);
	t->q[0] = dispatch_queue_create("vf.data.dq0", DISPATCH_QUEUE_SERIAL);
	t->q[1] = dispatch_queue_create("vf.data.dq1", DISPATCH_QUEUE_SERIAL);
	t->q[2] = dispatch_queue_create("vf.data.dq2", DISPATCH_QUEUE_CONCURRENT);
	pthread_mutex_lock(&g_ring_mtx); g_ringn = 0; pthread_mutex_unlock(&g_ring_mtx);

	const uint8_t *w = mix_w[t->mix];
	uint32_t wsum = 0;
	for (int i = 0; i < 10; i++) wsum += w[i];
	vf_watch_begin("C13:ops", 0);
	for (t->opno = 0; (uint64_t)t->opno < t->nops && !t->violated; t->opno++) {
		vf_progress();
		int op;
		uint32_t x = vf_rnd_n(r, wsum);
		for (op = 0; op < 9 && x >= w[op]; op++) x -= w[op];
		if (!t->npool) op = 0;
		else if (t->npool >= t->maxpool && op <= 5 && op != 4) op = 7;
		switch (op) {
		case 0: op_leaf(); break;
		case 1: op_concat(); break;
		case 2: op_subrange(); break;
		case 3: op_map(); break;
		case 4: op_apply(); break;
		case 5: op_copy_region(); break;
		case 6: op_retain(); break;
		case 7: op_release(); break;
		case 8: { ent_t *e = &t->pool[pick_ent()]; oplog("recheck(e%d{n=%zu,r=%d})", e->id, e->n, e->nsegs); recheck(e); } break;
		default: op_unpin(); break;
		}
		vg_check(op_name[op]);
	}
	uint64_t ops_done = (uint64_t)t->opno;
	vf_watch_end();
	quiesce();
	if (perturbed) vf_perturb_off();
	vg_check("quiesce");
	for (int i = 0; i < NQ; i++) dispatch_release(t->q[i]);

	/* buffers: quarantined / unfreed ones go now */
	int nl = atomic_load(&t->nleaves);
	for (int i = 0; i < nl; i++) {
		leaf_t *L = &t->leaves[i];
		if (L->kind == K_MUNMAP) continue;          /* unmapped by the library (or reported above) */
		if (!L->buf_freed && L->buf) {
			if (L->has_dtor && atomic_load(&L->runs) == 0) continue;   /* never-ran: the library may still call it; leak rather than double free */
			free(L->buf); L->buf_freed = true;
		}
	}
	bool nontrivial = (t->mask >> CS_sub_comp_multi_cut) & 1;
	for (int c = 0; c < CS_N; c++) if (t->cases[c]) vf_count(case_name[c], t->cases[c]);
	vf_count("ops", ops_done);
	vf_count("objects_checked", t->objects_checked);
	vf_count("bytes_checked", t->bytes_checked);
	vf_count("apply_regions_seen", t->regions_seen);
	vf_count("apply_region_count_equals_model_records", t->regions_match);
	vf_count("apply_region_count_differs_from_model_records", t->regions_differ);
	vf_count("leaves", (uint64_t)nl);
	if (nontrivial) vf_count("nontrivial_trials", 1);
	char last[200]; size_t k = 0;
	for (const char *p = t->lastop; *p && k < sizeof(last) - 1; p++) if (*p != '"' && *p != '\\') last[k++] = *p;
	last[k] = 0;
	vf_emit("trial", "\"n\":1,\"sig\":\"m%d-s%d-c%llx-r%d-d%d\",\"nontrivial\":%s,\"sample\":{\"trial\":%d,\"ops\":%llu,\"mix\":\"%s\",\"sizes\":\"%s\",\"max_pool\":%d,"
			"\"tracked_leaf_buffers\":%d,\"custom_destructors\":%llu,\"max_records\":%d,\"max_depth\":%d,\"objects_checked\":%llu,\"bytes_checked\":%llu,\"cases_mask\":\"%llx\",\"perturb\":\"%s\",\"last_op\":\"%s\"}",
			t->mix, t->szclass, (unsigned long long)t->mask, vf_log2_bucket((uint64_t)t->max_segs), t->max_depth, nontrivial ? "true" : "false",
			idx, (unsigned long long)ops_done, mix_name[t->mix], sz_name[t->szclass], t->maxpool, nl, (unsigned long long)t->dtor_expected, t->max_segs, t->max_depth,
			(unsigned long long)t->objects_checked, (unsigned long long)t->bytes_checked, (unsigned long long)t->mask, perturbed ? prof.desc : "off", last);
	/* the leaf table stays valid for one more trial (a late duplicate destructor call must find it) */
	free(g_retired_leaves);
	g_retired_leaves = t->leaves;
	T = NULL;
	free(t);
}

/* ---------------------------------------------------------------- DISPATCH_DATA_DESTRUCTOR_MUNMAP probe (forked child) */
/* child exit codes: 0 = buffer unmapped after the last release; 7 = still mapped; 8 = wrong bytes */
static int munmap_child(void)
{
	size_t n = 3 * 4096 + 123, ml = 4 * 4096;
	int fd = memfd_create("vfc13mm-probe", 0);
	if (fd < 0 || ftruncate(fd, (off_t)ml)) return 9;
	uint8_t *p = mmap(NULL, ml, PROT_READ | PROT_WRITE, MAP_PRIVATE, fd, 0);
	close(fd);
	if (p == MAP_FAILED) return 9;
	for (size_t i = 0; i < n; i++) p[i] = (uint8_t)(i * 7 + 1);
	dispatch_data_t d = dispatch_data_create(p, n, NULL, DISPATCH_DATA_DESTRUCTOR_MUNMAP);
	dispatch_data_t s = dispatch_data_create_subrange(d, 100, 5000);
	dispatch_data_t c = dispatch_data_create_concat(s, d);
	const void *b; size_t sz;
	dispatch_data_t m = dispatch_data_create_map(c, &b, &sz);
	int rc = 0;
	if (sz != 5000 + n) rc = 8;
	for (size_t i = 0; i < sz && !rc; i++) {
		size_t src = i < 5000 ? 100 + i : i - 5000;
		if (((const uint8_t *)b)[i] != (uint8_t)(src * 7 + 1)) rc = 8;
	}
	dispatch_release(m); dispatch_release(d); dispatch_release(c); dispatch_release(s);
	if (rc) return rc;
	dispatch_queue_t gq = dispatch_get_global_queue(DISPATCH_QUEUE_PRIORITY_DEFAULT, 0);
	dispatch_semaphore_t sem = dispatch_semaphore_create(0);
	for (int round = 0; round < 3000; round++) {
		if (!munmap_leaves_still_mapped()) return 0;
		dispatch_async_f(gq, sem, sem_signal_fn);
		dispatch_semaphore_wait(sem, DISPATCH_TIME_FOREVER);
		struct timespec ts = { 0, 1000000 }; nanosleep(&ts, NULL);
	}
	return 7;
}

/* returns: 0 ok, >0 child exit code, <0 -signal */
static int munmap_probe(void)
{
	fflush(stdout); fflush(stderr);
	pid_t pid = fork();
	if (pid < 0) return 9;
	if (pid == 0) {
		int nul = open("/dev/null", O_WRONLY);
		if (nul >= 0) { dup2(nul, 1); dup2(nul, 2); }
		static const int sigs[] = { SIGSEGV, SIGBUS, SIGILL, SIGABRT, SIGFPE, SIGTRAP };
		for (unsigned i = 0; i < sizeof(sigs) / sizeof(sigs[0]); i++) signal(sigs[i], SIG_DFL);
		alarm(60);              /* a wedged child must not wedge the parent: SIGALRM = probe failed */
		_exit(munmap_child());
	}
	int st = 0;
	while (waitpid(pid, &st, 0) < 0 && errno == EINTR) {}
	if (WIFSIGNALED(st)) return -WTERMSIG(st);
	return WEXITSTATUS(st);
}

static void munmap_mode(int rc)
{
	vf_count("munmap_probe", 1);
	static trial_t dummy;      /* viol() wants a trial context */
	T = &dummy; T->idx = 0; T->nops = 1;
	pthread_mutex_lock(&g_ring_mtx);
	snprintf(g_ring[0], sizeof(g_ring[0]), "p=mmap(4 pages); d=dispatch_data_create(p,12411,NULL,DISPATCH_DATA_DESTRUCTOR_MUNMAP); s=subrange(d,100,5000); c=concat(s,d); m=create_map(c) [bytes checked]; release m,d,c,s");
	g_ringn = 1;
	pthread_mutex_unlock(&g_ring_mtx);
	if (rc < 0 && rc != -SIGALRM) {
		viol("C13:destructor:munmap-kills-process", "a leaf created with DISPATCH_DATA_DESTRUCTOR_MUNMAP (documented in <dispatch/data.h>) kills the process with signal %d (%s) once its last reference is released, "
				"instead of munmap(2)ing the buffer exactly once; run in a forked child, mode=munmap", -rc, strsignal(-rc));
	} else if (rc == 7) {
		viol("C13:destructor:never-ran", "leaf kind munmap: every object released, default queue drained 3000 times, the mapping is still present (mode=munmap)");
	} else if (rc == 8) {
		viol("C13:map:bytes-mismatch", "munmap-backed leaf: concat(subrange(d,100,5000),d) mapped to wrong bytes (mode=munmap)");
	} else if (rc != 0) {
		vf_fail("munmap probe child failed with exit code %d", rc);
	}
	if (rc == -SIGALRM) {
		vf_fail("munmap probe child did not finish within 60 s");
	}
	vf_emit("trial", "\"n\":1,\"sig\":\"munmap-probe\",\"nontrivial\":false,\"sample\":{\"mode\":\"munmap\",\"child_result\":%d}", rc);
	T = NULL;
}

int main(int argc, char **argv)
{
	/* The MUNMAP probe forks. Do it while the process is still single-threaded (vf_init starts the watchdog thread;
	 * a fork racing with a starting thread can inherit a held runtime lock and wedge the child). */
	bool mode_munmap = false; const char *mm = "auto";
	for (int i = 1; i < argc; i++) {
		if (!strcmp(argv[i], "--mode=munmap")) mode_munmap = true;
		if (!strncmp(argv[i], "--munmap=", 9)) mm = argv[i] + 9;
	}
	int probe = 1000;
	if (mode_munmap || !strcmp(mm, "auto")) probe = munmap_probe();
	vf_init(argc, argv, "h_data");
	g_free_on_destroy = VF_ASAN || RUNNING_ON_VALGRIND;
	if (mode_munmap) { munmap_mode(probe); return vf_finish(); }
	if (!strcmp(mm, "auto")) {
		/* does a MUNMAP leaf survive its release? (it does not on the unchanged tree; mode=munmap reports that; here the
		 * kind is simply left out of the random trees) */
		g_munmap_ok = probe == 0;
		vf_count(g_munmap_ok ? "munmap_leaves_enabled" : "munmap_leaves_disabled_probe_failed", 1);
	} else g_munmap_ok = atoi(mm) != 0;
	for (int i = 0; i < vf_opts.trials; i++) run_trial(vf_opts.first_trial + i);
	free(g_retired_leaves);
	g_retired_leaves = NULL;
	return vf_finish();
}
