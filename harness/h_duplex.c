/*
 * h_duplex.c — one descriptor used in both directions at once.
 *
 * On Linux a read source and a write source on the same descriptor share one epoll registration
 * (one "muxnote" with a reader list and a writer list, EPOLLONESHOT re-armed with EPOLL_CTL_MOD
 * for whatever is still armed after an event). Every other workload uses a descriptor in one
 * direction only, so that code never ran. Two modes:
 *
 *  --mode=io (C14)      reads and writes in flight at the same time on one AF_UNIX stream socket:
 *                       one channel, two channels on the same descriptor, a channel made from the
 *                       other with dispatch_io_create_with_io, or the convenience API. A peer thread
 *                       dribbles the inbound stream and drains the outbound one in bursts with pauses,
 *                       so the send buffer fills (write side waits for EPOLLOUT) while the read side
 *                       waits for EPOLLIN. Optional half-close: the peer shuts down its sending side,
 *                       the last read ends short at EOF while the writes go on.
 *                       Oracle: inbound bytes delivered to the reads, concatenated in submission
 *                       order, are exactly what the peer sent; what the peer received is exactly the
 *                       submitted writes in order; every operation sees done once, error 0, no
 *                       unwritten data; cleanup handlers once each, after the handlers; everything
 *                       completes (watchdog: a lost re-arm strands an operation).
 *  --mode=siblings (C14) two channels on one descriptor with operations of one direction parked on both; one
 *                       channel is stopped, the other's operations must still complete when the descriptor
 *                       becomes ready (they share the stream and its event source).
 *  --mode=sources (C15, C16)
 *                       1-2 read sources and 1-2 write sources on one socket, each on its own target
 *                       queue, moving a coded stream in both directions against the same kind of peer;
 *                       sources cancel themselves when their share is done, or are cancelled from
 *                       another thread half-way (the survivors on the same descriptor must go on).
 *                       Oracle: no handler runs on two threads at once (C15); after a cancel from the
 *                       source's own handler it is never invoked again, the cancel handler runs exactly
 *                       once, after the last event handler invocation, and no event handler starts
 *                       after it (C16); the byte streams arrive complete and in order (conservation:
 *                       the handlers of one direction are serialised by a harness lock only where two
 *                       sources share a direction).
 */
#include "vf_common.h"
#include <dispatch/dispatch.h>
#include <dispatch/private.h>
#include <sys/socket.h>
#include <fcntl.h>
#include <unistd.h>
#include <errno.h>
#include <poll.h>
#include <sched.h>

static inline uint8_t code_byte(uint64_t salt, uint64_t k) { return (uint8_t)(vf_hash64(salt, k >> 3) >> (8 * (k & 7))); }
static void fill(uint8_t *p, uint64_t salt, size_t n) { for (size_t i = 0; i < n; i++) p[i] = code_byte(salt, i); }
static void nap_us(unsigned us) { struct timespec ts = { us / 1000000, (long)(us % 1000000) * 1000 }; nanosleep(&ts, NULL); }

/* ------------------------------------------------------------------ peer */
typedef struct peer {
	int fd;
	const uint8_t *out; size_t out_len, out_done;      /* what the peer sends (our inbound stream) */
	uint8_t *in; size_t in_cap, in_len;                /* what the peer receives (our outbound stream) */
	size_t in_expect;
	int half_close;                                     /* shutdown(SHUT_WR) after sending everything */
	int style;                                          /* 0 steady, 1 bursty reader, 2 stalls (lets our send buffer fill) */
	vf_rng_t rng;
	_Atomic int stop;
	pthread_t th;
} peer_t;

static void *peer_main(void *arg)
{
	peer_t *p = arg;
	int shut = 0;
	while (!atomic_load(&p->stop) && (p->out_done < p->out_len || p->in_len < p->in_expect || (p->half_close && !shut))) {
		struct pollfd pfd = { .fd = p->fd, .events = 0 };
		if (p->out_done < p->out_len) pfd.events |= POLLOUT;
		if (p->in_len < p->in_expect) pfd.events |= POLLIN;
		if (pfd.events) {
			int n = poll(&pfd, 1, 20);
			if (n < 0) continue;
		}
		if (p->out_done < p->out_len && (pfd.revents & POLLOUT)) {
			size_t chunk = vf_rnd_n(&p->rng, 4) == 0 ? vf_rnd_range(&p->rng, 1, 64) : vf_rnd_range(&p->rng, 64, 48 * 1024);
			if (chunk > p->out_len - p->out_done) chunk = p->out_len - p->out_done;
			ssize_t w = send(p->fd, p->out + p->out_done, chunk, MSG_NOSIGNAL | MSG_DONTWAIT);
			if (w > 0) { p->out_done += (size_t)w; vf_progress(); }
			if (vf_rnd_n(&p->rng, 3) == 0) nap_us(vf_rnd_n(&p->rng, 300));
		}
		if (p->out_done == p->out_len && p->half_close && !shut) { shutdown(p->fd, SHUT_WR); shut = 1; }
		if (p->in_len < p->in_expect && (pfd.revents & (POLLIN | POLLHUP))) {
			if (p->style == 2 && vf_rnd_n(&p->rng, 6) == 0) nap_us(vf_rnd_range(&p->rng, 500, 4000));
			size_t chunk = p->style == 1 ? vf_rnd_range(&p->rng, 1, 2048) : vf_rnd_range(&p->rng, 1024, 256 * 1024);
			if (chunk > p->in_cap - p->in_len) chunk = p->in_cap - p->in_len;
			ssize_t r = recv(p->fd, p->in + p->in_len, chunk, MSG_DONTWAIT);
			if (r > 0) { p->in_len += (size_t)r; vf_progress(); }
			else if (r == 0) break;
		}
	}
	return NULL;
}

/* =================================================================== mode=io */
enum { SETUP_ONE_CHANNEL, SETUP_TWO_CHANNELS, SETUP_WITH_IO, SETUP_CONVENIENCE, SETUP_N };
static const char *const setup_names[] = { "one-channel", "two-channels-one-descriptor", "create_with_io", "convenience" };
enum { K_READ, K_WRITE };

struct iotrial;
typedef struct dop {
	struct iotrial *t;
	int kind, idx;
	size_t len, base;                    /* write: offset of its bytes in the outbound stream */
	_Atomic uint32_t dones, invocations, in_handler;
	int err; size_t rest;
	uint8_t *got; size_t got_len;        /* read: bytes delivered */
	uint64_t last_end, done_stamp;
} dop_t;

typedef struct iotrial {
	int idx, setup, hq_kind, half_close;
	int a, b;
	dispatch_io_t rio, wio;
	dispatch_queue_t hq, cq;
	dop_t ops[32]; int nops, nreads, nwrites;
	size_t in_total, out_total, read_req_total;
	uint8_t *in_ref, *out_ref;
	_Atomic uint64_t events, expected;
	_Atomic uint32_t cleanups[2]; uint64_t cleanup_start[2]; int cleanup_err[2];
	uint64_t salt;
	vf_rng_t rng;
	vf_profile_t prof;
	peer_t peer;
} iotrial_t;

static void h_op(dop_t *op, bool done, dispatch_data_t d, int err)
{
	iotrial_t *t = op->t;
	if (atomic_exchange(&op->in_handler, 1)) vf_violation(op->kind == K_READ ? "C14:read:handler-reentered:duplex" : "C14:write:handler-reentered:duplex", "handler of one operation running twice at once (socket used in both directions)");
	atomic_fetch_add(&op->invocations, 1);
	if (atomic_load(&op->dones)) vf_violation(op->kind == K_READ ? "C14:read:handler-after-done:duplex" : "C14:write:handler-after-done:duplex", "handler invoked again after done (socket used in both directions)");
	if (op->kind == K_READ && d) {
		dispatch_data_apply(d, ^bool(dispatch_data_t rgn, size_t off, const void *p, size_t len) {
			(void)rgn; (void)off;
			if (op->got_len + len <= op->len) memcpy(op->got + op->got_len, p, len);
			op->got_len += len;
			return true;
		});
	}
	if (done) {
		op->err = err;
		if (op->kind == K_WRITE) op->rest = d ? dispatch_data_get_size(d) : 0;
		op->done_stamp = vf_stamp();
	}
	vf_progress();
	op->last_end = vf_stamp();
	atomic_store(&op->in_handler, 0);
	if (done) { atomic_fetch_add(&op->dones, 1); atomic_fetch_add_explicit(&t->events, 1, memory_order_release); }
}
static void h_cleanup(iotrial_t *t, int which, int err)
{
	t->cleanup_start[which] = vf_stamp(); t->cleanup_err[which] = err;
	atomic_fetch_add(&t->cleanups[which], 1);
	vf_progress();
	atomic_fetch_add_explicit(&t->events, 1, memory_order_release);
}

static dispatch_data_t make_wdata(iotrial_t *t, dop_t *op)
{
	vf_rng_t *r = &t->rng;
	const uint8_t *src = t->out_ref + op->base;
	int pieces = op->len >= 4 ? (int)vf_rnd_range(r, 1, 4) : 1;
	dispatch_data_t acc = NULL; size_t off = 0;
	for (int p = 0; p < pieces; p++) {
		size_t l = p == pieces - 1 ? op->len - off : vf_rnd_range(r, 1, (uint32_t)(op->len - off - (size_t)(pieces - 1 - p)));
		dispatch_data_t piece = dispatch_data_create(src + off, l, NULL, DISPATCH_DATA_DESTRUCTOR_DEFAULT);
		if (!acc) acc = piece; else { dispatch_data_t c = dispatch_data_create_concat(acc, piece); dispatch_release(acc); dispatch_release(piece); acc = c; }
		off += l;
	}
	return acc;
}

static void submit_op(iotrial_t *t, dop_t *op)
{
	atomic_fetch_add(&t->expected, 1);
	if (op->kind == K_READ) {
		op->got = malloc(op->len ? op->len : 1);
		if (t->setup == SETUP_CONVENIENCE) dispatch_read(t->a, op->len, t->hq, ^(dispatch_data_t d, int e) { h_op(op, true, d, e); });
		else dispatch_io_read(t->rio, 0, op->len, t->hq, ^(bool done, dispatch_data_t d, int e) { h_op(op, done, d, e); });
	} else {
		dispatch_data_t d = make_wdata(t, op);
		if (t->setup == SETUP_CONVENIENCE) dispatch_write(t->a, d, t->hq, ^(dispatch_data_t rd, int e) { h_op(op, true, rd, e); });
		else dispatch_io_write(t->wio, 0, d, t->hq, ^(bool done, dispatch_data_t rd, int e) { h_op(op, done, rd, e); });
		dispatch_release(d);
	}
	vf_progress();
}

static size_t draw_total(vf_rng_t *r)
{
	switch (vf_rnd_n(r, 4)) {
	case 0: return vf_rnd_range(r, 1, 4096);
	case 1: return vf_rnd_range(r, 4096, 200000);
	default: return vf_rnd_range(r, 200000, 1500000);   /* more than a socket buffer: the write side has to wait for EPOLLOUT */
	}
}

static void run_io_trial(int idx)
{
	iotrial_t *t = calloc(1, sizeof(*t));
	t->idx = idx;
	vf_rng_seed(&t->rng, vf_opts.seed, (uint64_t)idx * 9973 + 41);
	vf_rng_t *r = &t->rng;
	t->salt = vf_rnd(r) | 1;
	vf_perturb_draw(r, &t->prof);
	t->setup = (int)vf_rnd_n(r, SETUP_N);
	t->hq_kind = (int)vf_rnd_n(r, 3);
	t->half_close = vf_rnd_n(r, 4) == 0;
	int sv[2];
	if (socketpair(AF_UNIX, SOCK_STREAM | SOCK_CLOEXEC, 0, sv)) vf_fail("socketpair: %s", strerror(errno));
	t->a = sv[0]; t->b = sv[1];
	t->hq = t->hq_kind == 0 ? dispatch_queue_create("vf.duplex.handlers", DISPATCH_QUEUE_SERIAL)
		: t->hq_kind == 1 ? dispatch_queue_create("vf.duplex.handlers", DISPATCH_QUEUE_CONCURRENT) : dispatch_get_global_queue(0, 0);
	t->cq = dispatch_queue_create("vf.duplex.cleanup", DISPATCH_QUEUE_SERIAL);
	t->in_total = draw_total(r) * (size_t)vf_opts.scale / 100 + 1;
	t->out_total = draw_total(r) * (size_t)vf_opts.scale / 100 + 1;
	t->in_ref = malloc(t->in_total); fill(t->in_ref, t->salt, t->in_total);
	t->out_ref = malloc(t->out_total); fill(t->out_ref, t->salt ^ 0x9e3779b97f4a7c15ull, t->out_total);
	/* split both streams into 1-8 operations each */
	t->nreads = (int)vf_rnd_range(r, 1, 8); t->nwrites = (int)vf_rnd_range(r, 1, 8);
	if ((size_t)t->nreads > t->in_total) t->nreads = (int)t->in_total;
	if ((size_t)t->nwrites > t->out_total) t->nwrites = (int)t->out_total;
	size_t rl[8], wl[8], left = t->in_total;
	for (int i = 0; i < t->nreads; i++) { rl[i] = i == t->nreads - 1 ? left : vf_rnd_range(r, 1, (uint32_t)(left - (size_t)(t->nreads - 1 - i))); left -= rl[i]; }
	left = t->out_total;
	for (int i = 0; i < t->nwrites; i++) { wl[i] = i == t->nwrites - 1 ? left : vf_rnd_range(r, 1, (uint32_t)(left - (size_t)(t->nwrites - 1 - i))); left -= wl[i]; }
	if (t->half_close) rl[t->nreads - 1] += vf_rnd_range(r, 1, 5000);   /* the last read asks for more than will ever arrive: ends at EOF */
	/* interleave submission order */
	int ri = 0, wi = 0; size_t wbase = 0;
	while (ri < t->nreads || wi < t->nwrites) {
		int pick_read = wi >= t->nwrites || (ri < t->nreads && vf_rnd_n(r, 2));
		dop_t *op = &t->ops[t->nops]; op->t = t; op->idx = t->nops++;
		if (pick_read) { op->kind = K_READ; op->len = rl[ri++]; t->read_req_total += op->len; }
		else { op->kind = K_WRITE; op->len = wl[wi]; op->base = wbase; wbase += wl[wi++]; }
	}
	/* peer */
	peer_t *p = &t->peer;
	p->fd = t->b; p->out = t->in_ref; p->out_len = t->in_total; p->in_cap = t->out_total; p->in = malloc(t->out_total); p->in_expect = t->out_total;
	p->half_close = t->half_close; p->style = (int)vf_rnd_n(r, 3);
	vf_rng_seed(&p->rng, t->salt, 77);
	fcntl(t->b, F_SETFL, fcntl(t->b, F_GETFL) | O_NONBLOCK);
	vf_watch_begin("duplex:io:every-operation-completes", 0);
	int nch = 0;
	if (t->setup != SETUP_CONVENIENCE) {
		t->rio = dispatch_io_create(DISPATCH_IO_STREAM, t->a, t->cq, ^(int e) { h_cleanup(t, 0, e); });
		nch = 1;
		if (t->setup == SETUP_ONE_CHANNEL) t->wio = t->rio;
		else if (t->setup == SETUP_TWO_CHANNELS) { t->wio = dispatch_io_create(DISPATCH_IO_STREAM, t->a, t->cq, ^(int e) { h_cleanup(t, 1, e); }); nch = 2; }
		else { t->wio = dispatch_io_create_with_io(DISPATCH_IO_STREAM, t->rio, t->cq, ^(int e) { h_cleanup(t, 1, e); }); nch = 2; }
		if (!t->rio || !t->wio) vf_fail("dispatch_io_create failed");
		atomic_fetch_add(&t->expected, (uint64_t)nch);
		if (vf_rnd_n(r, 2)) dispatch_io_set_low_water(t->rio, vf_rnd_range(r, 1, 65536));
		if (vf_rnd_n(r, 2)) dispatch_io_set_high_water(t->rio, vf_rnd_range(r, 1, 262144));
		if (vf_rnd_n(r, 4) == 0) dispatch_io_set_interval(t->rio, vf_rnd_range(r, 100000, 3000000), vf_rnd_n(r, 2) ? DISPATCH_IO_STRICT_INTERVAL : 0);
		if (t->wio != t->rio && vf_rnd_n(r, 2)) dispatch_io_set_high_water(t->wio, vf_rnd_range(r, 1, 262144));
	}
	int peer_first = (int)vf_rnd_n(r, 2);
	if (peer_first) pthread_create(&p->th, NULL, peer_main, p);
	for (int i = 0; i < t->nops; i++) { submit_op(t, &t->ops[i]); if (vf_rnd_n(r, 3) == 0) nap_us(vf_rnd_n(r, 200)); }
	if (!peer_first) pthread_create(&p->th, NULL, peer_main, p);
	if (t->setup != SETUP_CONVENIENCE) {
		/* close without STOP lets everything finish; release only: same */
		if (vf_rnd_n(r, 2)) dispatch_io_close(t->rio, 0);
		if (t->wio != t->rio) { if (vf_rnd_n(r, 2)) dispatch_io_close(t->wio, 0); dispatch_release(t->wio); }
		dispatch_release(t->rio);
	}
	vf_wait_counter(&t->events, atomic_load(&t->expected), "duplex:io:every-operation-completes");
	/* writes that reported success are in the socket: let the peer take them out before it is stopped */
	int all_written = 1;
	for (int i = 0; i < t->nops; i++) if (t->ops[i].kind == K_WRITE && (t->ops[i].err || t->ops[i].rest)) all_written = 0;
	if (all_written) while (*(volatile size_t *)&p->in_len < p->in_expect) nap_us(100);
	atomic_store(&p->stop, 1);
	pthread_join(p->th, NULL);
	vf_watch_end();
	vf_perturb_off();
	/* ---- oracle ---- */
	char what[200];
	size_t rpos = 0, partial = 0;
	for (int i = 0; i < t->nops; i++) {
		dop_t *op = &t->ops[i];
		snprintf(what, sizeof(what), "%s %d/%d of %zu bytes, %s, reads and writes in flight on one socket (trial %d)", op->kind == K_READ ? "read" : "write", i + 1, t->nops, op->len, setup_names[t->setup], idx);
		if (atomic_load(&op->dones) != 1) { vf_violation(op->kind == K_READ ? "C14:read:done-count:duplex" : "C14:write:done-count:duplex", "%s: done seen %u times", what, atomic_load(&op->dones)); continue; }
		if (atomic_load(&op->invocations) > 1) partial++;
		if (op->kind == K_READ) {
			size_t expect = op->len;
			if (rpos + expect > t->in_total) expect = t->in_total - rpos;   /* EOF after the peer's half-close */
			/* a convenience read completes with what is available once it has some data: short is legitimate there */
			if (t->setup == SETUP_CONVENIENCE && op->got_len < expect && !op->err) { expect = op->got_len; vf_count("duplex_convenience_reads_completed_short", 1); }
			if (op->err) vf_violation("C14:read:error-on-healthy-socket:duplex", "%s: completed with error %d", what, op->err);
			else if (op->got_len != expect) vf_violation(op->got_len < expect ? "C14:read:short-without-eof:duplex" : "C14:read:more-than-requested:duplex", "%s: delivered %zu bytes, %zu expected (stream position %zu of %zu)", what, op->got_len, expect, rpos, t->in_total);
			else if (memcmp(op->got, t->in_ref + rpos, expect)) vf_violation("C14:read:wrong-bytes:duplex", "%s: delivered bytes are not the bytes at stream position %zu", what, rpos);
			rpos += op->got_len <= expect ? op->got_len : expect;
		} else {
			if (op->err || op->rest) vf_violation("C14:write:incomplete-on-healthy-socket:duplex", "%s: completed with error %d and %zu bytes reported unwritten", what, op->err, op->rest);
		}
	}
	if (t->setup == SETUP_CONVENIENCE && rpos < t->in_total) {
		/* nothing consumed and dropped: what the reads did not take is still in the socket, in order */
		size_t left = 0; int bad = 0; uint8_t buf[8192]; ssize_t n;
		while ((n = recv(t->a, buf, sizeof(buf), MSG_DONTWAIT)) > 0) { for (ssize_t i = 0; i < n; i++) if (rpos + left + (size_t)i >= t->in_total || buf[i] != t->in_ref[rpos + left + (size_t)i]) bad = 1; left += (size_t)n; }
		if (bad || rpos + left != p->out_done) vf_violation("C14:read:bytes-consumed-and-dropped:duplex", "convenience reads took %zu bytes, %zu are left in the socket, the peer sent %zu%s (trial %d)", rpos, left, p->out_done, bad ? " (contents differ)" : "", idx);
	}
	if (p->in_len != t->out_total || memcmp(p->in, t->out_ref, t->out_total)) {
		size_t d = 0; while (d < p->in_len && d < t->out_total && p->in[d] == t->out_ref[d]) d++;
		vf_violation("C14:write:peer-received-different-stream:duplex", "%s, trial %d: the peer received %zu bytes, %zu were written; first difference at %zu", setup_names[t->setup], idx, p->in_len, t->out_total, d);
	}
	/* completion order per direction on a serial handler queue */
	if (t->hq_kind == 0 && t->setup != SETUP_TWO_CHANNELS) {
		uint64_t last[2] = { 0, 0 };
		for (int i = 0; i < t->nops; i++) { dop_t *op = &t->ops[i]; if (op->done_stamp < last[op->kind]) vf_count(op->kind == K_READ ? "duplex_reads_done_out_of_order" : "duplex_writes_done_out_of_order", 1); else last[op->kind] = op->done_stamp; }
	}
	for (int c = 0; c < nch; c++) {
		if (atomic_load(&t->cleanups[c]) != 1) vf_violation("C14:cleanup:count:duplex", "cleanup handler of channel %d ran %u times (%s)", c, atomic_load(&t->cleanups[c]), setup_names[t->setup]);
		else if (t->cleanup_err[c]) vf_violation("C14:cleanup:error-on-healthy-socket:duplex", "cleanup handler of channel %d got error %d", c, t->cleanup_err[c]);
	}
	for (int i = 0; i < t->nops && nch; i++) {
		int c = (nch == 2 && t->ops[i].kind == K_WRITE) ? 1 : 0;
		if (atomic_load(&t->cleanups[c]) == 1 && t->ops[i].last_end > t->cleanup_start[c]) vf_violation("C14:cleanup:before-last-handler:duplex", "cleanup handler of channel %d started at stamp %llu, a handler of operation %d returned at stamp %llu (%s)", c, (unsigned long long)t->cleanup_start[c], i, (unsigned long long)t->ops[i].last_end, setup_names[t->setup]);
	}
	if (0) for (int i = 0; i < t->nops; i++) if (t->ops[i].last_end > t->cleanup_start[0] && t->ops[i].len) vf_violation("C14:cleanup:before-last-handler:duplex", "cleanup handler started at stamp %llu, a handler of operation %d returned at stamp %llu", (unsigned long long)t->cleanup_start[0], i, (unsigned long long)t->ops[i].last_end);
	vf_count("duplex_io_trials", 1);
	vf_count("duplex_reads", (uint64_t)t->nreads);
	vf_count("duplex_writes", (uint64_t)t->nwrites);
	vf_count("duplex_bytes_in", t->in_total);
	vf_count("duplex_bytes_out", t->out_total);
	vf_count("duplex_ops_with_partial_deliveries", partial);
	if (t->half_close) vf_count("duplex_half_close_trials", 1);
	if (t->out_total > 212992) vf_count("duplex_trials_outbound_exceeds_socket_buffer", 1);
	vf_count("items", (uint64_t)t->nops);
	vf_emit("trial", "\"n\":1,\"sig\":\"duplex-io-%s-%d-%d-%d-%d-%d\",\"nontrivial\":%s,\"sample\":{\"trial\":%d,\"setup\":\"%s\",\"reads\":%d,\"writes\":%d,\"bytes_in\":%zu,\"bytes_out\":%zu,\"half_close\":%d,\"peer_style\":%d,\"perturb\":\"%s\"}",
			setup_names[t->setup], t->hq_kind, t->half_close, p->style, vf_log2_bucket(t->in_total), vf_log2_bucket(t->out_total), (t->in_total > 4096 && t->out_total > 4096) ? "true" : "false",
			idx, setup_names[t->setup], t->nreads, t->nwrites, t->in_total, t->out_total, t->half_close, p->style, t->prof.desc);
	close(t->a); close(t->b);
	for (int i = 0; i < t->nops; i++) free(t->ops[i].got);
	free(t->in_ref); free(t->out_ref); free(p->in);
	if (t->hq_kind != 2) dispatch_release(t->hq);
	dispatch_release(t->cq);
}

/* =================================================================== mode=sources */
struct strial;
typedef struct dsrc {
	struct strial *t;
	int dir, idx;                         /* K_READ: consumes inbound; K_WRITE: produces outbound */
	dispatch_source_t ds;
	dispatch_queue_t tq;
	_Atomic uint32_t in_handler, cancel_ran, self_cancelled, foreign_cancel;
	_Atomic uint64_t invocations, after_self_cancel, after_cancel_handler;
	uint64_t last_handler_end, cancel_start;
	vf_rng_t rng;
} dsrc_t;

typedef struct strial {
	int idx, a, b;
	dsrc_t src[4]; int nsrc, nread, nwrite;
	pthread_mutex_t rlock, wlock;        /* two sources of one direction share the stream position */
	uint8_t *in_ref, *out_ref, *got; size_t in_total, out_total, got_len, sent;
	int in_mismatch;
	_Atomic uint64_t cancels_done;
	_Atomic int in_complete, out_complete;
	uint64_t salt;
	vf_profile_t prof;
	peer_t peer;
} strial_t;

static void s_event(void *ctx)
{
	dsrc_t *s = ctx; strial_t *t = s->t;
	if (atomic_exchange(&s->in_handler, 1)) vf_violation(s->dir == K_READ ? "C15:handler-reentered:read-source:shared-descriptor" : "C15:handler-reentered:write-source:shared-descriptor", "event handler of a %s source running on two threads at once (descriptor shared with %d other sources)", s->dir == K_READ ? "read" : "write", t->nsrc - 1);
	atomic_fetch_add(&s->invocations, 1);
	if (atomic_load(&s->cancel_ran)) { atomic_fetch_add(&s->after_cancel_handler, 1); vf_violation("C16:event-handler-after-cancel-handler:shared-descriptor", "event handler of a %s source invoked after its cancel handler ran", s->dir == K_READ ? "read" : "write"); }
	if (atomic_load(&s->self_cancelled)) { atomic_fetch_add(&s->after_self_cancel, 1); vf_violation("C16:event-handler-after-cancel-from-handler:shared-descriptor", "event handler of a %s source invoked again after it cancelled itself", s->dir == K_READ ? "read" : "write"); }
	if (dispatch_source_get_data(s->ds) == 0 && !dispatch_source_testcancel(s->ds)) vf_count("fd_source_invocations_with_zero_estimate", 1);
	int finished = 0;
	if (s->dir == K_READ) {
		pthread_mutex_lock(&t->rlock);
		for (;;) {
			uint8_t buf[16384];
			ssize_t n = recv(t->a, buf, sizeof(buf), MSG_DONTWAIT);
			if (n <= 0) break;
			for (ssize_t i = 0; i < n; i++) { if (t->got_len < t->in_total) { if (buf[i] != t->in_ref[t->got_len]) t->in_mismatch = 1; } t->got_len++; }
			if (vf_rnd_n(&s->rng, 64) == 0) break;   /* leave data behind now and then: level-triggered re-arm has to fire again */
		}
		finished = t->got_len >= t->in_total;
		if (finished) atomic_store(&t->in_complete, 1);
		pthread_mutex_unlock(&t->rlock);
	} else {
		pthread_mutex_lock(&t->wlock);
		while (t->sent < t->out_total) {
			size_t chunk = t->out_total - t->sent; if (chunk > 32768) chunk = 32768;
			ssize_t n = send(t->a, t->out_ref + t->sent, chunk, MSG_DONTWAIT | MSG_NOSIGNAL);
			if (n <= 0) break;
			t->sent += (size_t)n;
		}
		finished = t->sent >= t->out_total;
		if (finished) atomic_store(&t->out_complete, 1);
		pthread_mutex_unlock(&t->wlock);
	}
	vf_progress();
	if (finished && !atomic_load(&s->foreign_cancel) && !atomic_exchange(&s->self_cancelled, 1)) dispatch_source_cancel(s->ds);
	s->last_handler_end = vf_stamp();
	atomic_store(&s->in_handler, 0);
}
static void s_cancel(void *ctx)
{
	dsrc_t *s = ctx; strial_t *t = s->t;
	s->cancel_start = vf_stamp();
	if (atomic_fetch_add(&s->cancel_ran, 1)) vf_violation("C16:cancel-handler-ran-twice:shared-descriptor", "cancel handler of a %s source ran twice", s->dir == K_READ ? "read" : "write");
	if (atomic_load(&s->in_handler)) vf_violation("C16:cancel-handler-during-event-handler:shared-descriptor", "cancel handler of a %s source ran while its event handler was running", s->dir == K_READ ? "read" : "write");
	vf_progress();
	atomic_fetch_add_explicit(&t->cancels_done, 1, memory_order_release);
}

/* suspends and resumes random sources of the descriptor while the streams flow: every resume has to re-arm what the source
 * needs on the shared registration (_dispatch_unote_resume_muxed), whatever the other sources have armed or disarmed meanwhile */
typedef struct { struct strial *t; _Atomic int stop; uint64_t pairs; vf_rng_t rng; } churn_t;
static void *churn_main(void *arg);

static void run_src_trial(int idx)
{
	strial_t *t = calloc(1, sizeof(*t));
	t->idx = idx;
	vf_rng_t rr; vf_rng_t *r = &rr;
	vf_rng_seed(r, vf_opts.seed, (uint64_t)idx * 7717 + 59);
	t->salt = vf_rnd(r) | 1;
	vf_perturb_draw(r, &t->prof);
	int sv[2];
	if (socketpair(AF_UNIX, SOCK_STREAM | SOCK_NONBLOCK | SOCK_CLOEXEC, 0, sv)) vf_fail("socketpair");
	t->a = sv[0]; t->b = sv[1];
	pthread_mutex_init(&t->rlock, NULL); pthread_mutex_init(&t->wlock, NULL);
	t->in_total = draw_total(r) * (size_t)vf_opts.scale / 100 + 1; t->out_total = draw_total(r) * (size_t)vf_opts.scale / 100 + 1;
	t->in_ref = malloc(t->in_total); fill(t->in_ref, t->salt, t->in_total);
	t->out_ref = malloc(t->out_total); fill(t->out_ref, ~t->salt, t->out_total);
	t->nread = (int)vf_rnd_range(r, 1, 2); t->nwrite = (int)vf_rnd_range(r, 1, 2);
	t->nsrc = t->nread + t->nwrite;
	peer_t *p = &t->peer;
	p->fd = t->b; p->out = t->in_ref; p->out_len = t->in_total; p->in = malloc(t->out_total); p->in_cap = t->out_total; p->in_expect = t->out_total; p->style = (int)vf_rnd_n(r, 3);
	vf_rng_seed(&p->rng, t->salt, 78);
	/* the extra source of a direction may be cancelled from outside half-way: the other one must carry on */
	int victim = -1;
	for (int i = 0; i < t->nsrc; i++) {
		dsrc_t *s = &t->src[i];
		s->t = t; s->idx = i; s->dir = i < t->nread ? K_READ : K_WRITE;
		vf_rng_seed(&s->rng, t->salt, 100 + (uint64_t)i);
		s->tq = vf_rnd_n(r, 3) == 0 ? dispatch_get_global_queue(0, 0) : vf_rnd_n(r, 2) ? dispatch_queue_create("vf.duplex.src", DISPATCH_QUEUE_SERIAL) : dispatch_queue_create("vf.duplex.src", DISPATCH_QUEUE_CONCURRENT);
		s->ds = dispatch_source_create(s->dir == K_READ ? DISPATCH_SOURCE_TYPE_READ : DISPATCH_SOURCE_TYPE_WRITE, (uintptr_t)t->a, 0, s->tq);
		if (!s->ds) vf_fail("dispatch_source_create");
		dispatch_set_context(s->ds, s);
		if (vf_rnd_n(r, 2)) { dispatch_source_set_event_handler_f(s->ds, s_event); dispatch_source_set_cancel_handler_f(s->ds, s_cancel); }
		else { dispatch_source_set_event_handler(s->ds, ^{ s_event(s); }); dispatch_source_set_cancel_handler(s->ds, ^{ s_cancel(s); }); }
	}
	if (t->nread == 2 && vf_rnd_n(r, 2)) victim = (int)vf_rnd_n(r, 2);
	else if (t->nwrite == 2 && vf_rnd_n(r, 2)) victim = t->nread + (int)vf_rnd_n(r, 2);
	if (victim >= 0) atomic_store(&t->src[victim].foreign_cancel, 1);
	vf_watch_begin("duplex:sources:both-streams-complete", 0);
	/* activate in random order, the peer starts somewhere in between */
	int order[4] = { 0, 1, 2, 3 };
	for (int i = t->nsrc - 1; i > 0; i--) { int j = (int)vf_rnd_n(r, (uint32_t)i + 1); int x = order[i]; order[i] = order[j]; order[j] = x; }
	int peer_at = (int)vf_rnd_n(r, (uint32_t)t->nsrc + 1);
	for (int i = 0; i <= t->nsrc; i++) {
		if (i == peer_at) pthread_create(&p->th, NULL, peer_main, p);
		if (i < t->nsrc) { dispatch_activate(t->src[order[i]].ds); if (vf_rnd_n(r, 2)) nap_us(vf_rnd_n(r, 300)); }
	}
	churn_t ch; memset(&ch, 0, sizeof(ch)); ch.t = t; vf_rng_seed(&ch.rng, t->salt, 300);
	pthread_t cth; int churn = (int)vf_rnd_n(r, 2);
	if (churn) pthread_create(&cth, NULL, churn_main, &ch);
	if (victim >= 0) {
		nap_us(vf_rnd_range(r, 50, 3000));
		dispatch_source_cancel(t->src[victim].ds);
	}
	/* both streams must complete; then every source that has not cancelled itself is cancelled from here */
	while (!atomic_load(&t->in_complete) || !atomic_load(&t->out_complete)) { nap_us(200); }
	if (churn) { atomic_store(&ch.stop, 1); pthread_join(cth, NULL); vf_count("shared_descriptor_suspend_resume_pairs", ch.pairs); }
	for (int i = 0; i < t->nsrc; i++) dispatch_source_cancel(t->src[i].ds);
	vf_wait_counter(&t->cancels_done, (uint64_t)t->nsrc, "duplex:sources:cancel-handlers");
	/* everything the write sources sent is in the socket: let the peer take it out before it is stopped */
	while (*(volatile size_t *)&p->in_len < p->in_expect) nap_us(100);
	atomic_store(&p->stop, 1);
	pthread_join(p->th, NULL);
	vf_watch_end();
	vf_perturb_off();
	if (t->in_mismatch || t->got_len != t->in_total) vf_violation("C15:shared-descriptor:inbound-stream-not-conserved", "read sources consumed %zu bytes of %zu%s", t->got_len, t->in_total, t->in_mismatch ? " (contents differ)" : "");
	if (p->in_len != t->out_total || memcmp(p->in, t->out_ref, t->out_total)) vf_violation("C15:shared-descriptor:outbound-stream-not-conserved", "the peer received %zu bytes, write sources sent %zu", p->in_len, t->sent);
	uint64_t inv = 0;
	for (int i = 0; i < t->nsrc; i++) {
		dsrc_t *s = &t->src[i];
		inv += atomic_load(&s->invocations);
		if (atomic_load(&s->cancel_ran) != 1) vf_violation("C16:cancel-handler-count:shared-descriptor", "cancel handler of source %d ran %u times", i, atomic_load(&s->cancel_ran));
		if (s->last_handler_end > s->cancel_start && s->cancel_start) vf_violation("C16:cancel-handler-before-last-event-handler:shared-descriptor", "cancel handler of a %s source started at stamp %llu, its last event handler returned at stamp %llu", s->dir == K_READ ? "read" : "write", (unsigned long long)s->cancel_start, (unsigned long long)s->last_handler_end);
	}
	vf_count("shared_descriptor_source_trials", 1);
	vf_count("shared_descriptor_sources", (uint64_t)t->nsrc);
	vf_count("shared_descriptor_handler_invocations", inv);
	if (victim >= 0) vf_count("shared_descriptor_foreign_cancels_with_survivor", 1);
	vf_count("items", inv);
	vf_emit("trial", "\"n\":1,\"sig\":\"duplex-src-%d-%d-%d-%d-%d\",\"nontrivial\":%s,\"sample\":{\"trial\":%d,\"read_sources\":%d,\"write_sources\":%d,\"bytes_in\":%zu,\"bytes_out\":%zu,\"cancelled_half_way\":%d,\"handler_invocations\":%llu,\"perturb\":\"%s\"}",
			t->nread, t->nwrite, victim >= 0, vf_log2_bucket(t->in_total), vf_log2_bucket(t->out_total), inv > (uint64_t)t->nsrc ? "true" : "false", idx, t->nread, t->nwrite, t->in_total, t->out_total, victim, (unsigned long long)inv, t->prof.desc);
	for (int i = 0; i < t->nsrc; i++) {
		dispatch_release(t->src[i].ds);
	}
	close(t->a); close(t->b);
	/* queues, buffers and t stay allocated: a late (wrong) handler invocation must find them */
}

/* =================================================================== mode=siblings */
/* Two channels on one descriptor (two dispatch_io_create calls, dispatch_io_create_with_io, or a channel next to the
 * convenience API) share the descriptor's stream and its event source. Operations of one direction are parked on both
 * (empty pipe for reads, full pipe for writes); one channel is stopped; the other one's operations must still complete
 * once the descriptor becomes ready. */
enum { SIB_TWO_CREATES, SIB_WITH_IO, SIB_CONVENIENCE, SIB_N };
static const char *const sib_names[] = { "two-creates-one-descriptor", "create_with_io", "channel+convenience" };
typedef struct sibtrial {
	int idx, setup, dir, hq_kind, victim;
	int fd_lib, fd_peer;
	dispatch_io_t ch[2];
	dispatch_queue_t hq, cq;
	dop_t ops[8]; int owner[8]; int nops;
	_Atomic uint64_t events, victim_done, survivor_done;
	_Atomic uint32_t cleanups[2];
	uint8_t *ref; size_t ref_len;
	uint64_t salt;
	vf_profile_t prof;
} sibtrial_t;

static void sib_h(sibtrial_t *t, dop_t *op, int owner, bool done, dispatch_data_t d, int err)
{
	if (atomic_load(&op->dones)) vf_violation("C14:siblings:handler-after-done", "handler invoked again after done (two channels on one descriptor)");
	if (op->kind == K_READ && d) {
		dispatch_data_apply(d, ^bool(dispatch_data_t rgn, size_t off, const void *p, size_t len) {
			(void)rgn; (void)off;
			if (op->got_len + len <= op->len) memcpy(op->got + op->got_len, p, len);
			op->got_len += len;
			return true;
		});
	}
	if (done) {
		op->err = err;
		if (op->kind == K_WRITE) op->rest = d ? dispatch_data_get_size(d) : 0;
		op->done_stamp = vf_stamp();
		vf_progress();
		atomic_fetch_add(&op->dones, 1);
		atomic_fetch_add_explicit(owner == t->victim ? &t->victim_done : &t->survivor_done, 1, memory_order_release);
	}
}

static void run_sib_trial(int idx)
{
	sibtrial_t *t = calloc(1, sizeof(*t));
	t->idx = idx;
	vf_rng_t rr, *r = &rr;
	vf_rng_seed(r, vf_opts.seed, (uint64_t)idx * 6007 + 83);
	t->salt = vf_rnd(r) | 1;
	vf_perturb_draw(r, &t->prof);
	t->setup = (int)vf_rnd_n(r, SIB_N);
	t->dir = (int)vf_rnd_n(r, 2);
	t->hq_kind = (int)vf_rnd_n(r, 3);
	t->victim = t->setup == SIB_CONVENIENCE ? 0 : (int)vf_rnd_n(r, 2);   /* the convenience channel cannot be stopped by the application */
	int use_socket = (int)vf_rnd_n(r, 2);
	int fds[2];
	if (use_socket) { if (socketpair(AF_UNIX, SOCK_STREAM | SOCK_CLOEXEC, 0, fds)) vf_fail("socketpair"); }
	else { if (pipe(fds)) vf_fail("pipe"); }
	if (t->dir == K_READ) { t->fd_lib = fds[0]; t->fd_peer = fds[1]; } else { t->fd_lib = fds[1]; t->fd_peer = fds[0]; }
	t->hq = t->hq_kind == 0 ? dispatch_queue_create("vf.sib.handlers", DISPATCH_QUEUE_SERIAL)
		: t->hq_kind == 1 ? dispatch_queue_create("vf.sib.handlers", DISPATCH_QUEUE_CONCURRENT) : dispatch_get_global_queue(0, 0);
	t->cq = dispatch_queue_create("vf.sib.cleanup", DISPATCH_QUEUE_SERIAL);
	/* writes need a full descriptor to park on */
	size_t prefill = 0;
	if (t->dir == K_WRITE) {
		fcntl(t->fd_lib, F_SETFL, fcntl(t->fd_lib, F_GETFL) | O_NONBLOCK);
		char z[4096]; memset(z, 0x7e, sizeof(z));
		for (;;) { ssize_t w = write(t->fd_lib, z, sizeof(z)); if (w <= 0) break; prefill += (size_t)w; }
		for (;;) { ssize_t w = write(t->fd_lib, z, 1); if (w <= 0) break; prefill += (size_t)w; }
	}
	vf_watch_begin("duplex:siblings:stopped-channel-completes", 0);
	t->ch[0] = dispatch_io_create(DISPATCH_IO_STREAM, t->fd_lib, t->cq, ^(int e) { (void)e; atomic_fetch_add(&t->cleanups[0], 1); atomic_fetch_add_explicit(&t->events, 1, memory_order_release); });
	if (t->setup == SIB_TWO_CREATES) t->ch[1] = dispatch_io_create(DISPATCH_IO_STREAM, t->fd_lib, t->cq, ^(int e) { (void)e; atomic_fetch_add(&t->cleanups[1], 1); atomic_fetch_add_explicit(&t->events, 1, memory_order_release); });
	else if (t->setup == SIB_WITH_IO) t->ch[1] = dispatch_io_create_with_io(DISPATCH_IO_STREAM, t->ch[0], t->cq, ^(int e) { (void)e; atomic_fetch_add(&t->cleanups[1], 1); atomic_fetch_add_explicit(&t->events, 1, memory_order_release); });
	int nch = t->setup == SIB_CONVENIENCE ? 1 : 2;
	if (!t->ch[0] || (nch == 2 && !t->ch[1])) vf_fail("dispatch_io_create failed");
	/* channel creation is asynchronous, and a channel made from one that has been stopped in the meantime legitimately fails with
	 * that channel's error: let both creations finish (a barrier runs after them) before anything is stopped */
	for (int c = 0; c < nch; c++) {
		dispatch_semaphore_t sem = dispatch_semaphore_create(0);
		dispatch_io_barrier(t->ch[c], ^{ dispatch_semaphore_signal(sem); });
		dispatch_semaphore_wait(sem, DISPATCH_TIME_FOREVER);
		dispatch_release(sem);
	}
	/* operations: 1-3 on each channel, interleaved; the survivor's lengths add up to ref_len */
	int n0 = (int)vf_rnd_range(r, 1, 3), n1 = (int)vf_rnd_range(r, 1, 3);
	size_t surv_total = 0;
	int i0 = 0, i1 = 0;
	while (i0 < n0 || i1 < n1) {
		int owner = (i1 >= n1 || (i0 < n0 && vf_rnd_n(r, 2))) ? 0 : 1;
		if (owner == 0) i0++; else i1++;
		dop_t *op = &t->ops[t->nops]; t->owner[t->nops] = owner; op->idx = t->nops++;
		op->kind = t->dir; op->len = vf_rnd_n(r, 3) == 0 ? vf_rnd_range(r, 1, 64) : vf_rnd_range(r, 64, 20000);
		if (owner != t->victim) { op->base = surv_total; surv_total += op->len; }
	}
	t->ref_len = surv_total; t->ref = malloc(surv_total); fill(t->ref, t->salt, surv_total);
	uint64_t nvictim = 0, nsurv = 0;
	for (int i = 0; i < t->nops; i++) {
		dop_t *op = &t->ops[i]; int owner = t->owner[i];
		if (owner == t->victim) nvictim++; else nsurv++;
		int conv = t->setup == SIB_CONVENIENCE && owner == 1;
		if (t->dir == K_READ) {
			op->got = malloc(op->len);
			if (conv) dispatch_read(t->fd_lib, op->len, t->hq, ^(dispatch_data_t d, int e) { sib_h(t, op, owner, true, d, e); });
			else dispatch_io_read(t->ch[owner], 0, op->len, t->hq, ^(bool done, dispatch_data_t d, int e) { sib_h(t, op, owner, done, d, e); });
		} else {
			uint8_t *buf = malloc(op->len);
			if (owner != t->victim) memcpy(buf, t->ref + op->base, op->len); else memset(buf, 0x11, op->len);
			dispatch_data_t d = dispatch_data_create(buf, op->len, NULL, DISPATCH_DATA_DESTRUCTOR_FREE);
			if (conv) dispatch_write(t->fd_lib, d, t->hq, ^(dispatch_data_t rd, int e) { sib_h(t, op, owner, true, rd, e); });
			else dispatch_io_write(t->ch[owner], 0, d, t->hq, ^(bool done, dispatch_data_t rd, int e) { sib_h(t, op, owner, done, rd, e); });
			dispatch_release(d);
		}
		if (vf_rnd_n(r, 2)) nap_us(vf_rnd_n(r, 300));
	}
	/* the stop lands while everything is parked, or right behind the last submission, when the stream handler is just
	 * starting on the first operation (F34: stop between the handler's check of the channel and the one in perform) */
	if (vf_rnd_n(r, 5) >= 2) nap_us(vf_rnd_range(r, 0, 2000)); else if (vf_rnd_n(r, 2)) vf_spin_ns(vf_rnd_n(r, 30000));
	/* stop one channel while everything is parked */
	dispatch_io_close(t->ch[t->victim], DISPATCH_IO_STOP);
	vf_wait_counter(&t->victim_done, nvictim, "duplex:siblings:stopped-channel-completes");
	vf_watch_end();
	size_t victim_moved = 0;
	for (int i = 0; i < t->nops; i++) if (t->owner[i] == t->victim) {
		dop_t *op = &t->ops[i];
		if (op->err != ECANCELED) vf_violation(t->dir == K_READ ? "C14:read:stopped-channel-op-not-ECANCELED:siblings" : "C14:write:stopped-channel-op-not-ECANCELED:siblings", "operation parked on a channel that was stopped completed with error %d (%s)", op->err, sib_names[t->setup]);
		victim_moved += t->dir == K_READ ? op->got_len : op->len - op->rest;
	}
	if (victim_moved) vf_violation("C14:siblings:stopped-channel-moved-bytes-on-an-idle-descriptor", "operations of the stopped channel report %zu bytes transferred although the descriptor never became ready", victim_moved);
	/* now make the descriptor ready: the surviving channel's operations have to complete */
	vf_watch_begin("duplex:siblings:surviving-channel-completes", 0);
	uint8_t *peer_got = NULL; size_t peer_n = 0;
	if (t->dir == K_READ) {
		size_t off = 0;
		while (off < t->ref_len) {
			size_t chunk = vf_rnd_range(r, 1, 9000); if (chunk > t->ref_len - off) chunk = t->ref_len - off;
			ssize_t w = write(t->fd_peer, t->ref + off, chunk);
			if (w > 0) { off += (size_t)w; vf_progress(); }
			if (vf_rnd_n(r, 3) == 0) nap_us(vf_rnd_n(r, 400));
		}
	} else {
		size_t want = prefill + t->ref_len;
		peer_got = malloc(want + 1);
		fcntl(t->fd_peer, F_SETFL, fcntl(t->fd_peer, F_GETFL) | O_NONBLOCK);
		uint64_t t0 = vf_now_ns(CLOCK_MONOTONIC);
		while (peer_n < want) {
			ssize_t n = read(t->fd_peer, peer_got + peer_n, want - peer_n);
			if (n > 0) { peer_n += (size_t)n; vf_progress(); t0 = vf_now_ns(CLOCK_MONOTONIC); }
			else { nap_us(200); if (atomic_load(&t->survivor_done) >= nsurv && vf_now_ns(CLOCK_MONOTONIC) - t0 > 300000000ull) break; }
		}
	}
	vf_wait_counter(&t->survivor_done, nsurv, "duplex:siblings:surviving-channel-completes");
	/* close what is left and wait for the cleanup handlers */
	for (int c = 0; c < nch; c++) { if (c != t->victim) dispatch_io_close(t->ch[c], 0); dispatch_release(t->ch[c]); }
	vf_wait_counter(&t->events, (uint64_t)nch, "duplex:siblings:cleanup-handlers");
	vf_watch_end();
	vf_perturb_off();
	size_t pos = 0;
	for (int i = 0; i < t->nops; i++) if (t->owner[i] != t->victim) {
		dop_t *op = &t->ops[i];
		int conv = t->setup == SIB_CONVENIENCE && t->owner[i] == 1;
		if (atomic_load(&op->dones) != 1) { vf_violation("C14:siblings:done-count", "operation of the surviving channel saw done %u times", atomic_load(&op->dones)); continue; }
		if (t->dir == K_READ) {
			size_t expect = op->len; if (conv && op->got_len < expect && !op->err) expect = op->got_len;
			if (op->err || op->got_len != expect || memcmp(op->got, t->ref + pos, expect))
				vf_violation("C14:read:surviving-sibling-channel-disturbed", "read of %zu bytes on the channel that was not stopped: error %d, %zu bytes delivered%s (%s, trial %d)", op->len, op->err, op->got_len, op->got_len == expect ? ", wrong bytes" : "", sib_names[t->setup], idx);
			pos += op->got_len < expect ? op->got_len : expect;
		} else if (op->err || op->rest) {
			vf_violation("C14:write:surviving-sibling-channel-disturbed", "write of %zu bytes on the channel that was not stopped: error %d, %zu bytes reported unwritten (%s, trial %d)", op->len, op->err, op->rest, sib_names[t->setup], idx);
		}
	}
	if (t->dir == K_WRITE && (peer_n != prefill + t->ref_len || memcmp(peer_got + prefill, t->ref, t->ref_len)))
		vf_violation("C14:write:surviving-sibling-channel-stream-differs", "the peer received %zu bytes after the %zu bytes that filled the descriptor, the surviving channel wrote %zu (%s, trial %d)", peer_n > prefill ? peer_n - prefill : 0, prefill, t->ref_len, sib_names[t->setup], idx);
	for (int c = 0; c < nch; c++) if (atomic_load(&t->cleanups[c]) != 1) vf_violation("C14:cleanup:count:siblings", "cleanup handler of channel %d ran %u times", c, atomic_load(&t->cleanups[c]));
	vf_count("sibling_channel_trials", 1);
	vf_count("sibling_survivor_operations", nsurv);
	vf_count("sibling_stopped_operations", nvictim);
	vf_count("items", (uint64_t)t->nops);
	vf_emit("trial", "\"n\":1,\"sig\":\"siblings-%s-%s-%d-%d-%d-%d\",\"nontrivial\":true,\"sample\":{\"trial\":%d,\"setup\":\"%s\",\"direction\":\"%s\",\"transport\":\"%s\",\"stopped_channel\":%d,\"ops\":%d,\"perturb\":\"%s\"}",
			sib_names[t->setup], t->dir == K_READ ? "read" : "write", use_socket, t->victim, t->hq_kind, (int)nsurv, idx, sib_names[t->setup], t->dir == K_READ ? "read" : "write", use_socket ? "socketpair" : "pipe", t->victim, t->nops, t->prof.desc);
	close(t->fd_lib); close(t->fd_peer);
	free(peer_got); free(t->ref);
	for (int i = 0; i < t->nops; i++) free(t->ops[i].got);
	if (t->hq_kind != 2) dispatch_release(t->hq);
	dispatch_release(t->cq);
}

static void *churn_main(void *arg)
{
	churn_t *c = arg; strial_t *t = c->t;
	while (!atomic_load(&c->stop)) {
		dsrc_t *s = &t->src[vf_rnd_n(&c->rng, (uint32_t)t->nsrc)];
		dispatch_suspend(s->ds);
		nap_us(vf_rnd_range(&c->rng, 20, 400));
		dispatch_resume(s->ds);
		c->pairs++;
		nap_us(vf_rnd_range(&c->rng, 20, 600));
	}
	return NULL;
}

int main(int argc, char **argv)
{
	vf_init(argc, argv, "h_duplex");
	int sources = vf_opts.mode && !strcmp(vf_opts.mode, "sources"), siblings = vf_opts.mode && !strcmp(vf_opts.mode, "siblings");
	for (int i = 0; i < vf_opts.trials; i++) { if (sources) run_src_trial(vf_opts.first_trial + i); else if (siblings) run_sib_trial(vf_opts.first_trial + i); else run_io_trial(vf_opts.first_trial + i); }
	return vf_finish();
}
