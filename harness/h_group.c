/*
 * h_group.c — C07: groups complete exactly when their count returns to zero.
 *
 * History: tokens (enter..leave; for dispatch_group_async enter = inside the call,
 * leave = after the item's end stamp), waits, notifies, all with vf_stamp stamps.
 *   lower(t) = #enters returned before t - #leaves begun before t
 * (1) dispatch_group_wait returned 0 over [c,r] but lower(t) > 0 for all t in [c,r]  -> violation
 * (2) non-zero return with now < deadline on the deadline's clock                     -> violation
 * (3) every notify block runs exactly once; for every token whose enter returned
 *     before the notify call began, the leave had begun before the block started
 * (4) nothing left behind when the count reaches zero (watchdog)
 * mode "tokens": explicit enter/leave only, rule (3) checked with the stale-wake
 * classification of DESIGN §8 item 7; mode "mixed": adds dispatch_group_async,
 * rule (3) not applied (leave intervals of library-issued leaves are unknown).
 */
#include "vf_common.h"
#include "vf_time.h"
#include <dispatch/dispatch.h>
#include <dispatch/private.h>
#include <sched.h>

typedef struct { uint64_t enter_call, enter_ret, leave_call, leave_ret; uint8_t async; } tok_t;
typedef struct { uint64_t call, ret; uint8_t ok, kind, clk; uint64_t deadline, now_after; } gw_t;
typedef struct ntf { uint64_t reg_call, reg_ret, start; _Atomic uint32_t runs; struct gtrial *t; } ntf_t;

typedef struct gtrial {
	dispatch_group_t g;
	int nthreads, ops, mixed;
	tok_t *toks; gw_t *waits; ntf_t *ntfs;   /* per thread slices of size ops */
	int *ntok, *nwait, *nntf;
	dispatch_queue_t qs[3];
	_Atomic uint64_t ntf_done, async_done;
	uint64_t salt;
	pthread_barrier_t bar;
} gtrial_t;
typedef struct { gtrial_t *t; int id; pthread_t th; vf_rng_t rng; } gthr_t;

static void ntf_body(void *ctx)
{
	ntf_t *n = ctx;
	n->start = vf_stamp();
	if (atomic_fetch_add(&n->runs, 1)) vf_violation("C07:notify-ran-twice", "a dispatch_group_notify block was invoked twice");
	vf_progress();
	atomic_fetch_add_explicit(&n->t->ntf_done, 1, memory_order_release);
}
typedef struct { gtrial_t *t; tok_t *tok; } aitem_t;
static void async_body(void *ctx)
{
	aitem_t *a = ctx;
	if (((uintptr_t)a >> 4) & 1) sched_yield();
	vf_spin_ns(((uintptr_t)a >> 5) % 8000);
	a->tok->leave_call = vf_stamp();   /* the library's leave begins after this */
	vf_progress();
	atomic_fetch_add_explicit(&a->t->async_done, 1, memory_order_release);
	free(a);
}

static void *gthread(void *arg)
{
	gthr_t *c = arg;
	gtrial_t *t = c->t;
	vf_rng_t *r = &c->rng;
	tok_t *toks = &t->toks[c->id * t->ops]; gw_t *waits = &t->waits[c->id * t->ops]; ntf_t *ntfs = &t->ntfs[c->id * t->ops];
	int nt = 0, nw = 0, nn = 0;
	pthread_barrier_wait(&t->bar);
	for (int i = 0; i < t->ops; i++) {
		uint32_t k = vf_rnd_n(r, 100);
		if (k < 45 || (k < 60 && !t->mixed)) {
			tok_t *tk = &toks[nt++];
			tk->enter_call = vf_stamp();
			dispatch_group_enter(t->g);
			tk->enter_ret = vf_stamp();
			uint32_t w = vf_rnd_n(r, 4);
			if (w == 0) sched_yield(); else if (w == 1) vf_spin_ns(vf_rnd_n(r, 20000));
			/* sometimes register a notify / poll while holding the token */
			if (vf_rnd_n(r, 6) == 0) {
				ntf_t *n = &ntfs[nn++]; n->t = t;
				n->reg_call = vf_stamp();
				dispatch_group_notify_f(t->g, t->qs[vf_rnd_n(r, 3)], n, ntf_body);
				n->reg_ret = vf_stamp();
			}
			tk->leave_call = vf_stamp();
			dispatch_group_leave(t->g);
			tk->leave_ret = vf_stamp();
		} else if (k < 60) {
			tok_t *tk = &toks[nt++];
			tk->async = 1;
			aitem_t *a = malloc(sizeof(*a)); a->t = t; a->tok = tk;
			tk->enter_call = vf_stamp();
			if (vf_rnd_n(r, 2)) dispatch_group_async_f(t->g, t->qs[vf_rnd_n(r, 3)], a, async_body);
			else dispatch_group_async(t->g, t->qs[vf_rnd_n(r, 3)], ^{ async_body(a); });
			tk->enter_ret = vf_stamp();
		} else if (k < 85) {
			gw_t *w = &waits[nw++];
			uint32_t kk = vf_rnd_n(r, 10);
			dispatch_time_t when;
			if (kk < 3) { w->kind = 0; when = DISPATCH_TIME_FOREVER; }
			else if (kk < 5) { w->kind = 2; when = DISPATCH_TIME_NOW; }
			else {
				w->kind = 1;
				int clk = (int)vf_rnd_n(r, 3);
				when = vf_make_deadline(clk, (int64_t)vf_rnd_range(r, 5000, 300000), (int)vf_rnd_n(r, 2));
				vf_deadline_t d = vf_decode_time(when);
				w->clk = (uint8_t)d.kind; w->deadline = d.value;
			}
			w->call = vf_stamp();
			intptr_t rc = dispatch_group_wait(t->g, when);
			if (w->kind == 1) w->now_after = vf_now_ns(w->clk == VF_CLK_WALL ? CLOCK_REALTIME : w->clk == VF_CLK_MONO ? CLOCK_BOOTTIME : CLOCK_MONOTONIC);
			w->ret = vf_stamp();
			w->ok = (rc == 0);
		} else {
			ntf_t *n = &ntfs[nn++]; n->t = t;
			n->reg_call = vf_stamp();
			if (vf_rnd_n(r, 2)) dispatch_group_notify_f(t->g, t->qs[vf_rnd_n(r, 3)], n, ntf_body);
			else dispatch_group_notify(t->g, t->qs[vf_rnd_n(r, 3)], ^{ ntf_body(n); });
			n->reg_ret = vf_stamp();
		}
		vf_progress();
		if (vf_rnd_n(r, 16) == 0) sched_yield();
	}
	t->ntok[c->id] = nt; t->nwait[c->id] = nw; t->nntf[c->id] = nn;
	return NULL;
}

typedef struct { uint64_t stamp; int delta; } ev_t;
static int ev_cmp(const void *a, const void *b) { uint64_t x = ((const ev_t *)a)->stamp, y = ((const ev_t *)b)->stamp; return x < y ? -1 : x > y; }
typedef struct { uint64_t key, val; } kv_t;
static int kv_cmp(const void *a, const void *b) { uint64_t x = ((const kv_t *)a)->key, y = ((const kv_t *)b)->key; return x < y ? -1 : x > y; }

static void run_trial(int idx)
{
	gtrial_t *t = calloc(1, sizeof(*t));
	vf_rng_t r;
	vf_rng_seed(&r, vf_opts.seed, (uint64_t)idx * 9973 + 41);
	t->salt = vf_rnd(&r);
	t->mixed = !strcmp(vf_opts.mode, "mixed") || (!strcmp(vf_opts.mode, "default") && (idx & 1));
	t->nthreads = (int)vf_rnd_range(&r, 2, 8);
	vf_profile_t prof;
	vf_perturb_draw(&r, &prof);
	t->ops = (int)((long)(prof.kind == VF_P_OFF ? 4000 : 1200) * vf_opts.scale / 100) + 1;
	size_t tot = (size_t)t->nthreads * (size_t)t->ops;
	t->toks = calloc(tot, sizeof(tok_t)); t->waits = calloc(tot, sizeof(gw_t)); t->ntfs = calloc(tot, sizeof(ntf_t));
	t->ntok = calloc((size_t)t->nthreads, sizeof(int)); t->nwait = calloc((size_t)t->nthreads, sizeof(int)); t->nntf = calloc((size_t)t->nthreads, sizeof(int));
	t->g = dispatch_group_create();
	t->qs[0] = dispatch_queue_create("vf.group.serial", DISPATCH_QUEUE_SERIAL);
	t->qs[1] = dispatch_queue_create("vf.group.conc", DISPATCH_QUEUE_CONCURRENT);
	t->qs[2] = dispatch_get_global_queue(DISPATCH_QUEUE_PRIORITY_DEFAULT, 0);
	pthread_barrier_init(&t->bar, NULL, (unsigned)t->nthreads);
	gthr_t th[8];
	vf_watch_begin(t->mixed ? "group:mixed" : "group:tokens", 0);
	for (int i = 0; i < t->nthreads; i++) {
		th[i].t = t; th[i].id = i; vf_rng_seed(&th[i].rng, t->salt, (uint64_t)i);
		pthread_create(&th[i].th, NULL, gthread, &th[i]);
	}
	for (int i = 0; i < t->nthreads; i++) pthread_join(th[i].th, NULL);
	vf_watch_end();
	/* gather */
	int ntok = 0, nwait = 0, nntf = 0, nasync = 0;
	tok_t **T = malloc(sizeof(*T) * (tot + 1)); gw_t **W = malloc(sizeof(*W) * (tot + 1)); ntf_t **N = malloc(sizeof(*N) * (tot + 1));
	for (int i = 0; i < t->nthreads; i++) {
		for (int k = 0; k < t->ntok[i]; k++) { T[ntok] = &t->toks[i * t->ops + k]; if (T[ntok]->async) nasync++; ntok++; }
		for (int k = 0; k < t->nwait[i]; k++) W[nwait++] = &t->waits[i * t->ops + k];
		for (int k = 0; k < t->nntf[i]; k++) N[nntf++] = &t->ntfs[i * t->ops + k];
	}
	/* (4) every token has left (threads joined, group_async items finish): all notifications must now be delivered */
	vf_wait_counter(&t->async_done, (uint64_t)nasync, "group:async-items");
	vf_wait_counter(&t->ntf_done, (uint64_t)nntf, "group:notifications-left-behind");
	vf_perturb_off();

	/* timeline of lower(t) */
	int nev = 0;
	ev_t *ev = malloc(sizeof(*ev) * (size_t)(2 * ntok + 1));
	for (int i = 0; i < ntok; i++) {
		ev[nev].stamp = T[i]->enter_ret; ev[nev++].delta = +1;
		ev[nev].stamp = T[i]->leave_call; ev[nev++].delta = -1;
	}
	qsort(ev, (size_t)nev, sizeof(*ev), ev_cmp);
	/* prefix[i] = lower just after event i; lower before first event = 0 */
	long *prefix = malloc(sizeof(long) * (size_t)(nev + 1));
	long cur = 0;
	for (int i = 0; i < nev; i++) { cur += ev[i].delta; prefix[i] = cur; }
	/* sparse table for range-min */
	int LOG = 1; while ((1 << LOG) <= nev) LOG++;
	long **sp = malloc(sizeof(long *) * (size_t)LOG);
	sp[0] = prefix;
	for (int j = 1; j < LOG; j++) {
		sp[j] = malloc(sizeof(long) * (size_t)(nev + 1));
		for (int i = 0; i + (1 << j) <= nev; i++) { long a = sp[j - 1][i], b = sp[j - 1][i + (1 << (j - 1))]; sp[j][i] = a < b ? a : b; }
	}
	uint64_t w_ok = 0, w_tmo = 0, w_ok_nonzero_at_call = 0, early = 0;
	for (int i = 0; i < nwait; i++) {
		gw_t *w = W[i];
		if (w->ok) {
			w_ok++;
			/* index of first event with stamp > call, and last event with stamp < ret */
			int lo = 0, hi = nev;
			while (lo < hi) { int m = (lo + hi) / 2; if (ev[m].stamp < w->call) lo = m + 1; else hi = m; }
			int first = lo; /* events [first, last] lie inside (call, ret) */
			lo = 0; hi = nev;
			while (lo < hi) { int m = (lo + hi) / 2; if (ev[m].stamp < w->ret) lo = m + 1; else hi = m; }
			int last = lo - 1;
			long at_call = first > 0 ? prefix[first - 1] : 0;
			long mn = at_call;
			if (at_call > 0) w_ok_nonzero_at_call++;
			if (last >= first) {
				int len = last - first + 1, j = 0;
				while ((1 << (j + 1)) <= len) j++;
				long a = sp[j][first], b = sp[j][last - (1 << j) + 1];
				long m2 = a < b ? a : b;
				if (m2 < mn) mn = m2;
			}
			if (mn > 0) {
				vf_violation("C07:wait-returned-zero-while-entered", "dispatch_group_wait returned 0 over stamps [%llu,%llu] although at every moment of the call at least %ld entered token(s) had not begun to leave (%s, %s)",
						(unsigned long long)w->call, (unsigned long long)w->ret, mn, t->mixed ? "mixed" : "tokens", prof.desc);
			}
		} else {
			if (w->kind == 0) vf_violation("C07:forever-wait-returned-nonzero", "dispatch_group_wait(FOREVER) returned non-zero");
			if (w->kind == 1) {
				w_tmo++;
				if (w->now_after < w->deadline && early++ < 3) {
					char key[64]; snprintf(key, sizeof(key), "C07:timeout-before-deadline:%s", vf_clk_names[w->clk]);
					vf_violation(key, "dispatch_group_wait returned non-zero %llu ns before its deadline (%s clock)", (unsigned long long)(w->deadline - w->now_after), vf_clk_names[w->clk]);
				}
			}
		}
	}
	/* (3) notify */
	uint64_t ntf_checked = 0, stale = 0;
	for (int i = 0; i < nntf; i++) {
		uint32_t runs = atomic_load(&N[i]->runs);
		if (runs != 1) vf_violation(runs ? "C07:notify-ran-twice" : "C07:notify-never-ran", "notify block registered at [%llu,%llu] ran %u times", (unsigned long long)N[i]->reg_call, (unsigned long long)N[i]->reg_ret, runs);
	}
	if (!t->mixed) {
		/* for each notify: max leave_call over tokens with enter_ret < reg_call must be < start */
		kv_t *byenter = malloc(sizeof(kv_t) * (size_t)(ntok + 1));
		for (int i = 0; i < ntok; i++) { byenter[i].key = T[i]->enter_ret; byenter[i].val = (uint64_t)i; }
		qsort(byenter, (size_t)ntok, sizeof(kv_t), kv_cmp);
		kv_t *byreg = malloc(sizeof(kv_t) * (size_t)(nntf + 1));
		for (int i = 0; i < nntf; i++) { byreg[i].key = N[i]->reg_call; byreg[i].val = (uint64_t)i; }
		qsort(byreg, (size_t)nntf, sizeof(kv_t), kv_cmp);
		int it = 0; tok_t *worst = NULL;
		for (int i = 0; i < nntf; i++) {
			ntf_t *n = N[byreg[i].val];
			while (it < ntok && byenter[it].key < n->reg_call) { tok_t *tk = T[byenter[it].val]; if (!worst || tk->leave_call > worst->leave_call) worst = tk; it++; }
			ntf_checked++;
			if (worst && n->start && worst->leave_call > n->start) {
				tok_t *tk = worst;
				/* classification: stale wake (DESIGN §8 item 7)?
				 * a leave L in flight across tk's enter and n's registration, and an older notify pending */
				int haveL = 0, haveN0 = 0; uint64_t Lcall = 0; const char *waker = "leave";
				for (int k = 0; k < ntok && !haveL; k++) {
					tok_t *L = T[k];
					if (L != tk && !L->async && L->leave_call < tk->enter_ret && L->leave_ret > n->reg_call) { haveL = 1; Lcall = L->leave_call; }
				}
				/* the waker may also be a dispatch_group_notify call that found the count at zero */
				for (int k = 0; k < nntf && !haveL; k++) {
					ntf_t *w = N[k];
					if (w != n && w->reg_call < tk->enter_ret && w->reg_ret > n->reg_call) { haveL = 1; Lcall = w->reg_call; waker = "notify registration"; }
				}
				if (haveL) for (int k = 0; k < nntf && !haveN0; k++) {
					ntf_t *n0 = N[k];
					if (n0 != n && n0->reg_call < n->reg_ret && n0->start > Lcall) haveN0 = 1;
				}
				/* could the in-flight waker have seen the count at zero? minimum of lower(t) from the moment its leave
				 * began (its own decrement included) up to the re-entry by tk */
				int zero_possible = 0;
				if (haveL) {
					int lo = 0, hi = nev;
					while (lo < hi) { int m = (lo + hi) / 2; if (ev[m].stamp < Lcall) lo = m + 1; else hi = m; }
					int first = lo;
					lo = 0; hi = nev;
					while (lo < hi) { int m = (lo + hi) / 2; if (ev[m].stamp < tk->enter_ret) lo = m + 1; else hi = m; }
					int last = lo - 1;
					long mn = first > 0 ? prefix[first - 1] : 0;
					if (last >= first) {
						int len = last - first + 1, j = 0;
						while ((1 << (j + 1)) <= len) j++;
						long a = sp[j][first], b = sp[j][last - (1 << j) + 1];
						long m2 = a < b ? a : b;
						if (m2 < mn) mn = m2;
					}
					zero_possible = mn <= 0;
				}
				/* ... and was a dispatch_group_wait of the old generation still in flight (HAS_WAITERS set: the waker needs
				 * its compare-and-swap loop, whose re-read picks up the flags of the new generation)? */
				int haveW0 = 0;
				if (haveL) for (int k = 0; k < nwait && !haveW0; k++) {
					gw_t *w0 = W[k];
					if (w0->kind != 2 && w0->call < tk->enter_ret && w0->ret > Lcall) haveW0 = 1;
				}
				if (haveL && !haveN0 && zero_possible && haveW0) {
					/* sibling of the stale wake below, without an older notification: the waker (a leave that made the count
					 * zero, or a notify call that found it zero) is still on its way to _dispatch_group_wake when the group is
					 * re-entered and a notification is registered; its flag-clearing loop re-reads dg_state, finds
					 * HAS_NOTIFS (set by that registration), clears it and fires the whole list */
					stale++;
					vf_violation("C07:notify-before-leave:stale-wake:reentry-during-wake+older-waiter-pending",
							"notify registered at [%llu,%llu] started at %llu although a token entered at [%llu,%llu] (before the notify call) only began to leave at %llu; a %s that began at %llu (the count could be zero then) was still executing across that enter and the registration, and a dispatch_group_wait of the old generation was pending (the waker's compare-and-swap loop re-reads the state of the new generation)",
							(unsigned long long)n->reg_call, (unsigned long long)n->reg_ret, (unsigned long long)n->start,
							(unsigned long long)tk->enter_call, (unsigned long long)tk->enter_ret, (unsigned long long)tk->leave_call, waker, (unsigned long long)Lcall);
				} else if (haveL && haveN0) {
					stale++;
					vf_violation("C07:notify-before-leave:stale-wake:reentry-during-wake+older-notify-pending",
							"notify registered at [%llu,%llu] started at %llu although a token entered at [%llu,%llu] (before the notify call) only began to leave at %llu; a %s that began at %llu (and saw the count at zero) was still executing across that enter and the registration, and an older notification was pending (same wake batch)",
							(unsigned long long)n->reg_call, (unsigned long long)n->reg_ret, (unsigned long long)n->start,
							(unsigned long long)tk->enter_call, (unsigned long long)tk->enter_ret, (unsigned long long)tk->leave_call, waker, (unsigned long long)Lcall);
				} else {
					if (vf_opts.verbose) {
						uint64_t lo = tk->enter_call > 150 ? tk->enter_call - 150 : 0, hi = n->start + 30;
						for (int k = 0; k < ntok; k++) { tok_t *x = T[k]; if (x->leave_ret >= lo && x->enter_call <= hi) fprintf(stderr, "TOK enter[%llu,%llu] leave[%llu,%llu]%s\n", (unsigned long long)x->enter_call, (unsigned long long)x->enter_ret, (unsigned long long)x->leave_call, (unsigned long long)x->leave_ret, x == tk ? " <== T" : ""); }
						for (int k = 0; k < nntf; k++) { ntf_t *x = N[k]; if (x->start >= lo && x->reg_call <= hi) fprintf(stderr, "NTF reg[%llu,%llu] start %llu%s\n", (unsigned long long)x->reg_call, (unsigned long long)x->reg_ret, (unsigned long long)x->start, x == n ? " <== N" : ""); }
						for (int k = 0; k < nwait; k++) { gw_t *x = W[k]; if (x->ret >= lo && x->call <= hi) fprintf(stderr, "WAIT [%llu,%llu] ok=%d kind=%d\n", (unsigned long long)x->call, (unsigned long long)x->ret, x->ok, x->kind); }
					}
					vf_violation("C07:notify-before-leave", "notify registered at [%llu,%llu] started at %llu although a token entered at [%llu,%llu] (before the notify call) only began to leave at %llu (%s)",
							(unsigned long long)n->reg_call, (unsigned long long)n->reg_ret, (unsigned long long)n->start,
							(unsigned long long)tk->enter_call, (unsigned long long)tk->enter_ret, (unsigned long long)tk->leave_call, prof.desc);
				}
			}
		}
		free(byenter); free(byreg);
	}
	vf_count("tokens", (uint64_t)ntok);
	vf_count("group_async_items", (uint64_t)nasync);
	vf_count("waits_zero", w_ok);
	vf_count("waits_zero_entered_at_call", w_ok_nonzero_at_call);
	vf_count("waits_timed_out", w_tmo);
	vf_count("notifies", (uint64_t)nntf);
	vf_count("notify_order_checked", ntf_checked);
	vf_count("stale_wake_seen", stale);
	vf_count("items", (uint64_t)ntok + (uint64_t)nwait + (uint64_t)nntf);
	vf_emit("trial", "\"n\":1,\"sig\":\"grp%d-%d-%d-%d-%d-%d\",\"nontrivial\":%s,\"sample\":{\"trial\":%d,\"mode\":\"%s\",\"threads\":%d,\"tokens\":%d,\"group_async\":%d,\"waits_zero\":%llu,\"waits_zero_that_had_to_block\":%llu,\"timeouts\":%llu,\"notifies\":%d,\"perturb\":\"%s\"}",
			t->mixed, t->nthreads, prof.kind, vf_log2_bucket(w_ok_nonzero_at_call), vf_log2_bucket(w_tmo), vf_log2_bucket((uint64_t)nntf),
			(w_ok_nonzero_at_call > 0 && nntf > 0) ? "true" : "false", idx, t->mixed ? "mixed" : "tokens", t->nthreads, ntok, nasync,
			(unsigned long long)w_ok, (unsigned long long)w_ok_nonzero_at_call, (unsigned long long)w_tmo, nntf, prof.desc);
	for (int j = 1; j < LOG; j++) free(sp[j]);
	free(sp); free(prefix); free(ev); free(T); free(W); free(N);
	dispatch_release(t->g); dispatch_release(t->qs[0]); dispatch_release(t->qs[1]);
	free(t->toks); free(t->waits); free(t->ntfs); free(t->ntok); free(t->nwait); free(t->nntf);
	pthread_barrier_destroy(&t->bar);
	free(t);
}

/* ------------------------------------------------------------- rounds mode
 * Quiescent rounds: in every round the only party that can release the waiter (or fire the
 * notification) is the group itself, and all harness threads meet at a sleeping barrier at the end of
 * the round. A wake-up that is lost "when the count reaches zero" therefore leaves every thread asleep:
 * the watchdog's stuck witness (C07 "never left behind"), instead of being masked by a later generation.
 *   A: enter, wait with an already expired deadline (returns non-zero, leaves HAS_WAITERS behind), leave
 *   B: enter (after A entered), then wait FOREVER / register a notification
 *   C: once A has left and B has entered, performs the leave that empties the group for B
 */
#include <semaphore.h>
typedef struct {
	dispatch_group_t g; dispatch_queue_t q;
	pthread_barrier_t bar;
	_Atomic int a_entered, a_left, b_entered, round_kind;
	sem_t notified;
	int rounds;
	_Atomic uint64_t waits_released, notifies_fired;
	uint64_t salt;
} rtrial_t;
static void r_notify(void *ctx) { rtrial_t *t = ctx; atomic_fetch_add(&t->notifies_fired, 1); vf_progress(); sem_post(&t->notified); }
typedef struct { rtrial_t *t; int role; vf_rng_t rng; pthread_t th; } rthr_t;
static void *r_thread(void *arg)
{
	rthr_t *c = arg;
	rtrial_t *t = c->t;
	for (int round = 0; round < t->rounds; round++) {
		pthread_barrier_wait(&t->bar);
		int kind = atomic_load(&t->round_kind);
		if (c->role == 0) {            /* A */
			dispatch_group_enter(t->g);
			atomic_store(&t->a_entered, 1);
			if (vf_rnd_n(&c->rng, 4)) (void)dispatch_group_wait(t->g, vf_rnd_n(&c->rng, 2) ? DISPATCH_TIME_NOW : dispatch_time(DISPATCH_TIME_NOW, -1000));
			else (void)dispatch_group_wait(t->g, dispatch_time(DISPATCH_TIME_NOW, (int64_t)vf_rnd_n(&c->rng, 30000)));
			if (vf_rnd_n(&c->rng, 2)) vf_spin_ns(vf_rnd_n(&c->rng, 3000));
			dispatch_group_leave(t->g);
			atomic_store(&t->a_left, 1);
		} else if (c->role == 1) {     /* B */
			while (!atomic_load(&t->a_entered)) { __asm__ __volatile__("pause"); }
			if (vf_rnd_n(&c->rng, 2)) vf_spin_ns(vf_rnd_n(&c->rng, 2000));
			dispatch_group_enter(t->g);
			atomic_store(&t->b_entered, 1);
			if (kind == 0) {
				if (dispatch_group_wait(t->g, DISPATCH_TIME_FOREVER)) vf_violation("C07:forever-wait-returned-nonzero", "dispatch_group_wait(FOREVER) returned non-zero");
				atomic_fetch_add(&t->waits_released, 1);
			} else {
				dispatch_group_notify_f(t->g, t->q, t, r_notify);
				while (sem_wait(&t->notified) && errno == EINTR) {}
			}
		} else {                       /* C */
			while (!atomic_load(&t->b_entered)) { __asm__ __volatile__("pause"); }
			if (vf_rnd_n(&c->rng, 2)) while (!atomic_load(&t->a_left)) { __asm__ __volatile__("pause"); }
			if (vf_rnd_n(&c->rng, 2)) vf_spin_ns(vf_rnd_n(&c->rng, 2000));
			dispatch_group_leave(t->g);
		}
		vf_progress();
		pthread_barrier_wait(&t->bar);
		if (c->role == 0) {
			/* quiescent point: everybody is between rounds */
			atomic_store(&t->a_entered, 0); atomic_store(&t->a_left, 0); atomic_store(&t->b_entered, 0);
			atomic_store(&t->round_kind, (int)vf_rnd_n(&c->rng, 3) == 0);
		}
	}
	return NULL;
}
static void run_rounds_trial(int idx)
{
	rtrial_t *t = calloc(1, sizeof(*t));
	vf_rng_t r;
	vf_rng_seed(&r, vf_opts.seed, (uint64_t)idx * 4831 + 101);
	vf_profile_t prof;
	vf_perturb_draw(&r, &prof);
	t->g = dispatch_group_create();
	t->q = vf_rnd_n(&r, 2) ? dispatch_queue_create("vf.group.rounds", DISPATCH_QUEUE_SERIAL) : dispatch_get_global_queue(0, 0);
	t->rounds = (int)((long)(prof.kind == VF_P_OFF ? 60000 : 8000) * vf_opts.scale / 100) + 1;
	pthread_barrier_init(&t->bar, NULL, 3);
	sem_init(&t->notified, 0, 0);
	rthr_t th[3];
	vf_watch_begin("group:rounds:waiter-or-notification-left-behind-at-zero", 0);
	for (int i = 0; i < 3; i++) { th[i].t = t; th[i].role = i; vf_rng_seed(&th[i].rng, vf_opts.seed ^ (uint64_t)idx, 900 + (uint64_t)i); pthread_create(&th[i].th, NULL, r_thread, &th[i]); }
	for (int i = 0; i < 3; i++) pthread_join(th[i].th, NULL);
	vf_watch_end();
	vf_perturb_off();
	vf_count("rounds", (uint64_t)t->rounds);
	vf_count("round_waits_released", atomic_load(&t->waits_released));
	vf_count("round_notifies_fired", atomic_load(&t->notifies_fired));
	vf_count("items", (uint64_t)t->rounds);
	vf_emit("trial", "\"n\":%d,\"sig\":\"grp-rounds-%d-%d\",\"nontrivial\":true,\"sample\":{\"trial\":%d,\"mode\":\"rounds\",\"rounds\":%d,\"forever_waits_released\":%llu,\"notifications_fired\":%llu,\"perturb\":\"%s\"}",
			t->rounds, prof.kind, idx % 8, idx, t->rounds, (unsigned long long)atomic_load(&t->waits_released), (unsigned long long)atomic_load(&t->notifies_fired), prof.desc);
	dispatch_release(t->g);
	pthread_barrier_destroy(&t->bar); sem_destroy(&t->notified);
	free(t);
}

int main(int argc, char **argv)
{
	vf_init(argc, argv, "h_group");
	for (int i = 0; i < vf_opts.trials; i++) {
		if (!strcmp(vf_opts.mode, "rounds")) run_rounds_trial(vf_opts.first_trial + i);
		else run_trial(vf_opts.first_trial + i);
	}
	return vf_finish();
}
