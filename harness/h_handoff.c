/*
 * h_handoff.c — C05 visibility edges other than the submission call itself:
 *   item -> dispatch_group_wait returner, item -> group notify block,
 *   explicit enter/leave -> waiter, write -> semaphore_signal -> semaphore_wait returner,
 *   dispatch_once initialiser -> every returner, item -> next item of a serial queue.
 * All payloads are plain (non-atomic) memory; the harness adds no synchronisation of
 * its own on these edges, so under the tsan flavor a hand-off the library does not
 * order shows up as a data race between two harness frames.
 */
#include "vf_common.h"
#include <dispatch/dispatch.h>
#include <dispatch/private.h>
#include <sched.h>

typedef struct { uint64_t a, b, c; int tid; } rec_t;   /* c = a ^ ~b */
static inline void rec_write(rec_t *r, uint64_t v) { r->a = v; r->b = v * 0x9e3779b97f4a7c15ull + 1; r->c = r->a ^ ~r->b; r->tid = vf_gettid(); }
static inline bool rec_ok(const rec_t *r, uint64_t v) { return r->a == v && r->b == v * 0x9e3779b97f4a7c15ull + 1 && r->c == (r->a ^ ~r->b); }

static _Atomic uint64_t g_edges, g_cross;
static void edge_checked(const rec_t *r) {
	atomic_fetch_add_explicit(&g_edges, 1, memory_order_relaxed);
	if (r->tid != vf_gettid()) atomic_fetch_add_explicit(&g_cross, 1, memory_order_relaxed);
}

static dispatch_queue_t pick_queue(vf_rng_t *r, dispatch_queue_t ser, dispatch_queue_t conc)
{
	uint32_t c = vf_rnd_n(r, 4);
	return c == 0 ? ser : c == 1 ? conc : dispatch_get_global_queue(c == 2 ? DISPATCH_QUEUE_PRIORITY_DEFAULT : DISPATCH_QUEUE_PRIORITY_LOW, 0);
}

/* ---------------- group edges ---------------- */
typedef struct { rec_t *recs; int n; uint64_t salt; dispatch_semaphore_t notified; _Atomic int notify_runs; } gctx_t;
typedef struct { gctx_t *g; int i; } gitem_t;
static void g_item(void *ctx)
{
	gitem_t *gi = ctx;
	if ((gi->i & 3) == 0) sched_yield();
	rec_write(&gi->g->recs[gi->i], gi->g->salt + (uint64_t)gi->i);
	vf_progress();
}
static void g_notify(void *ctx)
{
	gctx_t *g = ctx;
	if (atomic_fetch_add(&g->notify_runs, 1)) vf_violation("C07:notify-twice", "group notify block ran twice");
	for (int i = 0; i < g->n; i++) {
		if (!rec_ok(&g->recs[i], g->salt + (uint64_t)i)) {
			vf_violation("C05:group-notify-edge-not-visible", "notify block does not see the record written by group item %d", i);
			break;
		}
		edge_checked(&g->recs[i]);
	}
	dispatch_semaphore_signal(g->notified);
}
typedef struct { gctx_t *g; dispatch_group_t grp; int lo, hi; } gleaver_t;
static void *g_leaver(void *arg)
{
	gleaver_t *l = arg;
	for (int i = l->lo; i < l->hi; i++) {
		rec_write(&l->g->recs[i], l->g->salt + (uint64_t)i);
		dispatch_group_leave(l->grp);
	}
	return NULL;
}

static void group_round(vf_rng_t *r, dispatch_queue_t ser, dispatch_queue_t conc)
{
	gctx_t g;
	int n_async = (int)vf_rnd_range(r, 1, 40), n_manual = (int)vf_rnd_range(r, 0, 16);
	g.n = n_async + n_manual;
	g.recs = calloc((size_t)g.n, sizeof(rec_t));
	g.salt = vf_rnd(r);
	g.notified = dispatch_semaphore_create(0);
	atomic_store(&g.notify_runs, 0);
	gitem_t *gi = calloc((size_t)g.n, sizeof(*gi));
	dispatch_group_t grp = dispatch_group_create();
	for (int i = 0; i < n_manual; i++) dispatch_group_enter(grp);
	for (int i = 0; i < n_async; i++) {
		gi[i].g = &g; gi[i].i = i;
		dispatch_queue_t q = pick_queue(r, ser, conc);
		if (vf_rnd_n(r, 2)) dispatch_group_async_f(grp, q, &gi[i], g_item);
		else { gitem_t *p = &gi[i]; dispatch_group_async(grp, q, ^{ g_item(p); }); }
	}
	gleaver_t l = { &g, grp, n_async, g.n };
	pthread_t th;
	pthread_create(&th, NULL, g_leaver, &l);
	bool with_notify = vf_rnd_n(r, 2);
	if (with_notify) dispatch_group_notify_f(grp, pick_queue(r, ser, conc), &g, g_notify);
	dispatch_group_wait(grp, DISPATCH_TIME_FOREVER);
	for (int i = 0; i < g.n; i++) {
		if (!rec_ok(&g.recs[i], g.salt + (uint64_t)i)) {
			vf_violation("C05:group-wait-edge-not-visible", "dispatch_group_wait returned 0 but the record of %s %d is not visible", i < n_async ? "group item" : "manual leave", i);
			break;
		}
		edge_checked(&g.recs[i]);
	}
	if (with_notify) dispatch_semaphore_wait(g.notified, DISPATCH_TIME_FOREVER);
	pthread_join(th, NULL);
	dispatch_release(grp);
	dispatch_release(g.notified);
	free(gi); free(g.recs);
	vf_count("group_rounds", 1);
}

/* ---------------- semaphore edge ---------------- */
typedef struct { dispatch_semaphore_t s; rec_t *slots; int n; uint64_t salt; } sctx_t;
static void *s_producer(void *arg)
{
	sctx_t *s = arg;
	for (int i = 0; i < s->n; i++) {
		rec_write(&s->slots[i], s->salt + (uint64_t)i);
		dispatch_semaphore_signal(s->s);
		if ((i & 7) == 0) sched_yield();
	}
	return NULL;
}
static void sem_round(vf_rng_t *r)
{
	sctx_t s;
	s.n = (int)vf_rnd_range(r, 50, 400);
	s.slots = calloc((size_t)s.n, sizeof(rec_t));
	s.salt = vf_rnd(r);
	s.s = dispatch_semaphore_create(0);
	pthread_t th;
	pthread_create(&th, NULL, s_producer, &s);
	for (int k = 0; k < s.n; k++) {
		/* k-th successful wait: at least k+1 signals were issued, so slots 0..k were written before them */
		if (vf_rnd_n(r, 4) == 0) {
			while (dispatch_semaphore_wait(s.s, dispatch_time(DISPATCH_TIME_NOW, 20000)) != 0) {}
		} else {
			dispatch_semaphore_wait(s.s, DISPATCH_TIME_FOREVER);
		}
		if (!rec_ok(&s.slots[k], s.salt + (uint64_t)k)) {
			vf_violation("C05:semaphore-edge-not-visible", "wait #%d satisfied but the record written before signal #%d is not visible", k, k);
			break;
		}
		edge_checked(&s.slots[k]);
		vf_progress();
	}
	pthread_join(th, NULL);
	dispatch_release(s.s);
	free(s.slots);
	vf_count("semaphore_rounds", 1);
}

/* ---------------- once edge ---------------- */
/* the exported function dispatch_once_f — `(dispatch_once_f)(...)` does not reach it: once.h defines an
 * object-like macro of that name that expands to the inline fast path */
#pragma push_macro("dispatch_once_f")
#undef dispatch_once_f
static void vf_once_function(dispatch_once_t *p, void *c, dispatch_function_t f) { dispatch_once_f(p, c, f); }
#pragma pop_macro("dispatch_once_f")

typedef struct { dispatch_once_t *preds; rec_t *recs; int n; uint64_t salt; pthread_barrier_t bar; _Atomic int inits; int use_macro; } octx_t;
typedef struct { octx_t *o; int i; } oinit_t;
static void o_init(void *ctx)
{
	oinit_t *oi = ctx;
	atomic_fetch_add_explicit(&oi->o->inits, 1, memory_order_relaxed);
	if ((oi->i & 3) == 0) sched_yield();
	rec_write(&oi->o->recs[oi->i], oi->o->salt + (uint64_t)oi->i);
}
static void *o_caller(void *arg)
{
	octx_t *o = arg;
	pthread_barrier_wait(&o->bar);
	for (int i = 0; i < o->n; i++) {
		oinit_t oi = { o, i };
		if (o->use_macro) { dispatch_once_f(&o->preds[i], &oi, o_init); vf_tso_acquire(&o->preds[i]); }
		else vf_once_function(&o->preds[i], &oi, o_init);
		if (!rec_ok(&o->recs[i], o->salt + (uint64_t)i)) {
			vf_violation("C05:once-edge-not-visible", "dispatch_once returned but the initialiser's record %d is not visible", i);
			break;
		}
		edge_checked(&o->recs[i]);
	}
	vf_progress();
	return NULL;
}
static void once_round(vf_rng_t *r)
{
	octx_t o;
	o.n = (int)vf_rnd_range(r, 100, 1000);
	o.preds = calloc((size_t)o.n, sizeof(dispatch_once_t));
	o.recs = calloc((size_t)o.n, sizeof(rec_t));
	o.salt = vf_rnd(r);
	o.use_macro = (int)vf_rnd_n(r, 2);
	atomic_store(&o.inits, 0);
	int nt = (int)vf_rnd_range(r, 2, 8);
	pthread_barrier_init(&o.bar, NULL, (unsigned)nt);
	pthread_t th[8];
	for (int i = 0; i < nt; i++) pthread_create(&th[i], NULL, o_caller, &o);
	for (int i = 0; i < nt; i++) pthread_join(th[i], NULL);
	if (atomic_load(&o.inits) != o.n) vf_violation("C09:init-count", "%d predicates, %d initialiser runs", o.n, atomic_load(&o.inits));
	pthread_barrier_destroy(&o.bar);
	free(o.preds); free(o.recs);
	vf_count("once_rounds", 1);
}

/* ---------------- serial item-to-item edge ---------------- */
typedef struct { rec_t rec; uint64_t n; uint64_t salt; _Atomic uint64_t done; } cctx_t;
static void c_item(void *ctx)
{
	cctx_t *c = ctx;
	if (c->n && !rec_ok(&c->rec, c->salt + c->n - 1)) vf_violation("C05:chain-not-visible", "serial queue item %llu does not see its predecessor's record", (unsigned long long)c->n);
	if (c->n) edge_checked(&c->rec);
	rec_write(&c->rec, c->salt + c->n);
	c->n++;
	vf_progress();
	atomic_fetch_add_explicit(&c->done, 1, memory_order_release);
}
typedef struct { cctx_t *c; dispatch_queue_t q; int n; vf_rng_t rng; } csub_t;
static void *c_submitter(void *arg)
{
	csub_t *s = arg;
	for (int i = 0; i < s->n; i++) {
		uint32_t k = vf_rnd_n(&s->rng, 4);
		if (k == 0) dispatch_sync_f(s->q, s->c, c_item);
		else if (k == 1) dispatch_async_and_wait_f(s->q, s->c, c_item);
		else dispatch_async_f(s->q, s->c, c_item);
	}
	return NULL;
}
static void chain_round(vf_rng_t *r, dispatch_queue_t conc)
{
	cctx_t c; memset(&c, 0, sizeof(c));
	c.salt = vf_rnd(r);
	/* sometimes a serial queue targeting a concurrent queue: drained by varying threads */
	dispatch_queue_t q = dispatch_queue_create_with_target("vf.handoff.chain", DISPATCH_QUEUE_SERIAL, vf_rnd_n(r, 2) ? conc : NULL);
	int nt = (int)vf_rnd_range(r, 2, 6), per = (int)vf_rnd_range(r, 100, 600);
	csub_t s[6]; pthread_t th[6];
	for (int i = 0; i < nt; i++) { s[i].c = &c; s[i].q = q; s[i].n = per; vf_rng_seed(&s[i].rng, c.salt, (uint64_t)i); pthread_create(&th[i], NULL, c_submitter, &s[i]); }
	for (int i = 0; i < nt; i++) pthread_join(th[i], NULL);
	vf_wait_counter(&c.done, (uint64_t)nt * (uint64_t)per, "handoff:chain");
	if (c.n != (uint64_t)nt * (uint64_t)per) vf_violation("C05:chain-count", "plain chain counter %llu after %d items", (unsigned long long)c.n, nt * per);
	dispatch_release(q);
	vf_count("chain_rounds", 1);
}

int main(int argc, char **argv)
{
	vf_init(argc, argv, "h_handoff");
	for (int tr = 0; tr < vf_opts.trials; tr++) {
		int idx = vf_opts.first_trial + tr;
		vf_rng_t r;
		vf_rng_seed(&r, vf_opts.seed, (uint64_t)idx * 2971 + 29);
		vf_profile_t prof;
		vf_perturb_draw(&r, &prof);
		dispatch_queue_t ser = dispatch_queue_create("vf.handoff.serial", DISPATCH_QUEUE_SERIAL);
		dispatch_queue_t conc = dispatch_queue_create("vf.handoff.conc", DISPATCH_QUEUE_CONCURRENT);
		uint64_t e0 = atomic_load(&g_edges), c0 = atomic_load(&g_cross);
		int rounds = (int)((long)12 * vf_opts.scale / 100) + 1;
		vf_watch_begin("handoff", 0);
		for (int k = 0; k < rounds; k++) {
			group_round(&r, ser, conc);
			if (k % 3 == 0) sem_round(&r);
			if (k % 3 == 1) once_round(&r);
			if (k % 3 == 2) chain_round(&r, conc);
		}
		vf_watch_end();
		vf_perturb_off();
		dispatch_release(ser); dispatch_release(conc);
		uint64_t e = atomic_load(&g_edges) - e0, c = atomic_load(&g_cross) - c0;
		vf_count("handoff_edges_checked", e);
		vf_count("handoff_cross_thread", c);
		vf_count("items", e);
		vf_emit("trial", "\"n\":1,\"sig\":\"ho%d-%d-%d\",\"nontrivial\":%s,\"sample\":{\"trial\":%d,\"edges_checked\":%llu,\"cross_thread\":%llu,\"perturb\":\"%s\",\"edges\":\"group_wait,group_notify,enter/leave,semaphore,once,serial-chain\"}",
				prof.kind, vf_log2_bucket(e), vf_log2_bucket(c), c ? "true" : "false", idx, (unsigned long long)e, (unsigned long long)c, prof.desc);
	}
	return vf_finish();
}
