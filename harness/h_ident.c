/*
 * h_ident.c — C18: queue identity, queue-specific data, attributes, global queues.
 *  (a) dispatch_get_specific / dispatch_queue_get_specific against an expected-value model
 *      over random hierarchies and every submission path
 *  (b) dispatch_assert_queue / _not / _barrier: one scenario per child process, expected =
 *      returns normally vs dies by the library's trap
 *  (c) ALL attribute table entries, composed from the public constructors in several
 *      orders: label, QoS class + relative priority, width, root target (QoS, overcommit),
 *      initial activity
 *  (d) dispatch_get_global_queue for every documented identifier x flags and all other
 *      small integers
 */
#include "vf_common.h"
#include <dispatch/dispatch.h>
#include <dispatch/private.h>
#include <sched.h>
#include <sys/wait.h>
#include <sys/resource.h>

/* ------------------------------------------------------------------ (d) */
static const char *qos_label(unsigned cls)
{
	switch (cls) {
	case QOS_CLASS_USER_INTERACTIVE: return "user-interactive";
	case QOS_CLASS_USER_INITIATED: return "user-initiated";
	case QOS_CLASS_DEFAULT: return "default";
	case QOS_CLASS_UTILITY: return "utility";
	case QOS_CLASS_BACKGROUND: return "background";
	case QOS_CLASS_MAINTENANCE: return "maintenance";
	default: return "?";
	}
}
/* classes this platform supports: USER_INTERACTIVE is served by USER_INITIATED and
 * MAINTENANCE by BACKGROUND when there is no QoS-aware workqueue (Linux) */
static unsigned clamp_class(unsigned cls)
{
	if (cls == QOS_CLASS_USER_INTERACTIVE) return QOS_CLASS_USER_INITIATED;
	if (cls == QOS_CLASS_MAINTENANCE) return QOS_CLASS_BACKGROUND;
	return cls;
}

static void check_global_queues(void)
{
	struct { long id; unsigned cls; const char *name; } doc[] = {
		{ DISPATCH_QUEUE_PRIORITY_HIGH, QOS_CLASS_USER_INITIATED, "DISPATCH_QUEUE_PRIORITY_HIGH" },
		{ DISPATCH_QUEUE_PRIORITY_DEFAULT, QOS_CLASS_DEFAULT, "DISPATCH_QUEUE_PRIORITY_DEFAULT" },
		{ DISPATCH_QUEUE_PRIORITY_LOW, QOS_CLASS_UTILITY, "DISPATCH_QUEUE_PRIORITY_LOW" },
		{ DISPATCH_QUEUE_PRIORITY_BACKGROUND, QOS_CLASS_BACKGROUND, "DISPATCH_QUEUE_PRIORITY_BACKGROUND" },
		{ QOS_CLASS_USER_INTERACTIVE, QOS_CLASS_USER_INTERACTIVE, "QOS_CLASS_USER_INTERACTIVE" },
		{ QOS_CLASS_USER_INITIATED, QOS_CLASS_USER_INITIATED, "QOS_CLASS_USER_INITIATED" },
		{ QOS_CLASS_DEFAULT, QOS_CLASS_DEFAULT, "QOS_CLASS_DEFAULT" },
		{ QOS_CLASS_UTILITY, QOS_CLASS_UTILITY, "QOS_CLASS_UTILITY" },
		{ QOS_CLASS_BACKGROUND, QOS_CLASS_BACKGROUND, "QOS_CLASS_BACKGROUND" },
	};
	int nd = (int)(sizeof(doc) / sizeof(doc[0]));
	dispatch_queue_t got[16][2];
	for (int i = 0; i < nd; i++) {
		for (int oc = 0; oc < 2; oc++) {
			dispatch_queue_t q = dispatch_get_global_queue(doc[i].id, oc ? DISPATCH_QUEUE_OVERCOMMIT : 0);
			got[i][oc] = q;
			vf_count("global_queue_lookups", 1);
			char key[160];
			if (!q) {
				snprintf(key, sizeof(key), "C18:global_queue:%s:returns-NULL", doc[i].name);
				vf_violation(key, "dispatch_get_global_queue(%s, %s) returned NULL", doc[i].name, oc ? "OVERCOMMIT" : "0");
				continue;
			}
			const char *l = dispatch_queue_get_label(q);
			char e1[96], e2[96];
			snprintf(e1, sizeof(e1), "com.apple.root.%s-qos%s", qos_label(doc[i].cls), oc ? ".overcommit" : "");
			snprintf(e2, sizeof(e2), "com.apple.root.%s-qos%s", qos_label(clamp_class(doc[i].cls)), oc ? ".overcommit" : "");
			if (strcmp(l, e1) && strcmp(l, e2)) {
				snprintf(key, sizeof(key), "C18:global_queue:%s:wrong-class", doc[i].name);
				vf_violation(key, "dispatch_get_global_queue(%s = %ld, %s) returned the queue '%s'; the documented class is %s (queue '%s')", doc[i].name, doc[i].id,
						oc ? "OVERCOMMIT" : "0", l, qos_label(doc[i].cls), e1);
			}
		}
	}
	/* equal classes -> same queue, different supported classes -> different queues */
	for (int i = 0; i < nd; i++) for (int j = i + 1; j < nd; j++) for (int oc = 0; oc < 2; oc++) {
		if (!got[i][oc] || !got[j][oc]) continue;
		bool same_cls = clamp_class(doc[i].cls) == clamp_class(doc[j].cls);
		bool strictly_same = doc[i].cls == doc[j].cls;
		bool same_q = got[i][oc] == got[j][oc];
		if (strictly_same && !same_q) vf_violation("C18:global_queue:equal-classes-different-queues", "%s and %s denote the same class but map to different queues", doc[i].name, doc[j].name);
		if (!same_cls && same_q) {
			char key[160]; snprintf(key, sizeof(key), "C18:global_queue:different-classes-same-queue:%s+%s", doc[i].name, doc[j].name);
			vf_violation(key, "%s and %s denote different supported classes but map to the same queue '%s'", doc[i].name, doc[j].name, dispatch_queue_get_label(got[i][oc]));
		}
	}
	/* overcommit and non-overcommit queues differ */
	for (int i = 0; i < nd; i++) if (got[i][0] && got[i][0] == got[i][1]) vf_violation("C18:global_queue:overcommit-same-queue", "%s: the overcommit and the regular global queue are the same object", doc[i].name);
	/* undefined flags */
	for (unsigned long fl = 1; fl < 64; fl++) {
		if (fl == DISPATCH_QUEUE_OVERCOMMIT) continue;
		if (fl & ~(unsigned long)DISPATCH_QUEUE_OVERCOMMIT) {
			if (dispatch_get_global_queue(0, fl)) { vf_violation("C18:global_queue:undefined-flags-accepted", "dispatch_get_global_queue(0, %#lx) returned a queue", fl); break; }
			vf_count("global_queue_lookups", 1);
		}
	}
	/* every other small integer is not an identifier */
	int bad = 0;
	for (long id = -40000; id <= 40000; id++) {
		int documented = 0;
		for (int i = 0; i < nd; i++) if (doc[i].id == id) documented = 1;
		if (id == QOS_CLASS_MAINTENANCE || id == QOS_CLASS_UNSPECIFIED) continue; /* private / "unspecified": not judged */
		if (id == INT8_MIN /* DISPATCH_QUEUE_PRIORITY_NON_INTERACTIVE (private header) */) continue;
		if (documented) continue;
		vf_count("global_queue_lookups", 1);
		if (dispatch_get_global_queue(id, 0) && bad++ < 3) {
			vf_violation("C18:global_queue:undefined-identifier-accepted", "dispatch_get_global_queue(%ld, 0) returned the queue '%s' for an undefined identifier", id,
					dispatch_queue_get_label(dispatch_get_global_queue(id, 0)));
		}
	}
	vf_count("global_queue_identifiers_exhaustive", 80001);
}

/* ------------------------------------------------------------------ (c) */
static const unsigned attr_qos[] = { QOS_CLASS_UNSPECIFIED, QOS_CLASS_MAINTENANCE, QOS_CLASS_BACKGROUND, QOS_CLASS_UTILITY, QOS_CLASS_DEFAULT, QOS_CLASS_USER_INITIATED, QOS_CLASS_USER_INTERACTIVE };
typedef struct { int qi, prio, oc, freq, conc, inactive; } atuple_t;

static dispatch_queue_attr_t compose(const atuple_t *a, const int order[5])
{
	dispatch_queue_attr_t attr = a->conc ? DISPATCH_QUEUE_CONCURRENT : DISPATCH_QUEUE_SERIAL;
	for (int k = 0; k < 5; k++) {
		switch (order[k]) {
		case 0: if (a->qi) attr = dispatch_queue_attr_make_with_qos_class(attr, attr_qos[a->qi], -a->prio); break;
		case 1: if (a->oc) attr = dispatch_queue_attr_make_with_overcommit(attr, a->oc == 1); break;
		case 2: if (a->freq) attr = dispatch_queue_attr_make_with_autorelease_frequency(attr, a->freq == 1 ? DISPATCH_AUTORELEASE_FREQUENCY_WORK_ITEM : DISPATCH_AUTORELEASE_FREQUENCY_NEVER); break;
		case 3: if (a->inactive) attr = dispatch_queue_attr_make_initially_inactive(attr); break;
		default: break;
		}
	}
	return attr;
}

static _Atomic int g_probe_ran;
static void probe_item(void *ctx) { atomic_fetch_add((_Atomic int *)ctx, 1); }

static uint16_t q_width(dispatch_queue_t q)
{
	uint16_t w;
	memcpy(&w, (char *)q + dispatch_queue_offsets.dqo_width, sizeof(w));
	return w;
}
static dispatch_queue_t q_target(dispatch_queue_t q)
{
	dispatch_queue_t t;
	memcpy(&t, (char *)q + dispatch_queue_offsets.dqo_target_queue, sizeof(t));
	return t;
}

static void check_attributes(vf_rng_t *r, int stride, int phase)
{
	int idx = 0;
	dispatch_queue_t side = dispatch_queue_create("vf.ident.side", DISPATCH_QUEUE_SERIAL);
	uint64_t n = 0;
	for (int qi = 0; qi < 7; qi++) for (int prio = 0; prio < 16; prio++) for (int oc = 0; oc < 3; oc++) for (int freq = 0; freq < 3; freq++)
	for (int conc = 0; conc < 2; conc++) for (int inactive = 0; inactive < 2; inactive++) {
		if (idx++ % stride != phase) continue;
		if (qi == 0 && prio) continue;   /* relative priority only has a meaning together with a class: counted with prio 0 */
		atuple_t a = { qi, prio, oc, freq, conc, inactive };
		char desc[160];
		snprintf(desc, sizeof(desc), "{qos %#x, relpri %d, overcommit %s, autorelease %d, %s, %s}", attr_qos[qi], -prio, oc == 0 ? "unspecified" : oc == 1 ? "on" : "off",
				freq, conc ? "concurrent" : "serial", inactive ? "initially inactive" : "active");
		dispatch_queue_attr_t first = NULL;
		for (int o = 0; o < 3; o++) {
			int order[5] = { 0, 1, 2, 3, 4 };
			for (int i = 4; i > 0; i--) { int j = (int)vf_rnd_n(r, (uint32_t)i + 1), x = order[i]; order[i] = order[j]; order[j] = x; }
			dispatch_queue_attr_t attr = compose(&a, order);
			if (o == 0) first = attr;
			char label[64]; snprintf(label, sizeof(label), "vf.attr.%d.%d", idx, o);
			dispatch_queue_t q = dispatch_queue_create(label, attr);
			if (!q) { vf_violation("C18:attr:create-failed", "dispatch_queue_create failed for %s", desc); continue; }
			n++;
			const char *l = dispatch_queue_get_label(q);
			if (!l || strcmp(l, label)) vf_violation("C18:attr:label", "queue created as '%s' reports label '%s'", label, l ? l : "(null)");
			int relpri = 99;
			unsigned qc = dispatch_queue_get_qos_class(q, &relpri);
			unsigned want = clamp_class(attr_qos[qi]);
			if (qc != want) {
				char key[96]; snprintf(key, sizeof(key), "C18:attr:qos-class:requested-%#x", attr_qos[qi]);
				vf_violation(key, "queue from %s (constructor order %d%d%d%d%d) reports QoS class %#x, expected %#x", desc, order[0], order[1], order[2], order[3], order[4], qc, want);
			}
			if (relpri != (qi ? -prio : 0)) vf_violation("C18:attr:relative-priority", "queue from %s reports relative priority %d", desc, relpri);
			uint16_t w = q_width(q);
			if (conc ? (w < 2) : (w != 1)) vf_violation(conc ? "C18:attr:concurrent-queue-has-width-1" : "C18:attr:serial-queue-has-width>1", "queue from %s has width %u", desc, w);
			dispatch_queue_t tq = q_target(q);
			const char *tl = tq ? dispatch_queue_get_label(tq) : NULL;
			char want_t[96];
			bool want_oc = oc == 1 || (oc == 0 && !conc);
			snprintf(want_t, sizeof(want_t), "com.apple.root.%s-qos%s", qos_label(qi ? want : QOS_CLASS_DEFAULT), want_oc ? ".overcommit" : "");
			if (!tl || strcmp(tl, want_t)) {
				vf_violation(want_oc ? "C18:attr:root-target:expected-overcommit" : "C18:attr:root-target:expected-non-overcommit", "queue from %s targets '%s', expected '%s'", desc, tl ? tl : "(null)", want_t);
			}
			/* initial activity */
			_Atomic int ran = 0;
			dispatch_async_f(q, (void *)&ran, probe_item);
			if (inactive) {
				dispatch_sync_f(side, (void *)&g_probe_ran, probe_item);   /* forced round trip through another queue */
				if (o == 0 && (idx % 16) == 0) { struct timespec ts = { 0, 200000 }; nanosleep(&ts, NULL); }
				if (atomic_load(&ran)) vf_violation("C18:attr:initially-inactive-queue-ran-item", "queue from %s ran an item before dispatch_activate", desc);
				dispatch_activate(q);
			}
			dispatch_barrier_sync_f(q, (void *)&g_probe_ran, probe_item);
			if (atomic_load(&ran) != 1) vf_violation("C18:attr:item-not-run", "queue from %s: item ran %d times after activation", desc, atomic_load(&ran));
			if (o > 0 && attr != first) vf_count("attr_pointer_differs_between_orders", 1);
			dispatch_release(q);
		}
	}
	/* invalid arguments leave the attribute unchanged */
	dispatch_queue_attr_t base = dispatch_queue_attr_make_with_qos_class(DISPATCH_QUEUE_CONCURRENT, QOS_CLASS_UTILITY, -3);
	if (dispatch_queue_attr_make_with_qos_class(base, 0x13, 0) != base) vf_violation("C18:attr:invalid-qos-class-changes-attribute", "make_with_qos_class(attr, 0x13, 0) did not return attr unchanged");
	if (dispatch_queue_attr_make_with_qos_class(base, QOS_CLASS_DEFAULT, 1) != base) vf_violation("C18:attr:invalid-relpri-changes-attribute", "make_with_qos_class(attr, DEFAULT, +1) did not return attr unchanged");
	if (dispatch_queue_attr_make_with_qos_class(base, QOS_CLASS_DEFAULT, -16) != base) vf_violation("C18:attr:invalid-relpri-changes-attribute", "make_with_qos_class(attr, DEFAULT, -16) did not return attr unchanged");
	dispatch_release(side);
	vf_count("attr_queues_checked", n);
}

/* ------------------------------------------------------------------ (a) */
#define NKEYS 5
static char g_keys[NKEYS];
typedef struct { dispatch_queue_t q; int target; void *vals[NKEYS]; int conc; int workloop; } inode_t;
typedef struct { inode_t n[8]; int nn; _Atomic uint64_t checks, dtors; uint64_t salt; } itrial_t;
typedef struct { itrial_t *t; int qi; const char *path; _Atomic int *done; } iitem_t;

static void *expect_value(itrial_t *t, int qi, int k)
{
	for (int i = qi; i >= 0; i = t->n[i].target) if (t->n[i].vals[k]) return t->n[i].vals[k];
	return NULL;
}
static int chain_contains(itrial_t *t, int a, int b)
{
	for (int i = a; i >= 0; i = t->n[i].target) if (i == b) return 1;
	return 0;
}
static void spec_dtor(void *v) { itrial_t *t = (itrial_t *)((uintptr_t)v & ~(uintptr_t)0xfff); atomic_fetch_add(&t->dtors, 1); }

static void check_specifics(itrial_t *t, int qi, const char *path)
{
	for (int k = 0; k < NKEYS; k++) {
		void *got = dispatch_get_specific(&g_keys[k]);
		void *want = expect_value(t, qi, k);
		atomic_fetch_add_explicit(&t->checks, 1, memory_order_relaxed);
		if (got != want) {
			char key[128]; snprintf(key, sizeof(key), "C18:get_specific:%s:%s", path, want ? (got ? "wrong-value" : "returns-NULL") : "returns-value-from-outside-the-chain");
			int depth = 0; for (int i = qi; i >= 0; i = t->n[i].target) depth++;
			vf_violation(key, "dispatch_get_specific(key %d) inside an item reached through %s on a queue with a target chain of length %d returned %p, expected %p (value on the nearest queue of the chain)", k, path, depth, got, want);
		}
	}
}
static void iitem(void *ctx) { iitem_t *it = ctx; check_specifics(it->t, it->qi, it->path); if (it->done) atomic_fetch_add(it->done, 1); vf_progress(); }
static void iapply(void *ctx, size_t i) { (void)i; iitem(ctx); }
static void ifinal(void *ctx) { iitem_t *it = ctx; check_specifics(it->t, it->qi, it->path); atomic_fetch_add(it->done, 1); }

static void run_specific_trial(vf_rng_t *r)
{
	/* 4096-aligned trial so that a value pointer identifies its trial in the destructor */
	itrial_t *t;
	if (posix_memalign((void **)&t, 4096, sizeof(*t) < 4096 ? 4096 : sizeof(*t))) vf_fail("posix_memalign");
	memset(t, 0, sizeof(*t));
	t->nn = (int)vf_rnd_range(r, 1, 6);
	uint64_t nvals = 0;
	for (int i = 0; i < t->nn; i++) {
		inode_t *n = &t->n[i];
		n->conc = (int)vf_rnd_n(r, 2);
		n->target = i == 0 ? -1 : (vf_rnd_n(r, 4) == 0 ? -1 : (int)vf_rnd_n(r, (uint32_t)i));
		int depth = 0; for (int k = n->target; k >= 0; k = t->n[k].target) depth++;
		if (depth >= 3) n->target = -1;
		char label[32]; snprintf(label, sizeof(label), "vf.ident.n%d", i);
		/* a hierarchy may also end in a workloop, which carries queue-specific data like any queue */
		n->workloop = (n->target < 0 && vf_rnd_n(r, 3) == 0);
		if (n->workloop) n->q = (dispatch_queue_t)dispatch_workloop_create(label);
		else n->q = dispatch_queue_create_with_target(label, n->conc ? DISPATCH_QUEUE_CONCURRENT : DISPATCH_QUEUE_SERIAL, n->target >= 0 ? t->n[n->target].q : NULL);
		for (int k = 0; k < NKEYS; k++) {
			if (vf_rnd_n(r, 3) == 0) {
				n->vals[k] = (void *)((uintptr_t)t + 1 + (uintptr_t)(i * NKEYS + k));
				dispatch_queue_set_specific(n->q, &g_keys[k], n->vals[k], spec_dtor);
				nvals++;
				/* replacing a value runs the destructor of the old one */
				if (vf_rnd_n(r, 4) == 0) { dispatch_queue_set_specific(n->q, &g_keys[k], n->vals[k], spec_dtor); nvals++; }
			}
		}
	}
	_Atomic int done = 0; int expect_done = 0;
	iitem_t items[8][8];
	dispatch_group_t g = dispatch_group_create();
	for (int i = 0; i < t->nn; i++) {
		dispatch_queue_t q = t->n[i].q;
		static const char *paths[] = { "dispatch_async", "dispatch_sync", "dispatch_barrier_async", "dispatch_barrier_sync", "dispatch_async_and_wait", "dispatch_group_async", "dispatch_apply", "source-handler" };
		for (int p = 0; p < 8; p++) { items[i][p].t = t; items[i][p].qi = i; items[i][p].path = paths[p]; items[i][p].done = &done; }
		dispatch_async_f(q, &items[i][0], iitem); expect_done++;
		dispatch_async_and_wait_f(q, &items[i][4], iitem); expect_done++;
		dispatch_group_async_f(g, q, &items[i][5], iitem); expect_done++;
		if (!t->n[i].workloop) {   /* dispatch_sync / barriers / apply are not defined on a workloop itself */
			dispatch_sync_f(q, &items[i][1], iitem); expect_done++;
			dispatch_barrier_async_f(q, &items[i][2], iitem); expect_done++;
			dispatch_barrier_sync_f(q, &items[i][3], iitem); expect_done++;
			dispatch_apply_f(3, q, &items[i][6], iapply); expect_done += 3;
		}
		/* dispatch_queue_get_specific reads the queue itself only */
		for (int k = 0; k < NKEYS; k++) if (dispatch_queue_get_specific(q, &g_keys[k]) != t->n[i].vals[k]) vf_violation("C18:queue_get_specific", "dispatch_queue_get_specific returned a value that was not set on that queue");
		/* source handler targeting the queue */
		dispatch_source_t ds = dispatch_source_create(DISPATCH_SOURCE_TYPE_DATA_ADD, 0, 0, q);
		dispatch_set_context(ds, &items[i][7]);
		dispatch_source_set_event_handler_f(ds, iitem);
		dispatch_activate(ds);
		dispatch_source_merge_data(ds, 1); expect_done++;
		vf_watch_begin("ident:source-handler", 0);
		while (atomic_load(&done) < expect_done) sched_yield();
		vf_watch_end();
		dispatch_source_cancel(ds);
		dispatch_release(ds);
		/* sync from inside an item of ANOTHER queue: the chain is that of the queue submitted to */
		if (i > 0 && !t->n[i].workloop && !t->n[0].workloop && !chain_contains(t, i, 0) && !chain_contains(t, 0, i)) {
			iitem_t *inner = &items[i][1];
			dispatch_sync(t->n[0].q, ^{ dispatch_sync_f(q, inner, iitem); });
			expect_done++;
		}
	}
	dispatch_group_wait(g, DISPATCH_TIME_FOREVER);
	vf_watch_begin("ident:items", 0);
	while (atomic_load(&done) < expect_done) sched_yield();
	vf_watch_end();
	/* finalizers run on the target queue: chain of the target */
	_Atomic int fdone = 0; int nf = 0;
	iitem_t fin[8];
	for (int i = t->nn - 1; i >= 0; i--) {
		fin[i].t = t; fin[i].qi = t->n[i].target; fin[i].path = "finalizer"; fin[i].done = &fdone;
		if (t->n[i].target >= 0) { dispatch_set_context(t->n[i].q, &fin[i]); dispatch_set_finalizer_f(t->n[i].q, ifinal); nf++; }
	}
	for (int i = t->nn - 1; i >= 0; i--) dispatch_release(t->n[i].q);
	vf_watch_begin("ident:finalizers-and-specific-destructors", 0);
	while (atomic_load(&fdone) < nf || atomic_load(&t->dtors) < nvals) sched_yield();
	vf_watch_end();
	struct timespec ts = { 0, 100000 }; nanosleep(&ts, NULL);
	if (atomic_load(&t->dtors) != nvals) vf_violation("C17:queue-specific-destructor-count", "%llu queue-specific values were set, %llu destructor calls", (unsigned long long)nvals, (unsigned long long)atomic_load(&t->dtors));
	dispatch_release(g);
	vf_count("get_specific_checks", atomic_load(&t->checks));
	vf_count("specific_hierarchies", 1);
	for (int i = 0; i < t->nn; i++) if (t->n[i].workloop) { int used = 0; for (int k = 0; k < t->nn; k++) if (t->n[k].target == i) used = 1; if (used) vf_count("specific_hierarchies_on_workloop", 1); }
	vf_count("specific_destructors", nvals);
	/* t leaked on purpose: a late destructor may still touch it */
}

/* ------------------------------------------------------------------ (a') racing setters
 * Several threads make the very first dispatch_queue_set_specific calls on a fresh queue at the
 * same moment (each its own key), then replace and remove values concurrently; every key must end
 * with the last value its (only) writer stored, seen from outside (dispatch_queue_get_specific)
 * and from an item of a queue that targets it (dispatch_get_specific); every replaced or removed
 * value gets its destructor once. */
#define RS_THREADS 4
typedef struct { dispatch_queue_t q; _Atomic int go, ready, readers_stop, reader_items_done; _Atomic uint64_t dtors; void *final[RS_THREADS]; uint64_t set_calls[RS_THREADS]; int id_seq; } rs_t;
typedef struct { rs_t *rs; int id; vf_rng_t rng; } rs_thr_t;
static char rs_keys[RS_THREADS];
static _Atomic(rs_t *) rs_cur;
static void rs_dtor(void *v) { (void)v; rs_t *rs = atomic_load(&rs_cur); if (rs) atomic_fetch_add(&rs->dtors, 1); }
static void *rs_main(void *arg)
{
	rs_thr_t *h = arg; rs_t *rs = h->rs;
	atomic_fetch_add(&rs->ready, 1);
	while (!atomic_load(&rs->go)) { }
	int n = 1 + (int)vf_rnd_n(&h->rng, 6);
	void *last = NULL;
	for (int i = 0; i < n; i++) {
		void *v = (i == n - 1 || vf_rnd_n(&h->rng, 4)) ? (void *)(uintptr_t)(0x1000 * (h->id + 1) + i + 1) : NULL;   /* NULL removes the key */
		dispatch_queue_set_specific(rs->q, &rs_keys[h->id], v, rs_dtor);
		if (v) rs->set_calls[h->id]++;
		last = v;
	}
	rs->final[h->id] = last;
	return NULL;
}
static void rs_check_item(void *ctx)
{
	rs_t *rs = ctx;
	for (int k = 0; k < RS_THREADS; k++) {
		void *got = dispatch_get_specific(&rs_keys[k]);
		if (got != rs->final[k]) vf_violation("C18:get_specific:after-racing-first-setters:wrong-value", "dispatch_get_specific(key %d) from an item of a queue over the queue returned %p, the last value stored for that key is %p", k, got, rs->final[k]);
	}
}
/* readers during the race: items of a queue over the queue look the keys up while the setters store, replace and
 * remove; a lookup returns NULL or one of the values ever stored for that key, and walks no freed entry (ASan) */
static void rs_reader_item(void *ctx)
{
	rs_t *rs = ctx;
	for (int rep = 0; rep < 50 && !atomic_load(&rs->readers_stop); rep++) {
		for (int k = 0; k < RS_THREADS; k++) {
			uintptr_t got = (uintptr_t)dispatch_get_specific(&rs_keys[k]);
			if (got && (got < 0x1000u * (uintptr_t)(k + 1) + 1 || got > 0x1000u * (uintptr_t)(k + 1) + 8))
				vf_violation("C18:get_specific:during-racing-setters:value-of-another-key", "dispatch_get_specific(key %d) returned %#lx, which was never stored for that key", k, (unsigned long)got);
		}
	}
	atomic_fetch_add(&rs->reader_items_done, 1);
}
static void run_racing_setters(vf_rng_t *r)
{
	rs_t *rs = calloc(1, sizeof(*rs));
	atomic_store(&rs_cur, rs);
	rs->q = dispatch_queue_create("vf.ident.racing-setters", vf_rnd_n(r, 2) ? DISPATCH_QUEUE_SERIAL : DISPATCH_QUEUE_CONCURRENT);
	dispatch_queue_t rq = dispatch_queue_create_with_target("vf.ident.racing-setters.readers", DISPATCH_QUEUE_CONCURRENT, rs->q);
	int nreaders = (int)vf_rnd_n(r, 3);
	for (int i = 0; i < nreaders; i++) dispatch_async_f(rq, rs, rs_reader_item);
	pthread_t th[RS_THREADS]; rs_thr_t h[RS_THREADS];
	for (int i = 0; i < RS_THREADS; i++) { h[i].rs = rs; h[i].id = i; vf_rng_seed(&h[i].rng, vf_rnd(r), (uint64_t)i); pthread_create(&th[i], NULL, rs_main, &h[i]); }
	while (atomic_load(&rs->ready) < RS_THREADS) sched_yield();
	atomic_store(&rs->go, 1);
	for (int i = 0; i < RS_THREADS; i++) pthread_join(th[i], NULL);
	atomic_store(&rs->readers_stop, 1);
	while (atomic_load(&rs->reader_items_done) < nreaders) sched_yield();
	dispatch_release(rq);
	uint64_t sets = 0;
	for (int k = 0; k < RS_THREADS; k++) {
		sets += rs->set_calls[k];
		void *got = dispatch_queue_get_specific(rs->q, &rs_keys[k]);
		if (got != rs->final[k]) vf_violation("C18:queue_get_specific:after-racing-first-setters:wrong-value", "%d threads made the first dispatch_queue_set_specific calls on a fresh queue at the same time: key %d reads %p, its writer last stored %p", RS_THREADS, k, got, rs->final[k]);
	}
	dispatch_queue_t child = dispatch_queue_create_with_target("vf.ident.racing-setters.child", DISPATCH_QUEUE_SERIAL, rs->q);
	dispatch_sync_f(child, rs, rs_check_item);
	dispatch_release(child);
	dispatch_release(rs->q);
	/* every non-NULL value stored is destroyed exactly once (replaced, removed, or at disposal) */
	vf_watch_begin("ident:racing-setters:destructors", 0);
	while (atomic_load(&rs->dtors) < sets) sched_yield();
	vf_watch_end();
	struct timespec ts = { 0, 50000 }; nanosleep(&ts, NULL);
	if (atomic_load(&rs->dtors) != sets) vf_violation("C17:queue-specific-destructor-count", "racing setters: %llu values stored, %llu destructor calls", (unsigned long long)sets, (unsigned long long)atomic_load(&rs->dtors));
	vf_count("racing_first_setter_rounds", 1);
	vf_count("get_specific_checks", 2 * RS_THREADS);
	atomic_store(&rs_cur, NULL);
	free(rs);
}

/* ------------------------------------------------------------------ (b) */
enum { VIA_ASYNC, VIA_SYNC, VIA_BARRIER_ASYNC, VIA_BARRIER_SYNC, VIA_ASYNC_AND_WAIT, VIA_APPLY, VIA_NESTED_SYNC, VIA_N };
static const char *const via_names[] = { "async", "sync", "barrier_async", "barrier_sync", "async_and_wait", "apply", "sync-from-item-of-S" };
enum { SHAPE_SERIAL, SHAPE_CONC, SHAPE_SERIAL_OVER_SERIAL, SHAPE_CONC_OVER_SERIAL, SHAPE_SERIAL_OVER_CONC, SHAPE_N };
static const char *const shape_names[] = { "serial", "concurrent", "serial->serial", "concurrent->serial", "serial->concurrent" };
enum { WHICH_Q, WHICH_T, WHICH_U, WHICH_S, WHICH_N };
static const char *const which_names[] = { "the queue itself", "its target queue", "an unrelated queue", "the submitting context's queue" };
enum { API_ASSERT, API_NOT, API_BARRIER, API_N };
static const char *const api_names[] = { "dispatch_assert_queue", "dispatch_assert_queue_not", "dispatch_assert_queue_barrier" };

static int scen_valid(int shape, int via, int which, int api)
{
	int has_t = shape >= SHAPE_SERIAL_OVER_SERIAL;
	if (which == WHICH_T && !has_t) return 0;
	if (which == WHICH_S && via != VIA_NESTED_SYNC) return 0;
	if (api == API_BARRIER && which != WHICH_Q && which != WHICH_T) return 0;
	return 1;
}
/* expected: 1 = returns normally, 0 = the library traps */
static int scen_expect(int shape, int via, int which, int api)
{
	int in_chain = (which == WHICH_Q || which == WHICH_T);
	int in_ctx = in_chain || which == WHICH_S;   /* synchronous submission: the submitting context counts too */
	if (api == API_ASSERT) return in_ctx;
	if (api == API_NOT) return !in_ctx;
	/* barrier: serial queues always; concurrent queues only for barrier items */
	int q_conc = (shape == SHAPE_CONC || shape == SHAPE_CONC_OVER_SERIAL);
	int t_conc = (shape == SHAPE_SERIAL_OVER_CONC);
	int is_barrier_item = (via == VIA_BARRIER_ASYNC || via == VIA_BARRIER_SYNC);
	if (which == WHICH_Q) return q_conc ? is_barrier_item : 1;
	/* target queue: a serial target is always a barrier context; a concurrent target never is for an item of Q */
	return t_conc ? -1 /* not judged */ : 1;
}

static dispatch_queue_t aQ, aT, aU, aS;
static int a_which, a_api;
static void assert_body(void *ctx)
{
	(void)ctx;
	dispatch_queue_t x = a_which == WHICH_Q ? aQ : a_which == WHICH_T ? aT : a_which == WHICH_U ? aU : aS;
	if (a_api == API_ASSERT) dispatch_assert_queue(x);
	else if (a_api == API_NOT) dispatch_assert_queue_not(x);
	else dispatch_assert_queue_barrier(x);
	_exit(0);   /* returned normally */
}
static void assert_apply(void *ctx, size_t i) { (void)i; assert_body(ctx); }

static int run_assert_child(int shape, int via, int which, int api)
{
	struct rlimit rl = { 0, 0 }; setrlimit(RLIMIT_CORE, &rl);
	a_which = which; a_api = api;
	int q_conc = (shape == SHAPE_CONC || shape == SHAPE_CONC_OVER_SERIAL);
	if (shape >= SHAPE_SERIAL_OVER_SERIAL) aT = dispatch_queue_create("vf.assert.T", shape == SHAPE_SERIAL_OVER_CONC ? DISPATCH_QUEUE_CONCURRENT : DISPATCH_QUEUE_SERIAL);
	aQ = dispatch_queue_create_with_target("vf.assert.Q", q_conc ? DISPATCH_QUEUE_CONCURRENT : DISPATCH_QUEUE_SERIAL, aT);
	aU = dispatch_queue_create("vf.assert.U", DISPATCH_QUEUE_SERIAL);
	aS = dispatch_queue_create("vf.assert.S", DISPATCH_QUEUE_SERIAL);
	switch (via) {
	case VIA_ASYNC: dispatch_async_f(aQ, NULL, assert_body); break;
	case VIA_SYNC: dispatch_sync_f(aQ, NULL, assert_body); break;
	case VIA_BARRIER_ASYNC: dispatch_barrier_async_f(aQ, NULL, assert_body); break;
	case VIA_BARRIER_SYNC: dispatch_barrier_sync_f(aQ, NULL, assert_body); break;
	case VIA_ASYNC_AND_WAIT: dispatch_async_and_wait_f(aQ, NULL, assert_body); break;
	case VIA_APPLY: dispatch_apply_f(1, aQ, NULL, assert_apply); break;
	default: dispatch_async(aS, ^{ dispatch_sync_f(aQ, NULL, assert_body); }); break;
	}
	sleep(20);
	_exit(3);   /* the item never ran */
}

static void check_assert_queue(const char *self)
{
	uint64_t n = 0;
	for (int shape = 0; shape < SHAPE_N; shape++) for (int via = 0; via < VIA_N; via++) for (int which = 0; which < WHICH_N; which++) for (int api = 0; api < API_N; api++) {
		if (!scen_valid(shape, via, which, api)) continue;
		int expect = scen_expect(shape, via, which, api);
		if (expect < 0) continue;
		pid_t pid = fork();
		if (pid < 0) vf_fail("fork");
		if (pid == 0) {
			char a1[32], a2[32], a3[32], a4[32];
			snprintf(a1, sizeof(a1), "--shape=%d", shape); snprintf(a2, sizeof(a2), "--via=%d", via);
			snprintf(a3, sizeof(a3), "--which=%d", which); snprintf(a4, sizeof(a4), "--api=%d", api);
			int devnull = open("/dev/null", 1); if (devnull >= 0) { dup2(devnull, 2); dup2(devnull, 1); }
			execl(self, self, "--mode=assert-child", a1, a2, a3, a4, (char *)NULL);
			_exit(4);
		}
		int st = 0;
		while (waitpid(pid, &st, 0) < 0 && errno == EINTR) {}
		n++;
		int returned = WIFEXITED(st) && WEXITSTATUS(st) == 0;
		int trapped = WIFSIGNALED(st) && (WTERMSIG(st) == SIGILL || WTERMSIG(st) == SIGABRT || WTERMSIG(st) == SIGTRAP);
		if (!returned && !trapped) {
			vf_violation("C18:assert_queue:scenario-did-not-complete", "child for %s(%s) in an item submitted by %s to a %s queue ended with status %#x", api_names[api], which_names[which], via_names[via], shape_names[shape], st);
		} else if (returned != expect) {
			char key[200];
			snprintf(key, sizeof(key), "C18:%s:%s:%s:%s:%s", api_names[api], shape_names[shape], via_names[via], which == WHICH_Q ? "Q" : which == WHICH_T ? "T" : which == WHICH_U ? "U" : "S", expect ? "trapped-but-should-accept" : "accepted-but-should-trap");
			vf_violation(key, "%s(%s) inside an item submitted by %s to a %s queue %s; expected it to %s", api_names[api], which_names[which], via_names[via], shape_names[shape],
					returned ? "returned normally" : "trapped", expect ? "return normally" : "trap");
		}
		vf_progress();
	}
	vf_count("assert_queue_scenarios", n);
}

int main(int argc, char **argv)
{
	for (int i = 1; i < argc; i++) if (!strcmp(argv[i], "--mode=assert-child")) {
		int shape = 0, via = 0, which = 0, api = 0;
		for (int k = 1; k < argc; k++) { sscanf(argv[k], "--shape=%d", &shape); sscanf(argv[k], "--via=%d", &via); sscanf(argv[k], "--which=%d", &which); sscanf(argv[k], "--api=%d", &api); }
		return run_assert_child(shape, via, which, api);
	}
	vf_init(argc, argv, "h_ident");
	const char *mode = vf_opts.mode;
	for (int i = 0; i < vf_opts.trials; i++) {
		int idx = vf_opts.first_trial + i;
		vf_rng_t r;
		vf_rng_seed(&r, vf_opts.seed, (uint64_t)idx * 1543 + 89);
		if (!strcmp(mode, "global")) {
			check_global_queues();
			vf_emit("trial", "\"n\":80019,\"sig\":\"global-queues\",\"nontrivial\":true,\"sample\":{\"part\":\"dispatch_get_global_queue: 9 documented identifiers x {0,OVERCOMMIT}, undefined flags, every other integer in [-40000,40000]\",\"exhaustive\":true}");
		} else if (!strcmp(mode, "attr")) {
			int stride = (int)vf_opt_long("stride", 1), phase = (int)vf_opt_long("phase", 0);
			check_attributes(&r, stride, phase);
			vf_emit("trial", "\"n\":%llu,\"sig\":\"attr-%d-%d\",\"nontrivial\":true,\"sample\":{\"part\":\"all 4032 attribute table entries (7 QoS x 16 relative priorities x 3 overcommit x 3 autorelease x 2 x 2), each through 3 random constructor orders\",\"stride\":%d,\"phase\":%d,\"exhaustive\":true}",
					(unsigned long long)vf_count_get("attr_queues_checked"), stride, phase, stride, phase);
		} else if (!strcmp(mode, "assert")) {
			check_assert_queue("/proc/self/exe");
			vf_emit("trial", "\"n\":%llu,\"sig\":\"assert-queue\",\"nontrivial\":true,\"sample\":{\"part\":\"dispatch_assert_queue/_not/_barrier: every (shape, submission path, queue in or out of the chain) scenario in its own child process\",\"exhaustive\":true}",
					(unsigned long long)vf_count_get("assert_queue_scenarios"));
		} else {
			vf_profile_t prof;
			vf_perturb_draw(&r, &prof);
			for (int k = 0; k < 40; k++) run_specific_trial(&r);
			for (int k = 0; k < 120; k++) run_racing_setters(&r);
			vf_perturb_off();
			vf_emit("trial", "\"n\":40,\"sig\":\"specific-%d-%d\",\"nontrivial\":true,\"sample\":{\"part\":\"get_specific over 40 random hierarchies x 8 submission paths x 5 keys\",\"perturb\":\"%s\"}", prof.kind, idx % 16, prof.desc);
		}
	}
	return vf_finish();
}
