/*
 * h_io.c — C14 monitor: dispatch I/O channels and the convenience API.
 *
 * Position-coded streams: the byte at stream (or file) offset k is code_byte(k, salt), so
 * every data object handed to a handler identifies which offsets it carries. Per trial a
 * scenario is drawn (transport, channel type, constructor, water marks, interval, op mix,
 * barriers, placement of dispatch_io_close / DISPATCH_IO_STOP); handlers only record into
 * per-operation records; all rules are evaluated at quiescence.
 *
 * Rules (source: <dispatch/io.h> doc comments + the C14 text; see the report for the
 * places where both are silent and nothing is checked):
 *   read : handler not re-entered, done exactly once and last, each data object <= high
 *          water, total <= requested, concatenation == contiguous range of the stream that
 *          starts where the previous read of the channel ended (stream channels) or at the
 *          offset given (random), bytes consumed from the descriptor but never delivered
 *          (the harness drains the rest afterwards), short read with error 0 only at EOF.
 *   write: every remaining-data object is a suffix of the submitted data and never grows,
 *          what reached the peer/file == concatenation of the written prefixes.
 *   order: stream operations of one direction complete in submission order.
 *   barrier, closed channel (ECANCELED), cleanup handler count/order, liveness (watchdog).
 *
 * Options: --mode=default|read|write|chan|conv|pipe-hangup (pipe-hangup = directed scenario: the
 * reader of a pipe goes away while a write waits on the full pipe), --pipe-hangup=0 (no vanishing
 * reader on pipes), --conv-pair=0 (never two dispatch_read in flight on one descriptor),
 * --eof-gap-us=N (feeder waits N us between its last write and close). The three switches exist
 * because those scenario classes end the process on the unchanged tree (hang / use-after-free);
 * the defaults keep them on.
 */
#include "vf_common.h"
#include <dispatch/dispatch.h>
#include <dispatch/private.h>
#include <stdarg.h>
#include <fcntl.h>
#include <poll.h>
#include <sched.h>
#include <sys/socket.h>
#include <sys/stat.h>

enum { TR_PIPE, TR_SOCK, TR_FILE };
static const char *const tr_names[] = { "pipe", "socket", "file" };
enum { CT_CREATE, CT_PATH, CT_WITH_IO, CT_CONV };
static const char *const ct_names[] = { "create", "create_with_path", "create_with_io", "convenience" };
enum { CP_AFTER_DONE, CP_RELEASE_ONLY, CP_BEFORE_ANY, CP_BETWEEN, CP_IN_FLIGHT, CP_N };
static const char *const cp_names[] = { "after-done", "release-only", "before-any-op", "between-ops", "in-flight" };
enum { HQ_SERIAL, HQ_CONC, HQ_GLOBAL };
static const char *const hq_names[] = { "serial", "concurrent", "global" };
enum { K_READ, K_WRITE, K_BARRIER };
enum { FS_TINY, FS_SMALL, FS_BIG, FS_MIXED, FS_N };
enum { DS_FAST, DS_SLOW, DS_STALL, DS_HANGUP, DS_N };
static const char *const ds_names[] = { "fast", "slow", "stall", "hangup" };

#define MAXOPS 96
#define MAXCH 3

struct trial;
typedef struct op {
	struct trial *t;
	int seq, kind, chan;
	int post;            /* submitted after dispatch_io_close returned */
	int conv;            /* convenience API: one invocation, no done flag */
	int fform;
	size_t req;          /* read: requested length; write: submitted size */
	off_t off;           /* DISPATCH_IO_RANDOM offset */
	size_t high;         /* high water mark in force when submitted */
	uint64_t call, ret;  /* stamps around the API call */
	uint8_t *wbuf;       /* write: copy of the submitted bytes */
	/* handler side */
	_Atomic int in_handler, reentered, ninv_pub, done_pub, retired;
	int ninv, ndone, after_done, wrong_queue, nonempty;
	uint64_t first_start, first_data_start, last_end, done_start, done_end;   /* first_data_start: first invocation that shows I/O of this op (bytes read / bytes written) */
	int err_done;
	size_t total, max_inv, over_high_size;
	int over_high_inv;
	uint8_t *rbuf; size_t rcap;
	size_t rem, rem_done; int rem_seen;
	int rem_bad; size_t rem_bad_size, rem_bad_at;
	/* barrier */
	_Atomic int bruns; uint64_t bstart, bend;
	unsigned body_ns;
} op_t;

typedef struct chan {
	struct trial *t;
	int id, fd;
	dispatch_io_t io;
	size_t low, high;
	_Atomic int cleanup_runs;
	uint64_t cleanup_start;
	int cleanup_err, cleanup_fd_ok, cleanup_wrong_queue;
} chan_t;

typedef struct { int fd; const uint8_t *buf; size_t len, written; int style, pause_den, err; unsigned eof_gap_us; vf_rng_t rng; } feeder_t;
typedef struct { int fd; uint8_t *got; size_t cap, n, hang_after; int style, overflow; unsigned linger_us; vf_rng_t rng; } drainer_t;

typedef struct trial {
	int idx;
	vf_rng_t rng;
	vf_profile_t prof;
	uint64_t salt;
	int dir, transport, mode, ctor, hq_kind;
	dispatch_queue_t hq, cq;
	void *hq_tag, *cq_tag;
	uint8_t *ref; size_t ref_len;      /* read trials: what the descriptor will deliver */
	int fd_lib, fd_peer, fd_verify;
	int path_parent;                   /* create_with_io from a channel made with create_with_path: the new channel opens the path itself */
	char path[64];
	off_t pos0;
	size_t budget;                     /* byte budget derived from the smallest high water mark */
	int wm_class, iv_class; uint64_t interval; int strict;
	int pipe_small;
	feeder_t feeder; drainer_t drainer; pthread_t th; int th_running;
	op_t *ops; int nops, maxops;
	chan_t ch[MAXCH]; int nch, opch;
	_Atomic uint64_t ops_done, barriers_run, cleanups;
	_Atomic int retired;
	int close_place, close_stop, closed;
	int directed;                      /* --mode=pipe-hangup: reader goes away while a write waits on a full pipe */
	uint64_t close_call, close_ret;
	uint64_t wcum;                     /* write trials: code position of the next write */
	char desc[640], opsdesc[300];
	/* outcome classes */
	int o_partial, o_eof, o_ecanceled, o_stop_in_flight, o_close_in_flight, o_hangup, o_bchecked;
} trial_t;

static const char g_qkey_storage = 0;
#define QKEY ((const void *)&g_qkey_storage)

static inline uint8_t code_byte(uint64_t k, uint64_t salt)
{
	uint64_t x = (k + salt) * 0x9e3779b97f4a7c15ull;
	x ^= x >> 29; x *= 0xbf58476d1ce4e5b9ull; x ^= x >> 32;
	return (uint8_t)x;
}
static void fill_coded(uint8_t *p, uint64_t base, size_t n, uint64_t salt)
{
	for (size_t i = 0; i < n; i++) p[i] = code_byte(base + i, salt);
}
static void sleep_us(unsigned us)
{
	struct timespec ts = { us / 1000000, (long)(us % 1000000) * 1000 };
	nanosleep(&ts, NULL);
}
static const char *szs(size_t v, char *b, size_t n)
{
	if (v == SIZE_MAX) snprintf(b, n, "MAX"); else snprintf(b, n, "%zu", v);
	return b;
}
static const char *dirname_of(const op_t *op)
{
	return op->conv ? (op->kind == K_READ ? "conv-read" : "conv-write") : (op->kind == K_READ ? "read" : "write");
}
#define VIOL(t, key, fmt, ...) vf_violation(key, fmt " | scenario: %s ops=[%s] replay: --seed=%llu --first=%d --trials=1", \
		__VA_ARGS__, (t)->desc, (t)->opsdesc, (unsigned long long)vf_opts.seed, (t)->idx)

/* ------------------------------------------------------------ handlers */
static void h_io(void *ctx, bool done, dispatch_data_t d, int err)
{
	op_t *op = ctx;
	trial_t *t = op->t;
	uint64_t s = vf_stamp();
	if (atomic_load(&op->retired)) {
		/* the record was already evaluated: this is an invocation after done */
		vf_violation(op->kind == K_READ ? "C14:read:invocation-after-done" : "C14:write:invocation-after-done",
				"%s handler of op #%d invoked (done=%d err=%d) after the trial reached quiescence and was evaluated | scenario: %s ops=[%s]",
				dirname_of(op), op->seq, (int)done, err, t->desc, t->opsdesc);
		return;
	}
	if (atomic_exchange(&op->in_handler, 1)) atomic_fetch_add(&op->reentered, 1);
	if (t->hq_tag && dispatch_get_specific(QKEY) != t->hq_tag) op->wrong_queue++;
	if (op->ndone) op->after_done++;
	size_t sz = d ? dispatch_data_get_size(d) : 0;
	if (!op->first_start) op->first_start = s;
	if (op->kind == K_READ) {
		if (sz) {
			if (op->total + sz > op->rcap) {
				size_t nc = op->rcap ? op->rcap * 2 : 4096;
				while (nc < op->total + sz) nc *= 2;
				op->rbuf = realloc(op->rbuf, nc);
				if (!op->rbuf) vf_fail("out of memory");
				op->rcap = nc;
			}
			uint8_t *dst = op->rbuf + op->total;
			dispatch_data_apply(d, ^bool(dispatch_data_t rg, size_t off, const void *b, size_t len) {
				(void)rg;
				if (off + len <= sz) memcpy(dst + off, b, len);
				return true;
			});
			op->total += sz;
			op->nonempty++;
			if (!op->first_data_start) op->first_data_start = s;
		}
		if (sz > op->max_inv) op->max_inv = sz;
		if (sz > op->high && !op->over_high_size) { op->over_high_size = sz; op->over_high_inv = op->ninv; }
	} else {
		/* remaining data: must be a suffix of what was submitted, and never grow */
		if (!op->rem_bad) {
			if (sz > op->req) { op->rem_bad = 2; op->rem_bad_size = sz; }
			else if (op->rem_seen && sz > op->rem) { op->rem_bad = 3; op->rem_bad_size = sz; }
			else if (sz) {
				const uint8_t *want = op->wbuf + (op->req - sz);
				__block size_t bad = SIZE_MAX;
				dispatch_data_apply(d, ^bool(dispatch_data_t rg, size_t off, const void *b, size_t len) {
					(void)rg;
					if (off + len > sz) { bad = off; return false; }
					if (memcmp(want + off, b, len)) {
						const uint8_t *p = b;
						for (size_t i = 0; i < len; i++) if (p[i] != want[off + i]) { bad = off + i; break; }
						return false;
					}
					return true;
				});
				if (bad != SIZE_MAX) { op->rem_bad = 1; op->rem_bad_size = sz; op->rem_bad_at = bad; }
			}
		}
		op->rem = sz; op->rem_seen = 1;
		if (sz < op->req && !op->first_data_start) op->first_data_start = s;
		if (sz > op->max_inv) op->max_inv = sz;
	}
	op->ninv++;
	atomic_store(&op->ninv_pub, op->ninv);
	if (op->body_ns && (op->ninv <= 6 || done)) vf_spin_ns(op->body_ns);
	int first_done = 0;
	if (done) {
		first_done = (op->ndone++ == 0);
		if (first_done) { op->err_done = err; op->done_start = s; op->rem_done = op->rem; }
	}
	uint64_t e = vf_stamp();
	op->last_end = e;
	if (first_done) op->done_end = e;
	atomic_store(&op->in_handler, 0);
	vf_progress();
	if (first_done) {
		atomic_store(&op->done_pub, 1);
		atomic_fetch_add(&t->ops_done, 1);
	}
}
static void h_conv(void *ctx, dispatch_data_t d, int err) { h_io(ctx, true, d, err); }

static void h_barrier(void *ctx)
{
	op_t *op = ctx;
	uint64_t s = vf_stamp();
	if (atomic_load(&op->retired)) { vf_violation("C14:barrier:count", "barrier block ran again after the trial was evaluated | scenario: %s", op->t->desc); return; }
	if (!op->bstart) op->bstart = s;
	if (op->body_ns) vf_spin_ns(op->body_ns);
	op->bend = vf_stamp();
	vf_progress();
	if (atomic_fetch_add(&op->bruns, 1) == 0) atomic_fetch_add(&op->t->barriers_run, 1);
}

static void h_cleanup(void *ctx, int err)
{
	chan_t *c = ctx;
	trial_t *t = c->t;
	uint64_t s = vf_stamp();
	if (atomic_load(&t->retired)) { vf_violation("C14:cleanup:count", "cleanup handler of channel %d ran again after the trial was evaluated | scenario: %s", c->id, t->desc); return; }
	int n = atomic_fetch_add(&c->cleanup_runs, 1);
	if (n == 0) {
		c->cleanup_start = s;
		c->cleanup_err = err;
		c->cleanup_fd_ok = c->fd < 0 ? 1 : (fcntl(c->fd, F_GETFD) != -1);
		if (t->cq_tag && dispatch_get_specific(QKEY) != t->cq_tag) c->cleanup_wrong_queue = 1;
	}
	vf_progress();
	if (n == 0) atomic_fetch_add(&t->cleanups, 1);
}

/* ------------------------------------------------------------ peer threads */
static void *feeder_main(void *arg)
{
	feeder_t *f = arg;
	size_t off = 0; int pauses = 0;
	while (off < f->len) {
		int st = f->style == FS_MIXED ? (int)vf_rnd_n(&f->rng, 3) : f->style;
		size_t c = st == FS_TINY ? vf_rnd_range(&f->rng, 1, 64) : st == FS_SMALL ? vf_rnd_range(&f->rng, 64, 4096) : vf_rnd_range(&f->rng, 4096, 65536);
		if (c > f->len - off) c = f->len - off;
		ssize_t w = write(f->fd, f->buf + off, c);
		if (w < 0) { if (errno == EINTR) continue; f->err = errno; break; }
		off += (size_t)w;
		vf_progress();
		if (f->pause_den && pauses < 80 && vf_rnd_n(&f->rng, (uint32_t)f->pause_den) == 0) { sleep_us(vf_rnd_range(&f->rng, 50, 2000)); pauses++; }
	}
	f->written = off;
	if (f->eof_gap_us) sleep_us(f->eof_gap_us);   /* --eof-gap-us: let the reader see the last bytes and the hang-up as two events */
	close(f->fd);
	return NULL;
}

static void *drainer_main(void *arg)
{
	drainer_t *d = arg;
	static __thread uint8_t tmp[65536];
	if (d->style == DS_STALL) sleep_us(vf_rnd_range(&d->rng, 3000, 25000));
	for (;;) {
		if (d->style == DS_HANGUP && d->n >= d->hang_after) break;
		size_t want = d->style == DS_SLOW ? vf_rnd_range(&d->rng, 512, 8192) : sizeof(tmp);
		if (d->style == DS_HANGUP && want > d->hang_after - d->n) want = d->hang_after - d->n;
		ssize_t r = read(d->fd, tmp, want);
		if (r < 0) { if (errno == EINTR) continue; break; }
		if (r == 0) break;
		if (d->n + (size_t)r <= d->cap) memcpy(d->got + d->n, tmp, (size_t)r); else d->overflow = 1;
		d->n += (size_t)r;
		vf_progress();
		if (d->style == DS_SLOW && vf_rnd_n(&d->rng, 4) == 0) sleep_us(vf_rnd_range(&d->rng, 50, 800));
	}
	if (d->linger_us) sleep_us(d->linger_us);   /* let the writer fill the pipe/socket buffer before the peer goes away */
	close(d->fd);
	return NULL;
}

/* ------------------------------------------------------------ scenario pieces */
static size_t draw_low(vf_rng_t *r)
{
	uint32_t c = vf_rnd_n(r, 100);
	return c < 25 ? 1 : c < 45 ? vf_rnd_range(r, 2, 64) : c < 70 ? vf_rnd_range(r, 65, 4096) : c < 90 ? vf_rnd_range(r, 4097, 65536) : SIZE_MAX;
}
static size_t draw_high(vf_rng_t *r)
{
	uint32_t c = vf_rnd_n(r, 100);
	return c < 8 ? 1 : c < 20 ? vf_rnd_range(r, 2, 64) : c < 50 ? vf_rnd_range(r, 65, 4096) : c < 80 ? vf_rnd_range(r, 4097, 65536) : c < 90 ? vf_rnd_range(r, 65537, 1u << 20) : SIZE_MAX;
}
static size_t budget_for(size_t high)
{
	size_t b = high < 16 ? 2048 : high < 256 ? 32768 : high < 4096 ? 262144 : (1u << 20);
	b = (size_t)((uint64_t)b * (uint64_t)(vf_opts.scale < 10 ? 10 : vf_opts.scale) / 100);
	return b < 64 ? 64 : b;
}
static void opsdesc_add(trial_t *t, const char *fmt, ...) __attribute__((format(printf, 2, 3)));
static void opsdesc_add(trial_t *t, const char *fmt, ...)
{
	size_t l = strlen(t->opsdesc);
	if (l + 40 >= sizeof(t->opsdesc)) return;
	if (l) t->opsdesc[l++] = ',';
	va_list ap; va_start(ap, fmt);
	vsnprintf(t->opsdesc + l, sizeof(t->opsdesc) - l, fmt, ap);
	va_end(ap);
}

/* water marks: the harness never asks for low > high (undocumented); with that the
 * library's effective high water mark is the one set last */
static void set_marks(trial_t *t, chan_t *c, size_t low, size_t high, int what)
{
	char a[24], b[24];
	if (what & 1) { dispatch_io_set_low_water(c->io, low); c->low = low; }
	if (what & 2) { dispatch_io_set_high_water(c->io, high); c->high = high; if (c->low > high) c->low = high; }
	opsdesc_add(t, "marks(%s%s%s%s)", (what & 1) ? "low=" : "", (what & 1) ? szs(low, a, sizeof(a)) : "", (what & 2) ? " high=" : "", (what & 2) ? szs(high, b, sizeof(b)) : "");
}

static void setup_queues(trial_t *t)
{
	vf_rng_t *r = &t->rng;
	uint32_t k = vf_rnd_n(r, 100);
	t->hq_kind = k < 65 ? HQ_SERIAL : k < 85 ? HQ_CONC : HQ_GLOBAL;
	if (t->hq_kind == HQ_GLOBAL) {
		t->hq = dispatch_get_global_queue(DISPATCH_QUEUE_PRIORITY_DEFAULT, 0);
		t->hq_tag = NULL;
	} else {
		t->hq = dispatch_queue_create("vf.io.handlers", t->hq_kind == HQ_SERIAL ? DISPATCH_QUEUE_SERIAL : DISPATCH_QUEUE_CONCURRENT);
		t->hq_tag = t;
		dispatch_queue_set_specific(t->hq, QKEY, t->hq_tag, NULL);
	}
	if (vf_rnd_n(r, 2)) { t->cq = t->hq; t->cq_tag = t->hq_tag; dispatch_retain(t->cq); }
	else {
		t->cq = dispatch_queue_create("vf.io.cleanup", DISPATCH_QUEUE_SERIAL);
		t->cq_tag = (char *)t + 1;
		dispatch_queue_set_specific(t->cq, QKEY, t->cq_tag, NULL);
	}
}
static void teardown_queues(trial_t *t)
{
	if (t->hq_kind != HQ_GLOBAL) dispatch_release(t->hq);
	dispatch_release(t->cq);
}

static void write_all(int fd, const uint8_t *p, size_t n)
{
	while (n) {
		ssize_t w = write(fd, p, n);
		if (w < 0) { if (errno == EINTR) continue; vf_fail("write to scratch file: %s", strerror(errno)); }
		p += w; n -= (size_t)w;
	}
}

/* creates the descriptor pair / scratch file. For read trials t->ref[0..ref_len) is what
 * the descriptor delivers (files: whole file content, coded by file offset). */
static void setup_transport(trial_t *t, size_t prefill)
{
	vf_rng_t *r = &t->rng;
	t->fd_lib = t->fd_peer = t->fd_verify = -1;
	t->path[0] = 0;
	if (t->transport == TR_PIPE) {
		int p[2];
		if (pipe(p)) vf_fail("pipe: %s", strerror(errno));
		t->pipe_small = vf_rnd_n(r, 3) == 0;
		if (t->pipe_small) (void)fcntl(p[1], F_SETPIPE_SZ, 4096);
		if (t->dir == K_READ) { t->fd_lib = p[0]; t->fd_peer = p[1]; } else { t->fd_lib = p[1]; t->fd_peer = p[0]; }
	} else if (t->transport == TR_SOCK) {
		int sv[2];
		if (socketpair(AF_UNIX, SOCK_STREAM, 0, sv)) vf_fail("socketpair: %s", strerror(errno));
		t->fd_lib = sv[0]; t->fd_peer = sv[1];
	} else {
		snprintf(t->path, sizeof(t->path), "/tmp/vf_io_%d_XXXXXX", (int)getpid());
		int fd = mkstemp(t->path);
		if (fd < 0) vf_fail("mkstemp: %s", strerror(errno));
		if (t->dir == K_READ) write_all(fd, t->ref, t->ref_len);
		else if (prefill) {
			uint8_t *z = malloc(prefill);
			memset(z, 0xEE, prefill);
			write_all(fd, z, prefill);
			free(z);
		}
		t->fd_verify = open(t->path, O_RDONLY);
		if (t->fd_verify < 0) vf_fail("open scratch: %s", strerror(errno));
		if (t->ctor == CT_PATH || t->path_parent) {
			close(fd);
			t->pos0 = 0;
		} else {
			unlink(t->path); t->path[0] = 0;
			if (lseek(fd, t->pos0, SEEK_SET) != t->pos0) vf_fail("lseek");
			t->fd_lib = fd;
		}
	}
}

static void start_feeder(trial_t *t)
{
	vf_rng_t *r = &t->rng;
	feeder_t *f = &t->feeder;
	memset(f, 0, sizeof(*f));
	f->fd = t->fd_peer; f->buf = t->ref; f->len = t->ref_len;
	f->style = (int)vf_rnd_n(r, FS_N);
	if (f->style == FS_TINY && f->len > 65536) f->style = FS_MIXED;
	if (f->style == FS_TINY && t->ctor == CT_CONV) f->style = FS_SMALL;
	static const int dens[] = { 0, 16, 4, 1 };
	f->pause_den = dens[vf_rnd_n(r, 4)];
	f->eof_gap_us = (unsigned)vf_opt_long("eof-gap-us", 0);
	vf_rng_seed(&f->rng, t->salt, 501);
	if (pthread_create(&t->th, NULL, feeder_main, f)) vf_fail("pthread_create");
	t->th_running = 1;
	t->fd_peer = -1; /* owned by the feeder now */
}
static void start_drainer(trial_t *t, size_t cap)
{
	vf_rng_t *r = &t->rng;
	drainer_t *d = &t->drainer;
	memset(d, 0, sizeof(*d));
	d->fd = t->fd_peer; d->cap = cap; d->got = malloc(cap ? cap : 1);
	d->style = (int)vf_rnd_n(r, DS_N + 1); if (d->style >= DS_N) d->style = DS_SLOW;
	if (d->style == DS_HANGUP && t->transport == TR_PIPE && !vf_opt_long("pipe-hangup", 1)) d->style = DS_STALL;
	d->hang_after = d->style == DS_HANGUP ? vf_rnd_n(r, (uint32_t)(cap / 2 + 2)) : 0;
	d->linger_us = d->style == DS_HANGUP && vf_rnd_n(r, 2) ? vf_rnd_range(r, 500, 8000) : 0;
	if (t->directed) { d->style = DS_HANGUP; d->hang_after = vf_rnd_n(r, (uint32_t)(cap / 4 + 1)); d->linger_us = vf_rnd_range(r, 3000, 8000); }
	vf_rng_seed(&d->rng, t->salt, 502);
	if (pthread_create(&t->th, NULL, drainer_main, d)) vf_fail("pthread_create");
	t->th_running = 1;
	t->fd_peer = -1;
}

/* ------------------------------------------------------------ submission */
static op_t *new_op(trial_t *t, int kind, int chan)
{
	if (t->nops >= t->maxops) vf_fail("too many ops");
	op_t *op = &t->ops[t->nops];
	op->t = t; op->seq = t->nops; op->kind = kind; op->chan = chan;
	op->post = t->closed;
	op->high = t->ctor == CT_CONV ? SIZE_MAX : t->ch[chan].high;
	op->fform = (int)vf_rnd_n(&t->rng, 2);
	uint32_t b = vf_rnd_n(&t->rng, 8);
	op->body_ns = b == 0 ? 200000 : b == 1 ? 20000 : b == 2 ? 2000 : 0;
	t->nops++;
	return op;
}

static void submit_read(trial_t *t, int chan, size_t len, off_t off)
{
	op_t *op = new_op(t, K_READ, chan);
	char a[24];
	op->req = len; op->off = off;
	if (t->mode == DISPATCH_IO_RANDOM) opsdesc_add(t, "r%s@%lld", szs(len, a, sizeof(a)), (long long)off);
	else opsdesc_add(t, "r%s", szs(len, a, sizeof(a)));
	dispatch_io_t io = t->ch[chan].io;
	op->call = vf_stamp();
	if (op->fform) dispatch_io_read_f(io, off, len, t->hq, op, h_io);
	else dispatch_io_read(io, off, len, t->hq, ^(bool done, dispatch_data_t d, int err) { h_io(op, done, d, err); });
	op->ret = vf_stamp();
	vf_progress();
}

static dispatch_data_t make_data(vf_rng_t *r, const uint8_t *src, size_t len)
{
	if (!len) return dispatch_data_empty;
	int frags = vf_rnd_n(r, 2) ? 1 : (int)vf_rnd_range(r, 2, 8);
	if ((size_t)frags > len) frags = (int)len;
	dispatch_data_t acc = NULL;
	size_t off = 0;
	for (int i = 0; i < frags; i++) {
		size_t left = len - off, n = (i == frags - 1) ? left : 1 + vf_rnd_n(r, (uint32_t)(left - (size_t)(frags - 1 - i)));
		uint8_t *p = malloc(n);           /* exact-size block: an over-read hits an ASan red zone */
		if (!p) vf_fail("out of memory");
		memcpy(p, src + off, n);
		dispatch_data_t piece = dispatch_data_create(p, n, NULL, DISPATCH_DATA_DESTRUCTOR_FREE);
		if (acc) { dispatch_data_t c = dispatch_data_create_concat(acc, piece); dispatch_release(acc); dispatch_release(piece); acc = c; }
		else acc = piece;
		off += n;
	}
	return acc;
}

/* code position of the first byte: stream/pipe = running total, random-mode file = offset */
static void submit_write(trial_t *t, int chan, size_t len, off_t off)
{
	op_t *op = new_op(t, K_WRITE, chan);
	op->req = len; op->off = off;
	op->rem = len;
	op->wbuf = malloc(len ? len : 1);
	fill_coded(op->wbuf, t->mode == DISPATCH_IO_RANDOM ? (uint64_t)off : t->wcum, len, t->salt);
	t->wcum += len;
	if (t->mode == DISPATCH_IO_RANDOM) opsdesc_add(t, "w%zu@%lld", len, (long long)off); else opsdesc_add(t, "w%zu", len);
	dispatch_data_t d = make_data(&t->rng, op->wbuf, len);
	dispatch_io_t io = t->ch[chan].io;
	op->call = vf_stamp();
	if (op->fform) dispatch_io_write_f(io, off, d, t->hq, op, h_io);
	else dispatch_io_write(io, off, d, t->hq, ^(bool done, dispatch_data_t rd, int err) { h_io(op, done, rd, err); });
	op->ret = vf_stamp();
	dispatch_release(d);
	vf_progress();
}

static void submit_barrier(trial_t *t, int chan)
{
	op_t *op = new_op(t, K_BARRIER, chan);
	opsdesc_add(t, "B");
	dispatch_io_t io = t->ch[chan].io;
	op->call = vf_stamp();
	if (op->fform) dispatch_io_barrier_f(io, op, h_barrier);
	else dispatch_io_barrier(io, ^{ h_barrier(op); });
	op->ret = vf_stamp();
	vf_progress();
}

static void make_channels(trial_t *t)
{
	vf_rng_t *r = &t->rng;
	t->nch = t->ctor == CT_WITH_IO ? 2 : 1;
	t->opch = t->nch - 1;
	/* a third channel, made from the first one and abandoned (released, never used, never closed) before its creation
	 * was processed: its cleanup handler runs once, with error 0, like any other. Drawn from its own generator so the
	 * scenarios of the trials stay what they were. */
	int abandoned = 0;
	if (t->ctor == CT_WITH_IO) {
		vf_rng_t ar; vf_rng_seed(&ar, vf_opts.seed, (uint64_t)t->idx * 7919 + 3);
		abandoned = vf_opt_long("force-abandoned", -1) >= 0 ? (int)vf_opt_long("force-abandoned", -1) : vf_rnd_n(&ar, 4) == 0;
		if (abandoned) t->nch = 3;
	}
	for (int i = 0; i < t->nch; i++) {
		chan_t *c = &t->ch[i];
		memset(c, 0, sizeof(*c));
		c->t = t; c->id = i; c->fd = t->fd_lib; c->low = 0; c->high = SIZE_MAX;
	}
	chan_t *c0 = &t->ch[0];
	int ff = (int)vf_rnd_n(r, 2);
	if (t->ctor == CT_PATH || t->path_parent) {
		int oflag = t->dir == K_READ ? O_RDONLY : (vf_rnd_n(r, 2) ? O_WRONLY : O_RDWR);
		mode_t mode = 0;
		if (t->ctor == CT_PATH && t->dir == K_WRITE && vf_rnd_n(r, 3) == 0) { unlink(t->path); oflag |= O_CREAT; mode = 0600; close(t->fd_verify); t->fd_verify = -1; }
		c0->fd = -1;
		c0->io = ff ? dispatch_io_create_with_path_f((dispatch_io_type_t)t->mode, t->path, oflag, mode, t->cq, c0, h_cleanup)
				: dispatch_io_create_with_path((dispatch_io_type_t)t->mode, t->path, oflag, mode, t->cq, ^(int e) { h_cleanup(c0, e); });
	} else {
		/* with create_with_io the first channel may have either type on a file; it carries no operations */
		dispatch_io_type_t ty0 = (t->ctor == CT_WITH_IO && t->transport == TR_FILE) ? vf_rnd_n(r, 2) : (dispatch_io_type_t)t->mode;
		if (t->ctor == CT_WITH_IO && t->transport != TR_FILE) ty0 = DISPATCH_IO_STREAM;
		c0->io = ff ? dispatch_io_create_f(ty0, t->fd_lib, t->cq, c0, h_cleanup)
				: dispatch_io_create(ty0, t->fd_lib, t->cq, ^(int e) { h_cleanup(c0, e); });
	}
	if (!c0->io) vf_fail("channel creation returned NULL");
	if (t->ctor == CT_WITH_IO) {
		chan_t *c1 = &t->ch[1];
		c1->io = vf_rnd_n(r, 2) ? dispatch_io_create_with_io_f((dispatch_io_type_t)t->mode, c0->io, t->cq, c1, h_cleanup)
				: dispatch_io_create_with_io((dispatch_io_type_t)t->mode, c0->io, t->cq, ^(int e) { h_cleanup(c1, e); });
		if (!c1->io) vf_fail("dispatch_io_create_with_io returned NULL");
		if (abandoned) {
			chan_t *c2 = &t->ch[2];
			c2->io = dispatch_io_create_with_io((dispatch_io_type_t)t->mode, c0->io, t->cq, ^(int e) { h_cleanup(c2, e); });
			if (!c2->io) vf_fail("dispatch_io_create_with_io returned NULL");
			dispatch_release(c2->io);
			vf_count("derived_channels_abandoned_before_creation_was_processed", 1);
		}
	}
}

static void do_close(trial_t *t)
{
	chan_t *c = &t->ch[t->opch];
	opsdesc_add(t, t->close_stop ? "close(STOP)" : "close(0)");
	t->close_call = vf_stamp();
	dispatch_io_close(c->io, t->close_stop ? DISPATCH_IO_STOP : 0);
	t->close_ret = vf_stamp();
	t->closed = 1;
	if (vf_rnd_n(&t->rng, 4) == 0) dispatch_io_close(c->io, t->close_stop ? DISPATCH_IO_STOP : 0); /* idempotent per io.c; exercised by the pinned tests */
	vf_progress();
}

/* ------------------------------------------------------------ oracles */
static long locate(const uint8_t *ref, size_t ref_len, const uint8_t *pat, size_t n)
{
	if (n < 8 || !ref_len) return -1;
	const void *p = memmem(ref, ref_len, pat, n < 24 ? n : 24);
	return p ? (long)((const uint8_t *)p - ref) : -1;
}
static size_t first_diff(const uint8_t *a, const uint8_t *b, size_t n)
{
	for (size_t i = 0; i < n; i++) if (a[i] != b[i]) return i;
	return n;
}
static void op_brief(const op_t *op, char *b, size_t n)
{
	char a[24];
	snprintf(b, n, "op #%d (%s %s%s%s, %d invocations, %zu bytes, largest object %zu, done err=%d, call/ret %llu/%llu, first-start %llu, done %llu..%llu)",
			op->seq, dirname_of(op), op->kind == K_READ ? "length " : "size ", szs(op->req, a, sizeof(a)), op->post ? ", submitted after close" : "",
			op->ninv, op->kind == K_READ ? op->total : op->req - op->rem_done, op->max_inv, op->err_done,
			(unsigned long long)op->call, (unsigned long long)op->ret, (unsigned long long)op->first_start,
			(unsigned long long)op->done_start, (unsigned long long)op->done_end);
}

/* per-operation rules that need nothing but the record */
static void check_op(trial_t *t, op_t *op)
{
	char b[320], k[96];
	const char *dn = op->kind == K_READ ? "read" : "write";
	op_brief(op, b, sizeof(b));
	int stop = t->closed && t->close_stop;
	if (op->ndone > 1) { snprintf(k, sizeof(k), "C14:%s:done-twice", dn); VIOL(t, k, "%s: handler saw %s %d times", b, op->conv ? "an invocation" : "done=true", op->ndone); }
	if (op->after_done) { snprintf(k, sizeof(k), "C14:%s:invocation-after-done", dn); VIOL(t, k, "%s: %d invocation(s) after the one with done=true", b, op->after_done); }
	if (atomic_load(&op->reentered)) { snprintf(k, sizeof(k), "C14:%s:handler-reentered", dn); VIOL(t, k, "%s: handler entered %d time(s) while a previous invocation had not returned", b, atomic_load(&op->reentered)); }
	if (op->wrong_queue) { snprintf(k, sizeof(k), "C14:%s:handler-on-wrong-queue", dn); VIOL(t, k, "%s: %d invocation(s) not on the %s queue passed to the call", b, op->wrong_queue, hq_names[t->hq_kind]); }
	if (op->kind == K_READ) {
		if (op->over_high_size) {
			char a[24];
			VIOL(t, "C14:read:exceeds-high-water", "%s: invocation %d carried %zu bytes, high water mark at submission was %s", b, op->over_high_inv, op->over_high_size, szs(op->high, a, sizeof(a)));
		}
		if (op->total > op->req) VIOL(t, "C14:read:exceeds-requested-length", "%s: %zu bytes delivered for a request of %zu", b, op->total, op->req);
	} else if (op->rem_bad) {
		VIOL(t, "C14:write:remaining-data-mismatch", "%s: remaining-data object of %zu bytes %s", b, op->rem_bad_size,
				op->rem_bad == 1 ? "differs from the tail of the submitted data" : op->rem_bad == 2 ? "is larger than the submitted data" : "is larger than the one reported before");
		if (op->rem_bad == 1) vf_count("rem_mismatch_offset_log2", (uint64_t)vf_log2_bucket(op->rem_bad_at));
	}
	/* completion status */
	if (op->post) {
		if (op->err_done != ECANCELED) {
			snprintf(k, sizeof(k), "C14:closed-channel:not-ECANCELED%s", op->req == 0 ? ":zero-length-op" : "");
			VIOL(t, k, "%s: scheduled after dispatch_io_close(%s) returned (close call/ret stamps %llu/%llu) but completed with error %d (%s)", b,
					t->close_stop ? "DISPATCH_IO_STOP" : "0", (unsigned long long)t->close_call, (unsigned long long)t->close_ret, op->err_done, strerror(op->err_done));
		} else t->o_ecanceled++;
		return;
	}
	int hang = op->kind == K_WRITE && t->drainer.style == DS_HANGUP && t->transport != TR_FILE;
	if (op->err_done == ECANCELED) {
		t->o_ecanceled++;
		if (!stop) {
			VIOL(t, "C14:close:pending-op-cancelled-without-stop", "%s: completed with ECANCELED although the channel was %s", b, t->closed ? "closed without DISPATCH_IO_STOP after the operation was scheduled" : "never closed");
		} else if (op->done_end < t->close_call) {
			snprintf(k, sizeof(k), "C14:%s:ECANCELED-before-stop", dn);
			VIOL(t, k, "%s: done handler returned before dispatch_io_close(STOP) was called (stamp %llu) yet reports ECANCELED", b, (unsigned long long)t->close_call);
		}
	} else if (op->err_done != 0 && !hang) {
		snprintf(k, sizeof(k), "C14:%s:unexpected-error", dn);
		VIOL(t, k, "%s: error %d (%s) on a healthy %s", b, op->err_done, strerror(op->err_done), tr_names[t->transport]);
	} else if (op->err_done != 0) t->o_hangup++;
	/* outcome classes */
	if (op->kind == K_READ ? op->nonempty >= 2 : op->ninv >= 2) t->o_partial++;
	if (t->closed && op->req && op->ret < t->close_call && op->done_end > t->close_call) {
		if (t->close_stop) t->o_stop_in_flight++; else t->o_close_in_flight++;
	}
}

/* stream reads: consecutive ranges in submission order; rest = what the harness itself read
 * from the descriptor afterwards (pipes/sockets) or NULL; fp = final file position or -1 */
static void check_stream_reads(trial_t *t, const uint8_t *rest, size_t rest_len, off_t fp)
{
	size_t pos = (size_t)t->pos0;
	char b[320];
	for (int i = 0; i < t->nops; i++) {
		op_t *op = &t->ops[i];
		if (op->kind != K_READ) continue;
		size_t avail = pos <= t->ref_len ? t->ref_len - pos : 0, n = op->total < avail ? op->total : avail;
		size_t bad = first_diff(op->rbuf, t->ref + (pos <= t->ref_len ? pos : t->ref_len), n);
		if (bad < n || op->total > avail) {
			op_brief(op, b, sizeof(b));
			long q = bad < op->total ? locate(t->ref, t->ref_len, op->rbuf + bad, op->total - bad) : -1;
			long mine = locate(t->ref, t->ref_len, op->rbuf, op->total);
			int ooo = 0;
			for (int j = i + 1; j < t->nops && mine >= 0; j++) {
				op_t *o2 = &t->ops[j];
				if (o2->kind != K_READ) continue;
				long l2 = locate(t->ref, t->ref_len, o2->rbuf, o2->total);
				if (l2 >= 0 && l2 < mine) ooo = j;
			}
			if (ooo) VIOL(t, "C14:read:ops-out-of-order", "%s: its data is the stream range starting at offset %ld but op #%d, submitted later, received the earlier range", b, mine, ooo);
			else VIOL(t, "C14:read:gap-or-duplicate-bytes", "%s: expected stream offsets [%zu,%zu) of %zu; byte %zu of the operation (stream offset %zu) is 0x%02x, want 0x%02x; the bytes delivered from there on are those of stream offset %ld (-1: not found / past the end)",
					b, pos, pos + op->total, t->ref_len, bad, pos + bad, bad < op->total ? op->rbuf[bad] : 0, pos + bad < t->ref_len ? t->ref[pos + bad] : 0, q);
			return;
		}
		pos += op->total;
		if (op->err_done == 0 && op->ndone && !op->post) {
			if (op->conv ? (op->total == 0 && op->req) : op->total < op->req) {
				if (pos != t->ref_len) {
					op_brief(op, b, sizeof(b));
					VIOL(t, "C14:read:short-read-without-EOF", "%s: completed with error 0 and %zu of %zu bytes at stream offset %zu, but the stream has %zu bytes (no EOF there)", b, op->total, op->req, pos, t->ref_len);
				} else t->o_eof++;
			}
		}
	}
	if (rest) {
		size_t want = pos <= t->ref_len ? t->ref_len - pos : 0, n = rest_len < want ? rest_len : want;
		size_t bad = first_diff(rest, t->ref + t->ref_len - want, n);
		if (rest_len < want && bad == n) VIOL(t, "C14:read:consumed-bytes-not-delivered", "handlers received stream offsets [0,%zu) of %zu, reading the descriptor afterwards yields only %zu more bytes: %zu bytes were consumed and never delivered", pos, t->ref_len, rest_len, want - rest_len);
		else if (bad < n || rest_len > want) VIOL(t, "C14:read:gap-or-duplicate-bytes", "handlers received stream offsets [0,%zu) of %zu, but the descriptor afterwards continues with the bytes of offset %ld (%zu bytes left)", pos, t->ref_len, locate(t->ref, t->ref_len, rest + (bad < n ? bad : 0), rest_len - (bad < n ? bad : 0)), rest_len);
	}
	if (fp >= 0 && (size_t)fp != pos) {
		VIOL(t, (size_t)fp > pos ? "C14:read:consumed-bytes-not-delivered" : "C14:read:gap-or-duplicate-bytes", "file position after the channel relinquished the descriptor is %lld, handlers received [%lld,%zu)", (long long)fp, (long long)t->pos0, pos);
	}
}

static void check_random_reads(trial_t *t)
{
	char b[320];
	for (int i = 0; i < t->nops; i++) {
		op_t *op = &t->ops[i];
		if (op->kind != K_READ) continue;
		size_t pos = (size_t)(t->pos0 + op->off);
		size_t avail = pos <= t->ref_len ? t->ref_len - pos : 0, n = op->total < avail ? op->total : avail;
		size_t bad = first_diff(op->rbuf, t->ref + (pos <= t->ref_len ? pos : t->ref_len), n);
		if (bad < n || op->total > avail) {
			op_brief(op, b, sizeof(b));
			VIOL(t, "C14:read:gap-or-duplicate-bytes", "%s: random-access read at file offset %zu: byte %zu is 0x%02x, want 0x%02x (file size %zu); delivered bytes from there match file offset %ld",
					b, pos, bad, bad < op->total ? op->rbuf[bad] : 0, pos + bad < t->ref_len ? t->ref[pos + bad] : 0, t->ref_len,
					bad < op->total ? locate(t->ref, t->ref_len, op->rbuf + bad, op->total - bad) : -1);
			continue;
		}
		if (op->err_done == 0 && op->ndone && !op->post && op->total < op->req) {
			if (pos + op->total < t->ref_len) {
				op_brief(op, b, sizeof(b));
				VIOL(t, "C14:read:short-read-without-EOF", "%s: random-access read at file offset %zu returned %zu of %zu bytes with error 0, file size %zu", b, pos, op->total, op->req, t->ref_len);
			} else t->o_eof++;
		}
	}
}

/* pipes/sockets/stream files: got[0..got_n) is what reached the peer (or the file region from
 * pos0); exact=0 when the peer hung up early (only a prefix can be compared) */
static void check_write_conservation(trial_t *t, const uint8_t *got, size_t got_n, int exact)
{
	size_t pos = 0;
	char b[320];
	for (int i = 0; i < t->nops; i++) {
		op_t *op = &t->ops[i];
		if (op->kind != K_WRITE) continue;
		size_t wr = op->req - (op->rem_done <= op->req ? op->rem_done : op->req);
		size_t n = pos + wr <= got_n ? wr : (got_n > pos ? got_n - pos : 0);
		size_t bad = first_diff(got + pos, op->wbuf, n);
		if (bad < n || (exact && n < wr)) {
			op_brief(op, b, sizeof(b));
			VIOL(t, "C14:write:conservation", "%s: submitted %zu bytes, %zu reported unwritten at done, so bytes [0,%zu) must follow offset %zu of what reached the %s; %zu bytes arrived in total and byte %zu of the operation %s",
					b, op->req, op->rem_done, wr, pos, tr_names[t->transport], got_n, bad, bad < n ? "differs" : "never arrived");
			return;
		}
		pos += wr;
		if (n < wr) return;
	}
	if (got_n > pos) VIOL(t, "C14:write:conservation", "%zu bytes reached the %s but the operations account for only %zu written bytes (submitted minus reported unwritten)", got_n, tr_names[t->transport], pos);
}

/* "complete in submission order" is decided on the handler queue: the library enqueues the
 * handlers, so only a serial handler queue turns enqueue order into an observable order. On
 * concurrent/global handler queues only the byte ranges (check_stream_reads) are checked. */
static void check_order(trial_t *t)
{
	char ba[320], bb[320], k[96];
	if (t->hq_kind != HQ_SERIAL) return;
	for (int i = 0; i < t->nops; i++) {
		op_t *a = &t->ops[i];
		if (a->kind == K_BARRIER || a->post) continue;
		for (int j = i + 1; j < t->nops; j++) {
			op_t *b = &t->ops[j];
			if (b->kind != a->kind || b->post || b->chan != a->chan) continue;
			const char *dn = a->kind == K_READ ? "read" : "write";
			int zero = !a->req || !b->req;
			/* only completion events are compared: progress invocations of a later operation may
			 * interleave with an earlier one (per-operation delivery queues), the property is silent */
			int viol = b->done_end < a->done_start;
			if (!viol) continue;
			op_brief(a, ba, sizeof(ba)); op_brief(b, bb, sizeof(bb));
			int canc = a->err_done == ECANCELED || b->err_done == ECANCELED;
			/* The done invocation of an operation is posted from its dispose, i.e. only after its last pending
			 * delivery block has run on the operation's own delivery queue, while the stream already serves the
			 * next operation: when the earlier operation received progress deliveries, a later operation's done
			 * can overtake it on the handler queue although the bytes were transferred in order. Known library
			 * limitation (K6), keyed separately; an inversion where the earlier operation had nothing but its done
			 * invocation cannot come from that mechanism and is reported under the plain key. */
			/* (with an interval set every operation also owns a timer source whose cancellation must finish
			 * before the dispose, which delays the done invocation in the same way) */
			/* Two mechanisms are known to invert completion notifications although the I/O itself was performed in order; each
			 * has an observable precondition, and the key names mechanism + outcome, so that an inversion without either
			 * precondition is still reported under the plain key:
			 *  - earlier-op-still-delivering (K6/K7): the earlier operation received progress deliveries (>= 2 invocations) or
			 *    the channel has an interval timer; its done is posted from its dispose, behind those;
			 *  - convenience-api (K8): both operations went through dispatch_read / dispatch_write; the descriptor's registration
			 *    does not outlive its operations, the second call can get a fresh one while the first's handler still waits for the
			 *    cancellation of its event source on the old one's close queue. */
			int pending = (a->ninv >= 2 || t->interval) && !a->conv;
			int conv_regen = a->conv && b->conv;
			const char *outcome = (a->err_done == 0 && b->err_done == 0) ? "" : a->err_done == 0 ? ":later-op-failed" : b->err_done == 0 ? ":earlier-op-failed" :
					a->err_done == b->err_done ? ":both-failed-alike" : ":both-failed-differently";
			if (zero) snprintf(k, sizeof(k), "C14:%s:zero-length-op-completes-out-of-order", dn);
			else if (canc) snprintf(k, sizeof(k), "C14:%s:ops-complete-out-of-order:cancelled-by-stop", dn);
			else if (conv_regen) snprintf(k, sizeof(k), "C14:%s:ops-complete-out-of-order:convenience-api%s", dn, *outcome ? outcome : ":both-succeeded");
			else if (pending) snprintf(k, sizeof(k), "C14:%s:ops-complete-out-of-order:earlier-op-still-delivering%s", dn, outcome);
			else snprintf(k, sizeof(k), "C14:%s:ops-complete-out-of-order", dn);
			VIOL(t, k, "stream channel, serial handler queue: %s was submitted before %s, but the later operation's done invocation returned before the earlier one's began", ba, bb);
			return;
		}
	}
}

static void check_barriers(trial_t *t)
{
	char b[320];
	for (int i = 0; i < t->nops; i++) {
		op_t *bar = &t->ops[i];
		if (bar->kind != K_BARRIER) continue;
		if (atomic_load(&bar->bruns) != 1) VIOL(t, "C14:barrier:count", "barrier #%d ran %d times", bar->seq, atomic_load(&bar->bruns));
		for (int j = 0; j < t->nops; j++) {
			op_t *op = &t->ops[j];
			if (op->kind == K_BARRIER || op->chan != bar->chan || j == i) continue;
			t->o_bchecked++;
			if (j < i) {
				/* Not judged: io.h promises that earlier operations have *completed* (their I/O on the descriptor is
				 * over) before the barrier block is enqueued; their handler invocations are client notifications
				 * enqueued on other queues and may still be running. A first version of this check demanded that
				 * they had returned and fired on the unchanged tree: the rule asked for more than the property. */
				(void)b;
			} else if (j > i && op->first_start < bar->bend) {
				op_brief(op, b, sizeof(b));
				VIOL(t, "C14:barrier:later-op-started-early", "barrier #%d ran during stamps %llu..%llu but %s, scheduled after it, had its first handler invocation at stamp %llu",
						bar->seq, (unsigned long long)bar->bstart, (unsigned long long)bar->bend, b, (unsigned long long)op->first_start);
			}
		}
	}
}

static void check_cleanup(trial_t *t)
{
	char b[320];
	for (int i = 0; i < t->nch; i++) {
		chan_t *c = &t->ch[i];
		int runs = atomic_load(&c->cleanup_runs);
		if (runs != 1) { VIOL(t, "C14:cleanup:count", "cleanup handler of channel %d ran %d times", i, runs); if (!runs) continue; }
		if (c->cleanup_err) VIOL(t, "C14:cleanup:error-nonzero", "cleanup handler of channel %d (%s) received error %d (%s); creation did not fail", i, ct_names[t->ctor], c->cleanup_err, strerror(c->cleanup_err));
		if (!c->cleanup_fd_ok) VIOL(t, "C14:cleanup:fd-closed-by-library", "descriptor %d passed to dispatch_io_create is no longer open in the cleanup handler of channel %d", c->fd, i);
		if (c->cleanup_wrong_queue) VIOL(t, "C14:cleanup:wrong-queue", "cleanup handler of channel %d did not run on the queue passed at creation", i);
		for (int j = 0; j < t->nops; j++) {
			op_t *op = &t->ops[j];
			/* operations scheduled after close may legitimately outlive the cleanup handler: not checked */
			if (op->kind == K_BARRIER || op->chan != i || op->post) continue;
			if (op->last_end > c->cleanup_start) {
				op_brief(op, b, sizeof(b));
				VIOL(t, !op->req ? "C14:cleanup:before-last-handler:zero-length-op" : op->err_done == ECANCELED ? "C14:cleanup:before-last-handler:op-cancelled-by-stop" : "C14:cleanup:before-last-handler", "cleanup handler of channel %d started at stamp %llu, but %s had a handler invocation returning at stamp %llu", i, (unsigned long long)c->cleanup_start, b, (unsigned long long)op->last_end);
				break;
			}
		}
	}
}

/* ------------------------------------------------------------ trial plumbing */
static void wait_quiescent(trial_t *t, const char *what)
{
	uint64_t nrw = 0, nbar = 0;
	for (int i = 0; i < t->nops; i++) if (t->ops[i].kind == K_BARRIER) nbar++; else nrw++;
	char ctx[96];
	snprintf(ctx, sizeof(ctx), "io:%s:every-operation-delivers-done", what);
	vf_wait_counter(&t->ops_done, nrw, ctx);
	snprintf(ctx, sizeof(ctx), "io:%s:barrier-block-runs", what);
	vf_wait_counter(&t->barriers_run, nbar, ctx);
}

static size_t drain_fd(int fd, uint8_t **out)
{
	size_t cap = 65536, n = 0;
	uint8_t *b = malloc(cap);
	for (;;) {
		if (n == cap) { cap *= 2; b = realloc(b, cap); if (!b) vf_fail("out of memory"); }
		ssize_t r = read(fd, b + n, cap - n);
		if (r < 0) {
			if (errno == EINTR) continue;
			if (errno == EAGAIN || errno == EWOULDBLOCK) { struct pollfd p = { fd, POLLIN, 0 }; poll(&p, 1, 100); continue; }
			break;
		}
		if (r == 0) break;
		n += (size_t)r;
		vf_progress();
	}
	*out = b;
	return n;
}

static size_t draw_len(vf_rng_t *r, size_t hi)
{
	if (hi < 2) return hi;
	uint32_t c = vf_rnd_n(r, 100);
	size_t v = c < 25 ? vf_rnd_range(r, 1, 4096) : c < 65 ? vf_rnd_range(r, 4097, 131072) : vf_rnd_range(r, 131073, 1u << 20);
	if (v > hi) v = 1 + vf_rnd_n(r, (uint32_t)hi);
	return v;
}

static void retire(trial_t *t)
{
	atomic_store(&t->retired, 1);
	for (int i = 0; i < t->nops; i++) {
		op_t *op = &t->ops[i];
		atomic_store(&op->retired, 1);
		free(op->rbuf); op->rbuf = NULL;
		free(op->wbuf); op->wbuf = NULL;
	}
	free(t->ref); t->ref = NULL;
	free(t->drainer.got); t->drainer.got = NULL;
}

static void emit_trial(trial_t *t)
{
	int nr = 0, nw = 0, nb = 0, nz = 0, npost = 0, maxinv = 0;
	uint64_t br = 0, bw = 0, inv = 0;
	for (int i = 0; i < t->nops; i++) {
		op_t *op = &t->ops[i];
		if (op->kind == K_BARRIER) { nb++; continue; }
		if (op->kind == K_READ) { nr++; br += op->total; } else { nw++; bw += op->req - (op->rem_done <= op->req ? op->rem_done : op->req); }
		if (!op->req) nz++;
		if (op->post) npost++;
		inv += (uint64_t)op->ninv;
		if (op->ninv > maxinv) maxinv = op->ninv;
	}
	vf_count("read_ops", (uint64_t)nr); vf_count("write_ops", (uint64_t)nw);
	vf_count("bytes_read", br); vf_count("bytes_written", bw);
	vf_count("handler_invocations", inv);
	vf_count("partial_deliveries", (uint64_t)t->o_partial);
	vf_count("eof_seen", (uint64_t)t->o_eof);
	vf_count("hangup_seen", (uint64_t)t->o_hangup);
	vf_count("stop_in_flight", (uint64_t)t->o_stop_in_flight);
	vf_count("close_in_flight", (uint64_t)t->o_close_in_flight);
	vf_count("barrier_checked", (uint64_t)t->o_bchecked);
	vf_count("ecanceled_ops", (uint64_t)t->o_ecanceled);
	vf_count("cleanup_handlers", (uint64_t)t->nch);
	vf_count("ops_after_close", (uint64_t)npost);
	vf_count(tr_names[t->transport], 1);
	vf_count(ct_names[t->ctor], 1);
	int nontrivial = t->o_partial || t->o_stop_in_flight || t->o_close_in_flight;
	char a[24], b[24];
	vf_emit("trial", "\"n\":1,\"sig\":\"%s-%s-%s-%s|r%dw%db%dz%dp%d|wm%d|iv%d|%s%s|hq%d|o%d%d%d%d%d%d\",\"nontrivial\":%s,"
			"\"sample\":{\"trial\":%d,\"transport\":\"%s\",\"mode\":\"%s\",\"ctor\":\"%s\",\"dir\":\"%s\",\"ops\":\"%s\",\"stream_bytes\":%zu,\"low\":\"%s\",\"high\":\"%s\",\"interval_ns\":%llu,\"strict\":%d,"
			"\"close\":\"%s%s\",\"handler_queue\":\"%s\",\"max_invocations_per_op\":%d,\"bytes_read\":%llu,\"bytes_written\":%llu,\"partial\":%d,\"eof\":%d,\"ecanceled\":%d,\"in_flight_at_close\":%d,\"perturb\":\"%s\"}",
			tr_names[t->transport], t->mode == DISPATCH_IO_RANDOM ? "random" : "stream", ct_names[t->ctor], t->dir == K_READ ? "read" : "write",
			nr, nw, nb, nz, npost, t->wm_class, t->iv_class, t->ctor == CT_CONV ? "n/a" : cp_names[t->close_place], t->close_stop ? "+stop" : "", t->hq_kind,
			!!t->o_partial, !!t->o_eof, !!t->o_ecanceled, !!t->o_stop_in_flight, !!t->o_close_in_flight, !!t->o_hangup,
			nontrivial ? "true" : "false", t->idx, tr_names[t->transport], t->mode == DISPATCH_IO_RANDOM ? "random" : "stream", ct_names[t->ctor],
			t->dir == K_READ ? "read" : "write", t->opsdesc, t->ref_len, szs(t->ch[t->opch].low, a, sizeof(a)), szs(t->ch[t->opch].high, b, sizeof(b)),
			(unsigned long long)t->interval, t->strict, t->ctor == CT_CONV ? "n/a" : cp_names[t->close_place], t->close_stop ? "+stop" : "", hq_names[t->hq_kind],
			maxinv, (unsigned long long)br, (unsigned long long)bw, t->o_partial, t->o_eof, t->o_ecanceled, t->o_stop_in_flight + t->o_close_in_flight, t->prof.desc);
}

/* ------------------------------------------------------------ channel trials */
#define MAXPLAN 12
typedef struct { size_t len; off_t off; int barrier_before; } plan_t;

static void run_chan_trial(trial_t *t)
{
	vf_rng_t *r = &t->rng;
	char a[24], b[24];
	/* ---- draw the scenario */
	uint32_t k = vf_rnd_n(r, 100);
	t->transport = k < 40 ? TR_PIPE : k < 65 ? TR_SOCK : TR_FILE;
	t->mode = (t->transport == TR_FILE && vf_rnd_n(r, 2)) ? DISPATCH_IO_RANDOM : DISPATCH_IO_STREAM;
	k = vf_rnd_n(r, 100);
	t->ctor = t->transport == TR_FILE ? (k < 40 ? CT_CREATE : k < 75 ? CT_PATH : CT_WITH_IO) : (k < 75 ? CT_CREATE : CT_WITH_IO);
	t->path_parent = t->ctor == CT_WITH_IO && t->transport == TR_FILE && k >= 88;
	k = vf_rnd_n(r, 100);
	t->close_place = k < 22 ? CP_AFTER_DONE : k < 34 ? CP_RELEASE_ONLY : k < 42 ? CP_BEFORE_ANY : k < 62 ? CP_BETWEEN : CP_IN_FLIGHT;
	t->close_stop = t->close_place != CP_RELEASE_ONLY && vf_rnd_n(r, 2);
	if (t->directed) {
		t->transport = TR_PIPE; t->mode = DISPATCH_IO_STREAM; t->ctor = vf_rnd_n(r, 2) ? CT_CREATE : CT_WITH_IO; t->path_parent = 0;
		t->close_place = vf_rnd_n(r, 2) ? CP_AFTER_DONE : CP_RELEASE_ONLY; t->close_stop = 0;
	}
	/* water marks (low <= high always) and an optional change between operations */
	size_t low = 0, high = SIZE_MAX, mlow = 0, mhigh = SIZE_MAX;
	int what = 0;
	k = t->directed ? 0 : vf_rnd_n(r, 100);
	t->wm_class = k < 12 ? 0 : k < 32 ? 1 : k < 55 ? 2 : k < 82 ? 3 : k < 93 ? 4 : 5;
	int big_marks = 0;
	switch (t->wm_class) {
	case 0: break;
	case 1: high = draw_high(r); what = 2; break;
	case 2: low = draw_low(r); what = 1; break;
	case 3: low = draw_low(r); high = draw_high(r); if (low > high) { size_t x = low; low = high; high = x; } what = 3; break;
	case 4: low = high = draw_high(r); what = 3; break;
	default:
		/* marks beyond the library's internal buffer size (1 MiB chunks): data accumulates over several
		 * buffers below the low water mark, the high water mark is not a multiple of the buffer size */
		low = (1u << 20) + 1 + vf_rnd_n(r, 3u << 19);
		high = vf_rnd_n(r, 3) ? low + vf_rnd_n(r, 1u << 20) : low;
		what = 3; big_marks = 1;
		break;
	}
	int mid_at = vf_rnd_n(r, 8) == 0 ? (int)vf_rnd_range(r, 1, 3) : -1;
	if (t->directed) mid_at = -1;
	if (mid_at >= 0) { mlow = draw_low(r); mhigh = draw_high(r); if (mlow > mhigh) { size_t x = mlow; mlow = mhigh; mhigh = x; } }
	size_t minhigh = high;
	if (mid_at >= 0 && mhigh < minhigh) minhigh = mhigh;
	t->budget = budget_for(minhigh);
	if (big_marks && mid_at < 0) t->budget = (size_t)(((uint64_t)(3u << 20) + vf_rnd_n(r, 3u << 20)) * (uint64_t)(vf_opts.scale < 50 ? 50 : vf_opts.scale) / 100);
	t->iv_class = 0;
	if (vf_rnd_n(r, 10) < 3 && !t->directed) {
		static const uint64_t ivs[] = { 100000, 1000000, 3000000, 10000000 };
		t->iv_class = 1 + (int)vf_rnd_n(r, 4);
		t->interval = ivs[t->iv_class - 1];
		t->strict = (int)vf_rnd_n(r, 2);
	}
	/* ---- operations */
	plan_t pre[MAXPLAN], post[4];
	int npre = t->close_place == CP_BEFORE_ANY ? 0 : (int)vf_rnd_range(r, 1, 6);
	int npost = t->close_place == CP_RELEASE_ONLY ? 0 : (t->close_place == CP_BEFORE_ANY || t->close_place == CP_BETWEEN) ? (int)vf_rnd_range(r, 1, 3) : (int)vf_rnd_n(r, 3);
	int trailing_barrier = npre && vf_rnd_n(r, 5) == 0;
	size_t wtotal = 0, prefill = 0;
	if (t->dir == K_READ) {
		k = vf_rnd_n(r, 100);
		t->ref_len = k < 3 ? 0 : (big_marks && mid_at < 0) ? t->budget - vf_rnd_n(r, 4096) : draw_len(r, t->budget);
		t->ref = malloc(t->ref_len ? t->ref_len : 1);
		fill_coded(t->ref, 0, t->ref_len, t->salt);
		t->pos0 = (t->transport == TR_FILE && vf_rnd_n(r, 2)) ? (off_t)vf_rnd_n(r, (uint32_t)t->ref_len + 1) : 0;
	} else if (t->transport == TR_FILE) {
		prefill = vf_rnd_n(r, 3) ? vf_rnd_n(r, 100000) : 0;
		t->pos0 = prefill && vf_rnd_n(r, 2) ? (off_t)vf_rnd_n(r, (uint32_t)prefill + 1) : 0;
	}
	size_t cursor = 0, left = t->budget;
	for (int i = 0; i < npre + npost; i++) {
		plan_t *p = i < npre ? &pre[i] : &post[i - npre];
		p->barrier_before = i > 0 && i < npre && vf_rnd_n(r, 4) == 0;
		k = vf_rnd_n(r, 100);
		if (t->dir == K_READ) {
			size_t span = t->ref_len > (size_t)t->pos0 ? t->ref_len - (size_t)t->pos0 : 0;
			p->len = k < 6 ? 0 : k < 12 ? 1 : k < 27 ? vf_rnd_range(r, 2, 256) : k < 55 ? vf_rnd_range(r, 257, 65536) : k < 77 ? 1 + vf_rnd_n(r, (uint32_t)(span + span / 2 + 1)) : SIZE_MAX;
			p->off = t->mode == DISPATCH_IO_RANDOM ? (off_t)vf_rnd_n(r, (uint32_t)span + 17) : (vf_rnd_n(r, 4) ? 0 : (off_t)vf_rnd_n(r, 1000)) /* ignored for streams */;
		} else {
			size_t l = k < 6 ? 0 : k < 12 ? 1 : k < 32 ? vf_rnd_range(r, 2, 4096) : k < 72 ? vf_rnd_range(r, 4097, 100000) : vf_rnd_range(r, 100001, 524288);
			if (t->directed && i == 0) l = 300000;
			if (l > left) l = left;
			left -= l;
			p->len = l;
			cursor += vf_rnd_n(r, 3) ? 0 : vf_rnd_n(r, 64);
			p->off = t->mode == DISPATCH_IO_RANDOM ? (off_t)cursor : (vf_rnd_n(r, 4) ? 0 : (off_t)vf_rnd_n(r, 1000));
			cursor += l;
			wtotal += l;
		}
	}
	setup_queues(t);
	setup_transport(t, prefill);
	snprintf(t->desc, sizeof(t->desc), "trial %d: %s %s, %s, %s, %s%zu bytes%s, low=%s high=%s%s interval=%lluns%s, handler queue %s, %s, close placement %s%s, file pos0=%lld, %s",
			t->idx, tr_names[t->transport], t->mode == DISPATCH_IO_RANDOM ? "DISPATCH_IO_RANDOM" : "DISPATCH_IO_STREAM", ct_names[t->ctor],
			t->dir == K_READ ? "reads" : "writes", t->dir == K_READ ? "stream of " : "total submitted ", t->dir == K_READ ? t->ref_len : wtotal,
			t->pipe_small ? " (4 KiB pipe)" : "", (what & 1) ? szs(low, a, sizeof(a)) : "default", (what & 2) ? szs(high, b, sizeof(b)) : "default",
			mid_at >= 0 ? " (changed later)" : "", (unsigned long long)t->interval, t->strict ? " STRICT" : "", hq_names[t->hq_kind],
			t->cq == t->hq ? "cleanup on same queue" : "cleanup on own queue", cp_names[t->close_place], t->close_stop ? " with DISPATCH_IO_STOP" : "",
			(long long)t->pos0, t->prof.desc);
	make_channels(t);
	chan_t *c = &t->ch[t->opch];
	if (what) set_marks(t, c, low, high, what);
	if (t->interval) dispatch_io_set_interval(c->io, t->interval, t->strict ? DISPATCH_IO_STRICT_INTERVAL : 0);
	if (t->transport != TR_FILE) {
		if (t->dir == K_READ) start_feeder(t); else start_drainer(t, wtotal);
		if (t->dir == K_WRITE) {
			size_t l = strlen(t->desc);
			snprintf(t->desc + l, sizeof(t->desc) - l, ", drainer %s", ds_names[t->drainer.style]);
			if (t->drainer.style == DS_HANGUP) { l = strlen(t->desc); snprintf(t->desc + l, sizeof(t->desc) - l, " after %zu bytes", t->drainer.hang_after); }
		}
	}
	if (t->directed) vf_emit("sample", "\"directed\":\"pipe-hangup\",\"scenario\":\"%s\"", t->desc);
	/* ---- run */
	vf_watch_begin("io:channel-trial", 0);
	for (int i = 0; i < npre; i++) {
		if (i == mid_at) set_marks(t, c, mlow, mhigh, 3);
		if (pre[i].barrier_before) submit_barrier(t, t->opch);
		if (t->dir == K_READ) submit_read(t, t->opch, pre[i].len, pre[i].off); else submit_write(t, t->opch, pre[i].len, pre[i].off);
		if (vf_rnd_n(r, 6) == 0) sleep_us(vf_rnd_range(r, 20, 1500));
	}
	if (trailing_barrier) submit_barrier(t, t->opch);
	switch (t->close_place) {
	case CP_AFTER_DONE: wait_quiescent(t, "before-close"); do_close(t); break;
	case CP_RELEASE_ONLY: break;
	case CP_BEFORE_ANY: case CP_BETWEEN: do_close(t); break;
	case CP_IN_FLIGHT: {
		/* wait (bounded) until a chosen operation has had an invocation, or just for a while */
		op_t *tgt = &t->ops[vf_rnd_n(r, (uint32_t)t->nops)];
		uint64_t t0 = vf_now_ns(CLOCK_MONOTONIC), lim = (uint64_t)vf_rnd_range(r, 100, 15000) * 1000;
		int want = (int)vf_rnd_range(r, 1, 3);
		while (vf_now_ns(CLOCK_MONOTONIC) - t0 < lim && (tgt->kind == K_BARRIER || (atomic_load(&tgt->ninv_pub) < want && !atomic_load(&tgt->done_pub)))) sleep_us(50);
		do_close(t);
		break; }
	}
	for (int i = 0; i < npost; i++) {
		if (t->dir == K_READ) submit_read(t, t->opch, post[i].len, post[i].off); else submit_write(t, t->opch, post[i].len, post[i].off);
	}
	/* drop the references; with create_with_io the first (idle) channel is closed last */
	dispatch_release(c->io);
	if (t->ctor == CT_WITH_IO) {
		if (t->close_place != CP_RELEASE_ONLY) dispatch_io_close(t->ch[0].io, 0);
		dispatch_release(t->ch[0].io);
	}
	wait_quiescent(t, t->dir == K_READ ? "read" : "write");
	vf_wait_counter(&t->cleanups, (uint64_t)t->nch, "io:cleanup-handler-runs-after-close-or-release");
	vf_watch_end();
	vf_perturb_off();
	/* ---- the descriptor is ours again: look at what is left / what arrived */
	uint8_t *rest = NULL; size_t rest_len = 0; off_t fp = -1;
	vf_watch_begin("io:post-trial-drain", 0);
	if (t->dir == K_READ) {
		if (t->transport != TR_FILE) {
			rest_len = drain_fd(t->fd_lib, &rest);
			pthread_join(t->th, NULL); t->th_running = 0;
			if (t->feeder.err || t->feeder.written != t->ref_len) vf_fail("feeder wrote %zu of %zu bytes (errno %d)", t->feeder.written, t->ref_len, t->feeder.err);
		} else if (t->mode == DISPATCH_IO_STREAM && t->fd_lib >= 0) fp = lseek(t->fd_lib, 0, SEEK_CUR);
		if (t->mode == DISPATCH_IO_STREAM) check_stream_reads(t, rest ? rest : (t->transport != TR_FILE ? (const uint8_t *)"" : NULL), rest_len, fp);
		else check_random_reads(t);
	} else {
		if (t->transport != TR_FILE) {
			close(t->fd_lib); t->fd_lib = -1;
			pthread_join(t->th, NULL); t->th_running = 0;
			if (t->drainer.overflow) VIOL(t, "C14:write:conservation", "%zu bytes reached the peer, only %zu were submitted", t->drainer.n, wtotal);
			else check_write_conservation(t, t->drainer.got, t->drainer.n, t->drainer.style != DS_HANGUP);
		} else {
			if (t->fd_verify < 0) t->fd_verify = open(t->path, O_RDONLY);
			if (t->fd_verify < 0) check_write_conservation(t, (const uint8_t *)"", 0, 1);   /* never created: nothing may be reported written */
			else if (t->mode == DISPATCH_IO_STREAM) {
				size_t exp = 0;
				for (int i = 0; i < t->nops; i++) if (t->ops[i].kind == K_WRITE) exp += t->ops[i].req - (t->ops[i].rem_done <= t->ops[i].req ? t->ops[i].rem_done : t->ops[i].req);
				uint8_t *got = malloc(exp + 1);
				ssize_t n = pread(t->fd_verify, got, exp, t->pos0);
				check_write_conservation(t, got, n < 0 ? 0 : (size_t)n, 1);
				if (t->fd_lib >= 0 && (fp = lseek(t->fd_lib, 0, SEEK_CUR)) != t->pos0 + (off_t)exp) VIOL(t, "C14:write:conservation", "file position after the writes is %lld, expected %lld + %zu written bytes", (long long)fp, (long long)t->pos0, exp);
				free(got);
			} else {
				for (int i = 0; i < t->nops; i++) {
					op_t *op = &t->ops[i];
					if (op->kind != K_WRITE) continue;
					size_t wr = op->req - (op->rem_done <= op->req ? op->rem_done : op->req);
					uint8_t *got = malloc(wr + 1);
					ssize_t n = pread(t->fd_verify, got, wr, t->pos0 + op->off);
					size_t bad = first_diff(got, op->wbuf, n < 0 ? 0 : (size_t)n);
					if (n < 0 || (size_t)n < wr || bad < wr) {
						char bb[320]; op_brief(op, bb, sizeof(bb));
						VIOL(t, "C14:write:conservation", "%s: random-access write at file offset %lld: %zu bytes reported written, file holds %zd of them, first differing byte %zu", bb, (long long)(t->pos0 + op->off), wr, n, bad);
					}
					free(got);
				}
			}
		}
	}
	vf_watch_end();
	free(rest);
	for (int i = 0; i < t->nops; i++) if (t->ops[i].kind != K_BARRIER) check_op(t, &t->ops[i]);
	if (t->mode == DISPATCH_IO_STREAM) check_order(t);
	check_barriers(t);
	check_cleanup(t);
	if (t->fd_lib >= 0) close(t->fd_lib);
	if (t->fd_verify >= 0) close(t->fd_verify);
	if (t->path[0]) unlink(t->path);
}

/* ------------------------------------------------------------ convenience API trials */
static void conv_submit_read(trial_t *t, size_t len)
{
	op_t *op = new_op(t, K_READ, 0);
	char a[24];
	op->conv = 1; op->req = len;
	opsdesc_add(t, "dr%s", szs(len, a, sizeof(a)));
	op->call = vf_stamp();
	if (op->fform) dispatch_read_f(t->fd_lib, len, t->hq, op, h_conv);
	else dispatch_read(t->fd_lib, len, t->hq, ^(dispatch_data_t d, int err) { h_conv(op, d, err); });
	op->ret = vf_stamp();
	vf_progress();
}
static void conv_submit_write(trial_t *t, size_t len)
{
	op_t *op = new_op(t, K_WRITE, 0);
	op->conv = 1; op->req = len; op->rem = len;
	op->wbuf = malloc(len ? len : 1);
	fill_coded(op->wbuf, t->wcum, len, t->salt);
	t->wcum += len;
	opsdesc_add(t, "dw%zu", len);
	dispatch_data_t d = make_data(&t->rng, op->wbuf, len);
	op->call = vf_stamp();
	if (op->fform) dispatch_write_f(t->fd_lib, d, t->hq, op, h_conv);
	else dispatch_write(t->fd_lib, d, t->hq, ^(dispatch_data_t rd, int err) { h_conv(op, rd, err); });
	op->ret = vf_stamp();
	dispatch_release(d);
	vf_progress();
}

static void run_conv_trial(trial_t *t)
{
	vf_rng_t *r = &t->rng;
	uint32_t k = vf_rnd_n(r, 100);
	t->transport = k < 40 ? TR_PIPE : k < 65 ? TR_SOCK : TR_FILE;
	if (t->directed) t->transport = TR_PIPE;
	t->mode = DISPATCH_IO_STREAM;
	t->ctor = CT_CONV;
	t->nch = 0; t->opch = 0;
	t->ch[0].high = SIZE_MAX;
	t->budget = budget_for(SIZE_MAX) / 4;
	size_t wl[8]; int nw = 0; size_t wtotal = 0, prefill = 0;
	if (t->dir == K_READ) {
		t->ref_len = vf_rnd_n(r, 30) == 0 ? 0 : draw_len(r, t->budget);
		t->ref = malloc(t->ref_len ? t->ref_len : 1);
		fill_coded(t->ref, 0, t->ref_len, t->salt);
		t->pos0 = (t->transport == TR_FILE && vf_rnd_n(r, 2)) ? (off_t)vf_rnd_n(r, (uint32_t)t->ref_len + 1) : 0;
	} else {
		nw = (int)vf_rnd_range(r, 1, 5);
		size_t left = t->budget * 2;
		for (int i = 0; i < nw; i++) {
			k = vf_rnd_n(r, 100);
			size_t l = k < 5 ? 0 : k < 10 ? 1 : k < 30 ? vf_rnd_range(r, 2, 4096) : k < 75 ? vf_rnd_range(r, 4097, 100000) : vf_rnd_range(r, 100001, 400000);
			if (t->directed && i == 0) l = 300000;
			if (l > left) l = left;
			left -= l; wl[i] = l; wtotal += l;
		}
		if (t->transport == TR_FILE) { prefill = vf_rnd_n(r, 3) ? vf_rnd_n(r, 100000) : 0; t->pos0 = prefill && vf_rnd_n(r, 2) ? (off_t)vf_rnd_n(r, (uint32_t)prefill + 1) : 0; }
	}
	setup_queues(t);
	setup_transport(t, prefill);
	snprintf(t->desc, sizeof(t->desc), "trial %d: %s, convenience API %s, %s%zu bytes%s, handler queue %s, file pos0=%lld, %s", t->idx, tr_names[t->transport],
			t->dir == K_READ ? "dispatch_read" : "dispatch_write", t->dir == K_READ ? "stream of " : "total submitted ", t->dir == K_READ ? t->ref_len : wtotal,
			t->pipe_small ? " (4 KiB pipe)" : "", hq_names[t->hq_kind], (long long)t->pos0, t->prof.desc);
	if (t->transport != TR_FILE) {
		if (t->dir == K_READ) {
			start_feeder(t);
		} else {
			start_drainer(t, wtotal);
			size_t l = strlen(t->desc);
			snprintf(t->desc + l, sizeof(t->desc) - l, ", drainer %s after %zu", ds_names[t->drainer.style], t->drainer.hang_after);
		}
	}
	if (t->directed) vf_emit("sample", "\"directed\":\"pipe-hangup\",\"scenario\":\"%s\"", t->desc);
	vf_watch_begin("io:convenience-trial", 0);
	if (t->dir == K_READ) {
		int rounds = 0, eof = 0;
		while (!eof && rounds < 24 && t->nops + 2 <= t->maxops) {
			int first = t->nops, n = (vf_rnd_n(r, 4) == 0 && vf_opt_long("conv-pair", 1)) ? 2 : 1;
			for (int i = 0; i < n; i++) {
				k = vf_rnd_n(r, 100);
				conv_submit_read(t, k < 10 ? 1 : k < 30 ? vf_rnd_range(r, 2, 512) : k < 60 ? vf_rnd_range(r, 513, 65536) : k < 75 ? vf_rnd_range(r, 65537, 1u << 20) : SIZE_MAX);
			}
			wait_quiescent(t, "dispatch_read");
			for (int i = first; i < t->nops; i++) if (t->ops[i].total == 0 && t->ops[i].err_done == 0) eof = 1;
			if (t->ops[first].err_done) break;
			rounds++;
		}
	} else {
		int i = 0;
		while (i < nw) {
			int n = (i + 1 < nw && vf_rnd_n(r, 3) == 0) ? 2 : 1;
			for (int j = 0; j < n; j++) conv_submit_write(t, wl[i++]);
			if (vf_rnd_n(r, 2)) wait_quiescent(t, "dispatch_write");
		}
		wait_quiescent(t, "dispatch_write");
	}
	vf_watch_end();
	vf_perturb_off();
	uint8_t *rest = NULL; size_t rest_len = 0; off_t fp = -1;
	vf_watch_begin("io:post-trial-drain", 0);
	if (t->dir == K_READ) {
		if (t->transport != TR_FILE) {
			rest_len = drain_fd(t->fd_lib, &rest);
			pthread_join(t->th, NULL); t->th_running = 0;
			if (t->feeder.err || t->feeder.written != t->ref_len) vf_fail("feeder wrote %zu of %zu bytes (errno %d)", t->feeder.written, t->ref_len, t->feeder.err);
		} else fp = lseek(t->fd_lib, 0, SEEK_CUR);
		check_stream_reads(t, rest, rest_len, fp);
	} else if (t->transport != TR_FILE) {
		close(t->fd_lib); t->fd_lib = -1;
		pthread_join(t->th, NULL); t->th_running = 0;
		if (t->drainer.overflow) VIOL(t, "C14:write:conservation", "%zu bytes reached the peer, only %zu were submitted", t->drainer.n, wtotal);
		else check_write_conservation(t, t->drainer.got, t->drainer.n, t->drainer.style != DS_HANGUP);
	} else {
		size_t exp = 0;
		for (int i = 0; i < t->nops; i++) exp += t->ops[i].req - (t->ops[i].rem_done <= t->ops[i].req ? t->ops[i].rem_done : t->ops[i].req);
		uint8_t *got = malloc(exp + 1);
		ssize_t n = pread(t->fd_verify, got, exp, t->pos0);
		check_write_conservation(t, got, n < 0 ? 0 : (size_t)n, 1);
		if ((fp = lseek(t->fd_lib, 0, SEEK_CUR)) != t->pos0 + (off_t)exp) VIOL(t, "C14:write:conservation", "file position after dispatch_write is %lld, expected %lld + %zu written bytes", (long long)fp, (long long)t->pos0, exp);
		free(got);
	}
	vf_watch_end();
	free(rest);
	for (int i = 0; i < t->nops; i++) {
		op_t *op = &t->ops[i];
		check_op(t, op);
		if (op->kind == K_READ && op->total > op->req) VIOL(t, "C14:read:exceeds-requested-length", "dispatch_read(length %zu) delivered %zu bytes", op->req, op->total);
	}
	check_order(t);
	vf_count(t->dir == K_READ ? "conv_reads" : "conv_writes", (uint64_t)t->nops);
	if (t->fd_lib >= 0) close(t->fd_lib);
	if (t->fd_verify >= 0) close(t->fd_verify);
}

/* ------------------------------------------------------------ main */
static void run_trial(int idx)
{
	trial_t *t = calloc(1, sizeof(*t));   /* records stay allocated: a late handler invocation must find them */
	t->idx = idx;
	vf_rng_seed(&t->rng, vf_opts.seed, (uint64_t)idx * 6389 + 41);
	vf_rng_t *r = &t->rng;
	t->salt = vf_rnd(r) | 1;
	vf_perturb_draw(r, &t->prof);
	const char *mode = vf_opts.mode;
	uint32_t k = vf_rnd_n(r, 100);
	int conv = k >= 72;
	t->dir = (k < 40 || (k >= 72 && k < 86)) ? K_READ : K_WRITE;
	if (!strcmp(mode, "read")) { conv = 0; t->dir = K_READ; }
	else if (!strcmp(mode, "write")) { conv = 0; t->dir = K_WRITE; }
	else if (!strcmp(mode, "conv")) conv = 1;
	else if (!strcmp(mode, "chan")) conv = 0;
	else if (!strcmp(mode, "pipe-hangup")) {
		/* directed scenario; no delays at the atomics so that a spinning manager thread shows up as CPU time */
		t->directed = 1; t->dir = K_WRITE; conv = (int)vf_rnd_n(r, 2);
		vf_perturb_off(); t->prof.kind = VF_P_OFF; snprintf(t->prof.desc, sizeof(t->prof.desc), "off");
	}
	t->maxops = conv ? MAXOPS : 24;
	t->ops = calloc((size_t)t->maxops, sizeof(op_t));
	if (conv) run_conv_trial(t); else run_chan_trial(t);
	emit_trial(t);
	retire(t);
	teardown_queues(t);
}

int main(int argc, char **argv)
{
	vf_init(argc, argv, "h_io");
	for (int i = 0; i < vf_opts.trials; i++) run_trial(vf_opts.first_trial + i);
	return vf_finish();
}
