/*
 * h_iobad.c — C14 / C17 on descriptors and paths the library cannot use.
 *
 * Every other I/O workload (h_io) works on healthy pipes, sockets and files; here channel creation
 * or the first system call fails:
 *   invalid-fd     a descriptor number that is not open (EBADF at fstat)
 *   random-on-pipe DISPATCH_IO_RANDOM channel on a pipe (ESPIPE)
 *   directory      channel on a directory descriptor (EISDIR)
 *   missing-path   dispatch_io_create_with_path on a path that does not exist (ENOENT at open)
 *   wrong-mode-file / wrong-mode-pipe
 *                  a healthy regular file / pipe end opened for the other direction: the first
 *                  read()/write() fails with EBADF while further operations are already queued
 *   path-vanishes  dispatch_io_create_with_path on a file that is removed before the first operation
 *                  (the descriptor is opened lazily: open() fails with ENOENT)
 * Channels are used directly or through a second channel made with dispatch_io_create_with_io.
 * Directed jobs (--force-class=3 --force-derived=1 --force-close=1 --trials=1): the very first use of dispatch I/O in a
 * process is a channel derived from one whose path does not exist, closed with DISPATCH_IO_STOP (F35).
 * In the wrong-mode-file class (and now and then in the others) a "bystander" channel on a healthy
 * file of the same device carries reads and writes at the same time: they must not notice.
 * through the convenience API (dispatch_read / dispatch_write, block and _f forms) and through
 * channels (dispatch_io_create*, dispatch_io_read / _write, close or release).
 *
 * Oracle (all at the client boundary):
 *   C14  every operation's handler sees done exactly once, is never invoked again afterwards, reports
 *        a non-zero error; a failed read delivers no bytes; a failed write reports the submitted bytes
 *        as unwritten (nothing reached a descriptor: bytes written + bytes reported unwritten must be
 *        the submitted data); the cleanup handler of every channel runs exactly once with a non-zero
 *        error [its position relative to the operations' handlers is recorded, not judged: a failed
 *        creation relinquishes the descriptor at once, later operations necessarily follow]. Bystander
 *        operations complete in full with error 0 and the right bytes.
 *   C17  every data object handed to a write is finalised: its destructor(s) run exactly once after
 *        the application dropped its reference and the operation completed (LSan in the asan flavor
 *        sees the same leak from the allocator's side).
 */
#include "vf_common.h"
#include <dispatch/dispatch.h>
#include <dispatch/private.h>
#include <fcntl.h>
#include <unistd.h>
#include <errno.h>
#include <sched.h>

enum { CL_INVALID_FD, CL_RANDOM_ON_PIPE, CL_DIRECTORY, CL_MISSING_PATH, CL_WRONG_MODE_FILE, CL_WRONG_MODE_PIPE, CL_PATH_VANISHES, CL_N };
static const char *const cl_names[] = { "invalid-fd", "random-on-pipe", "directory", "missing-path", "wrong-mode-file", "wrong-mode-pipe", "path-vanishes" };
#define BY_SZ (256u * 1024u)
#define BY_MAX 16
enum { K_READ, K_WRITE };
enum { VIA_CONV, VIA_CHANNEL };

struct btrial;
typedef struct bop {
	struct btrial *t;
	int kind, via, fform;
	size_t len;
	uint8_t *ref;                       /* copy of the submitted bytes (writes) */
	_Atomic uint32_t invocations, dones, in_handler;
	int err;
	int rem_null; size_t rem_size; int rem_mismatch; size_t got_bytes;
	uint64_t last_end;
	int pieces;                          /* destructors expected */
	_Atomic uint32_t destroyed;
} bop_t;

typedef struct byop {
	struct btrial *t;
	int kind, slot;
	_Atomic uint32_t dones;
	int err; size_t got, rest; int mismatch;
	uint8_t *buf;        /* read: bytes delivered; write: bytes submitted */
} byop_t;

typedef struct btrial {
	int idx, cls, via, hq_kind, nops;
	int only_kind;                      /* -1 = reads and writes; else the direction that fails */
	int by_n, by_fd; char by_path[64]; dispatch_io_t by_io; byop_t by[BY_MAX]; uint8_t *by_ref;
	dispatch_queue_t hq, cq, dq;        /* handler queue, cleanup queue, data destructor queue */
	dispatch_io_t io;
	_Atomic uint32_t cleanups; int cleanup_err; uint64_t cleanup_start;
	_Atomic uint32_t base_cleanups; int derived;
	bop_t ops[8];
	_Atomic uint64_t events, expected;   /* handler dones + cleanup */
	_Atomic uint64_t destroyed, destroy_expected;
	uint64_t salt;
	vf_rng_t rng;
	vf_profile_t prof;
} btrial_t;

#define VIOL(key, ...) vf_violation(key, __VA_ARGS__)

static void h_io(void *ctx, bool done, dispatch_data_t d, int err)
{
	bop_t *op = ctx;
	btrial_t *t = op->t;
	char k[160];
	if (atomic_exchange(&op->in_handler, 1)) {
		snprintf(k, sizeof(k), "C14:%s:handler-reentered:%s", op->kind == K_READ ? "read" : "write", cl_names[t->cls]);
		VIOL(k, "handler of one operation running twice at once");
	}
	uint32_t n = atomic_fetch_add(&op->invocations, 1);
	if (atomic_load(&op->dones)) {
		snprintf(k, sizeof(k), "C14:%s:handler-after-done:%s", op->kind == K_READ ? "read" : "write", cl_names[t->cls]);
		VIOL(k, "handler invoked again (invocation %u) after it saw done", n + 1);
	}
	size_t sz = d ? dispatch_data_get_size(d) : 0;
	if (op->kind == K_READ) op->got_bytes += sz;
	if (done) {
		op->err = err;
		if (op->kind == K_WRITE) {
			op->rem_null = (d == NULL); op->rem_size = sz;
			if (d && sz == op->len && sz) {
				const void *p; size_t l;
				dispatch_data_t m = dispatch_data_create_map(d, &p, &l);
				if (l != sz || memcmp(p, op->ref, sz)) op->rem_mismatch = 1;
				dispatch_release(m);
			}
		}
	}
	vf_progress();
	op->last_end = vf_stamp();
	atomic_store(&op->in_handler, 0);
	if (done) {
		atomic_fetch_add(&op->dones, 1);
		atomic_fetch_add_explicit(&t->events, 1, memory_order_release);
	}
}
static void h_conv(void *ctx, dispatch_data_t d, int err) { h_io(ctx, true, d, err); }

static void h_cleanup(void *ctx, int err)
{
	btrial_t *t = ctx;
	t->cleanup_start = vf_stamp();
	t->cleanup_err = err;
	vf_progress();
	atomic_fetch_add(&t->cleanups, 1);
	atomic_fetch_add_explicit(&t->events, 1, memory_order_release);
}

/* a data object of len coded bytes made of 1-3 pieces, each with its own counting destructor */
static dispatch_data_t make_data(btrial_t *t, bop_t *op, size_t len)
{
	vf_rng_t *r = &t->rng;
	op->ref = malloc(len ? len : 1);
	for (size_t i = 0; i < len; i++) op->ref[i] = (uint8_t)vf_hash64(t->salt, i + (uint64_t)(op - t->ops) * 1000003);
	int pieces = len >= 3 ? (int)vf_rnd_range(r, 1, 3) : 1;
	dispatch_data_t acc = NULL;
	size_t off = 0;
	for (int p = 0; p < pieces; p++) {
		size_t l = p == pieces - 1 ? len - off : vf_rnd_range(r, 1, (uint32_t)(len - off - (size_t)(pieces - 1 - p)));
		uint8_t *buf = malloc(l ? l : 1);
		memcpy(buf, op->ref + off, l);
		dispatch_data_t piece = dispatch_data_create(buf, l, vf_rnd_n(r, 2) ? t->dq : NULL, ^{
			free(buf);
			if (atomic_fetch_add(&op->destroyed, 1) >= (uint32_t)op->pieces) VIOL("C17:data-destructor-ran-twice:write-on-unusable-descriptor", "a piece of the data object of a failed write was destroyed twice");
			atomic_fetch_add_explicit(&t->destroyed, 1, memory_order_release);
		});
		if (!acc) acc = piece;
		else { dispatch_data_t c = dispatch_data_create_concat(acc, piece); dispatch_release(acc); dispatch_release(piece); acc = c; }
		off += l;
	}
	op->pieces = pieces;
	atomic_fetch_add(&t->destroy_expected, (uint64_t)pieces);
	return acc;
}

static void h_by(byop_t *b, bool done, dispatch_data_t d, int err)
{
	if (atomic_load(&b->dones)) VIOL("C14:bystander:handler-after-done", "bystander operation's handler invoked after done");
	if (b->kind == K_READ && d) {
		dispatch_data_apply(d, ^bool(dispatch_data_t rgn, size_t off, const void *p, size_t len) {
			(void)rgn; (void)off;
			if (b->got + len <= BY_SZ) memcpy(b->buf + b->got, p, len); else b->mismatch = 1;
			b->got += len;
			return true;
		});
	}
	if (done) {
		b->err = err;
		if (b->kind == K_WRITE) b->rest = d ? dispatch_data_get_size(d) : 0;
		vf_progress();
		atomic_fetch_add(&b->dones, 1);
		atomic_fetch_add_explicit(&b->t->events, 1, memory_order_release);
	}
}
static void by_fill(uint8_t *p, uint64_t salt, size_t base, size_t n) { for (size_t i = 0; i < n; i++) p[i] = (uint8_t)(vf_hash64(salt ^ 0x5bd1e995, (base + i) >> 3) >> (8 * ((base + i) & 7))); }
static void by_setup(btrial_t *t)
{
	snprintf(t->by_path, sizeof(t->by_path), "/tmp/vf_iobad_%d_XXXXXX", (int)getpid());
	t->by_fd = mkstemp(t->by_path);
	if (t->by_fd < 0) vf_fail("mkstemp: %s", strerror(errno));
	size_t total = (size_t)BY_MAX * BY_SZ;
	t->by_ref = malloc(total);
	by_fill(t->by_ref, t->salt, 0, total);
	for (size_t off = 0; off < total; ) { ssize_t w = pwrite(t->by_fd, t->by_ref + off, total - off, (off_t)off); if (w <= 0) vf_fail("pwrite: %s", strerror(errno)); off += (size_t)w; }
	t->by_io = dispatch_io_create(DISPATCH_IO_RANDOM, t->by_fd, t->cq, ^(int e) { if (e) VIOL("C14:bystander:cleanup-error", "cleanup handler of the bystander channel got error %d", e); atomic_fetch_add_explicit(&t->events, 1, memory_order_release); });
	atomic_fetch_add(&t->expected, 1);
}
/* slot i owns bytes [i*BY_SZ, (i+1)*BY_SZ): reads expect the prefilled pattern, writes replace it with the complemented pattern */
static void by_submit(btrial_t *t)
{
	if (t->by_n >= BY_MAX) return;
	byop_t *b = &t->by[t->by_n];
	b->t = t; b->slot = t->by_n++; b->kind = (int)vf_rnd_n(&t->rng, 2);
	b->buf = malloc(BY_SZ);
	atomic_fetch_add(&t->expected, 1);
	off_t off = (off_t)b->slot * BY_SZ;
	if (b->kind == K_READ) dispatch_io_read(t->by_io, off, BY_SZ, t->hq, ^(bool done, dispatch_data_t d, int e) { h_by(b, done, d, e); });
	else {
		for (size_t i = 0; i < BY_SZ; i++) b->buf[i] = (uint8_t)~t->by_ref[(size_t)off + i];
		dispatch_data_t d = dispatch_data_create(b->buf, BY_SZ, NULL, ^{});
		dispatch_io_write(t->by_io, off, d, t->hq, ^(bool done, dispatch_data_t rd, int e) { h_by(b, done, rd, e); });
		dispatch_release(d);
	}
}
static void by_check(btrial_t *t)
{
	char what[160];
	uint8_t *now = malloc(BY_SZ);
	for (int i = 0; i < t->by_n; i++) {
		byop_t *b = &t->by[i];
		snprintf(what, sizeof(what), "bystander %s of %u bytes at offset %u on a healthy file while operations on %s fail (trial %d)", b->kind == K_READ ? "read" : "write", BY_SZ, (unsigned)b->slot * BY_SZ, cl_names[t->cls], t->idx);
		if (atomic_load(&b->dones) != 1) { VIOL("C14:bystander:done-count", "%s: done seen %u times", what, atomic_load(&b->dones)); continue; }
		if (b->kind == K_READ) {
			if (b->err || b->got != BY_SZ || b->mismatch || memcmp(b->buf, t->by_ref + (size_t)b->slot * BY_SZ, BY_SZ))
				VIOL("C14:read:bystander-descriptor-disturbed", "%s: error %d, %zu bytes delivered%s", what, b->err, b->got, b->got == BY_SZ ? " (contents differ)" : "");
		} else {
			ssize_t r = pread(t->by_fd, now, BY_SZ, (off_t)b->slot * BY_SZ);
			size_t reached = 0;
			while (r > 0 && reached < (size_t)r && now[reached] == b->buf[reached]) reached++;
			if (b->err || b->rest || reached != BY_SZ)
				VIOL("C14:write:bystander-descriptor-disturbed", "%s: error %d, %zu bytes reported unwritten, %zu of the submitted bytes are in the file", what, b->err, b->rest, reached);
		}
	}
	free(now);
	vf_count("bystander_operations_on_healthy_file", (uint64_t)t->by_n);
}

static void submit(btrial_t *t, bop_t *op, int fd)
{
	vf_rng_t *r = &t->rng;
	op->t = t; op->via = t->via; op->fform = (int)vf_rnd_n(r, 2);
	op->kind = (int)vf_rnd_n(r, 2);
	if (t->only_kind >= 0) op->kind = t->only_kind;
	static const size_t lens[] = { 1, 7, 512, 4096, 70000, 1 << 20 };
	op->len = lens[vf_rnd_n(r, 6)];
	atomic_fetch_add(&t->expected, 1);
	if (op->kind == K_WRITE) {
		dispatch_data_t d = make_data(t, op, op->len);
		if (t->via == VIA_CONV) {
			if (op->fform) dispatch_write_f(fd, d, t->hq, op, h_conv);
			else dispatch_write(fd, d, t->hq, ^(dispatch_data_t rd, int e) { h_conv(op, rd, e); });
		} else {
			off_t off = (off_t)vf_rnd_n(r, 4096);
			if (op->fform) dispatch_io_write_f(t->io, off, d, t->hq, op, h_io);
			else dispatch_io_write(t->io, off, d, t->hq, ^(bool done, dispatch_data_t rd, int e) { h_io(op, done, rd, e); });
		}
		dispatch_release(d);
	} else {
		if (t->via == VIA_CONV) {
			if (op->fform) dispatch_read_f(fd, op->len, t->hq, op, h_conv);
			else dispatch_read(fd, op->len, t->hq, ^(dispatch_data_t rd, int e) { h_conv(op, rd, e); });
		} else {
			off_t off = (off_t)vf_rnd_n(r, 4096);
			if (op->fform) dispatch_io_read_f(t->io, off, op->len, t->hq, op, h_io);
			else dispatch_io_read(t->io, off, op->len, t->hq, ^(bool done, dispatch_data_t rd, int e) { h_io(op, done, rd, e); });
		}
	}
	vf_progress();
}

static btrial_t **g_kept; static int g_nkept;   /* trials stay reachable (LSan) and allocated (late handler invocations) */
static void run_trial(int idx)
{
	btrial_t *t = calloc(1, sizeof(*t));
	g_kept = realloc(g_kept, sizeof(*g_kept) * (size_t)(g_nkept + 1)); g_kept[g_nkept++] = t;
	t->idx = idx;
	vf_rng_seed(&t->rng, vf_opts.seed, (uint64_t)idx * 7919 + 31);
	vf_rng_t *r = &t->rng;
	t->salt = vf_rnd(r) | 1;
	vf_perturb_draw(r, &t->prof);
	t->cls = (int)vf_rnd_n(r, CL_N);
	if (vf_opt_long("force-class", -1) >= 0) t->cls = (int)vf_opt_long("force-class", -1);   /* directed jobs: --force-class / --force-derived / --force-close */
	/* the convenience API takes a descriptor: only descriptor classes; a path only makes channels */
	t->via = (t->cls == CL_RANDOM_ON_PIPE || t->cls == CL_MISSING_PATH || t->cls == CL_PATH_VANISHES) ? VIA_CHANNEL : (int)vf_rnd_n(r, 2);
	t->only_kind = -1; t->by_fd = -1;
	t->hq_kind = (int)vf_rnd_n(r, 3);
	t->hq = t->hq_kind == 0 ? dispatch_queue_create("vf.iobad.handlers", DISPATCH_QUEUE_SERIAL)
		: t->hq_kind == 1 ? dispatch_queue_create("vf.iobad.handlers", DISPATCH_QUEUE_CONCURRENT) : dispatch_get_global_queue(0, 0);
	t->cq = dispatch_queue_create("vf.iobad.cleanup", DISPATCH_QUEUE_SERIAL);
	t->dq = dispatch_queue_create("vf.iobad.destructors", DISPATCH_QUEUE_SERIAL);
	t->nops = (int)vf_rnd_range(r, 1, 6);
	int fd = -1, fd2 = -1;
	char path[128] = "";
	switch (t->cls) {
	case CL_INVALID_FD: fd = 200000 + (int)vf_rnd_n(r, 100000); if (fcntl(fd, F_GETFD) != -1 || errno != EBADF) vf_fail("descriptor %d unexpectedly open", fd); break;
	case CL_RANDOM_ON_PIPE: { int p[2]; if (pipe(p)) vf_fail("pipe"); fd = p[vf_rnd_n(r, 2)]; fd2 = p[0] == fd ? p[1] : p[0]; break; }
	case CL_DIRECTORY: fd = open("/", O_RDONLY | O_DIRECTORY); if (fd < 0) vf_fail("open /"); break;
	case CL_MISSING_PATH: snprintf(path, sizeof(path), "/nonexistent-vf-%llx/file-%d", (unsigned long long)t->salt, idx); break;
	case CL_WRONG_MODE_FILE: {
		snprintf(path, sizeof(path), "/tmp/vf_iobadw_%d_XXXXXX", (int)getpid());
		int tfd = mkstemp(path); if (tfd < 0) vf_fail("mkstemp");
		char fill[8192]; memset(fill, 0x5a, sizeof(fill)); if (write(tfd, fill, sizeof(fill)) < 0) vf_fail("write"); close(tfd);
		t->only_kind = (int)vf_rnd_n(r, 2);
		fd = open(path, t->only_kind == K_WRITE ? O_RDONLY : O_WRONLY); if (fd < 0) vf_fail("open %s", path);
		break; }
	case CL_PATH_VANISHES: {
		snprintf(path, sizeof(path), "/tmp/vf_iobadv_%d_XXXXXX", (int)getpid());
		int tfd = mkstemp(path); if (tfd < 0) vf_fail("mkstemp");
		char fill[4096]; memset(fill, 0x33, sizeof(fill)); if (write(tfd, fill, sizeof(fill)) < 0) vf_fail("write"); close(tfd);
		break; }
	default: { int p[2]; if (pipe(p)) vf_fail("pipe"); t->only_kind = (int)vf_rnd_n(r, 2); fd = t->only_kind == K_WRITE ? p[0] : p[1]; fd2 = t->only_kind == K_WRITE ? p[1] : p[0]; break; }
	}
	int bystander = t->cls == CL_WRONG_MODE_FILE || vf_rnd_n(r, 4) == 0;
	if (bystander) { by_setup(t); int k = (int)vf_rnd_range(r, 1, 5); while (k--) by_submit(t); }
	vf_watch_begin("iobad:operations-and-cleanup-complete", 0);
	int late_ops = (int)vf_rnd_n(r, 3);   /* 0: right away; 1: after a short pause; 2: after the creation failure was surely processed */
	if (t->via == VIA_CHANNEL) {
		dispatch_io_type_t ty = t->cls == CL_RANDOM_ON_PIPE ? DISPATCH_IO_RANDOM : (dispatch_io_type_t)vf_rnd_n(r, 2);
		int ff = (int)vf_rnd_n(r, 2);
		atomic_fetch_add(&t->expected, 1);   /* the cleanup handler */
		if (t->cls == CL_MISSING_PATH || t->cls == CL_PATH_VANISHES) {
			int oflag = vf_rnd_n(r, 2) ? O_RDONLY : O_RDWR;
			t->io = ff ? dispatch_io_create_with_path_f(ty, path, oflag, 0, t->cq, t, h_cleanup) : dispatch_io_create_with_path(ty, path, oflag, 0, t->cq, ^(int e) { h_cleanup(t, e); });
		} else {
			t->io = ff ? dispatch_io_create_f(ty, fd, t->cq, t, h_cleanup) : dispatch_io_create(ty, fd, t->cq, ^(int e) { h_cleanup(t, e); });
		}
		if (!t->io) vf_fail("dispatch_io_create* returned NULL for class %s", cl_names[t->cls]);
		if (t->cls == CL_PATH_VANISHES) {
			/* the creation (lstat) has been processed once a barrier has run; the file goes away before anything opens it */
			dispatch_semaphore_t sem = dispatch_semaphore_create(0);
			dispatch_io_barrier(t->io, ^{ dispatch_semaphore_signal(sem); });
			dispatch_semaphore_wait(sem, DISPATCH_TIME_FOREVER); dispatch_release(sem);
			unlink(path);
		}
		if (vf_opt_long("force-derived", -1) >= 0 ? vf_opt_long("force-derived", -1) : vf_rnd_n(r, 3) == 0) {
			/* use the channel through a second one made from it */
			dispatch_io_t base = t->io;
			atomic_fetch_add(&t->expected, 1);
			t->derived = 1;
			t->io = dispatch_io_create_with_io(ty, base, t->cq, ^(int e) { h_cleanup(t, e); });
			if (!t->io) vf_fail("dispatch_io_create_with_io returned NULL");
			/* the base channel's cleanup handler was installed above as h_cleanup too: tell them apart by order of creation */
			dispatch_release(base);
		}
		if (vf_rnd_n(r, 3) == 0) dispatch_io_set_low_water(t->io, vf_rnd_range(r, 1, 8192));
		if (vf_rnd_n(r, 3) == 0) dispatch_io_set_high_water(t->io, vf_rnd_range(r, 1, 65536));
	}
	if (late_ops == 1) { struct timespec ts = { 0, (long)vf_rnd_range(r, 1000, 300000) }; nanosleep(&ts, NULL); }
	else if (late_ops == 2 && t->via == VIA_CHANNEL && t->cls <= CL_DIRECTORY && !t->derived) {
		/* a failed creation posts the cleanup handler at once: wait for it, then use the failed channel. Bounded: when the
		 * descriptor number was used by the previous trial, the library may still hold that trial's registration for it (a failed
		 * channel keeps its fd_entry until it is deallocated, after its cleanup handler ran) and then creates this channel on the
		 * stale registration without looking at the descriptor: no error, no early cleanup handler. Recorded, not judged. */
		uint64_t t0 = vf_now_ns(CLOCK_MONOTONIC);
		while (!atomic_load(&t->cleanups) && vf_now_ns(CLOCK_MONOTONIC) - t0 < 300000000ull) { struct timespec ts = { 0, 100000 }; nanosleep(&ts, NULL); }
		if (!atomic_load(&t->cleanups)) vf_count("creations_on_a_stale_registration_of_the_descriptor_number", 1);
	}
	for (int i = 0; i < t->nops; i++) {
		submit(t, &t->ops[i], fd);
		if (vf_rnd_n(r, 4) == 0) sched_yield();
		if (bystander) { int k = (int)vf_rnd_n(r, 4); while (k--) by_submit(t); }
	}
	if (bystander) { dispatch_io_close(t->by_io, 0); dispatch_release(t->by_io); }
	int closed = 0;
	if (t->via == VIA_CHANNEL) {
		uint32_t c = vf_rnd_n(r, 3);
		if (vf_opt_long("force-close", -1) >= 0) c = (uint32_t)vf_opt_long("force-close", -1);
		if (c == 0) { dispatch_io_close(t->io, 0); closed = 1; }
		else if (c == 1) { dispatch_io_close(t->io, DISPATCH_IO_STOP); closed = 2; }
		dispatch_release(t->io);
	}
	vf_wait_counter(&t->events, atomic_load(&t->expected), "iobad:operations-and-cleanup-complete");
	vf_watch_end();
	/* destructors: the last references are dropped by the library right after the handlers returned; they are
	 * posted asynchronously, so poll a bounded number of times after everything else is quiescent */
	uint64_t want = atomic_load(&t->destroy_expected), seen = 0;
	for (int polls = 0; polls < 600; polls++) {
		uint64_t now = atomic_load_explicit(&t->destroyed, memory_order_acquire);
		if (now >= want) break;
		if (now != seen) { seen = now; polls = 0; }
		struct timespec ts = { 0, 5000000 }; nanosleep(&ts, NULL);
	}
	vf_perturb_off();
	char k[200], what[200];
	uint64_t nwrites = 0, nreads = 0;
	for (int i = 0; i < t->nops; i++) {
		bop_t *op = &t->ops[i];
		const char *dn = op->kind == K_READ ? "read" : "write";
		const char *api = op->via == VIA_CONV ? (op->kind == K_READ ? "dispatch_read" : "dispatch_write") : (op->kind == K_READ ? "dispatch_io_read" : "dispatch_io_write");
		snprintf(what, sizeof(what), "%s%s of %zu bytes on %s (trial %d, op %d of %d)", api, op->fform ? "_f" : "", op->len, cl_names[t->cls], idx, i + 1, t->nops);
		if (op->kind == K_WRITE) nwrites++; else nreads++;
		if (atomic_load(&op->dones) != 1) { snprintf(k, sizeof(k), "C14:%s:done-count:%s", dn, cl_names[t->cls]); VIOL(k, "%s: done seen %u times", what, atomic_load(&op->dones)); continue; }
		int cancelled_by_stop = closed == 2 && op->err == ECANCELED;
		if (op->kind == K_READ) {
			/* a read that failed delivers nothing; error 0 with no bytes is an (unhelpful) end-of-file report, recorded only */
			if (op->got_bytes) { snprintf(k, sizeof(k), "C14:read:bytes-from-nowhere:%s", cl_names[t->cls]); VIOL(k, "%s: delivered %zu bytes", what, op->got_bytes); }
			if (!op->err) vf_count("failed_reads_reported_as_end_of_file", 1);
		} else {
			/* no byte can have reached the descriptor: bytes written + bytes reported unwritten = submitted means the
			 * handler must get the whole submitted data back, whatever the error code says */
			if (op->rem_null || op->rem_size != op->len || op->rem_mismatch) {
				if (op->err) snprintf(k, sizeof(k), "C14:write:unwritten-data-not-reported:%s-on-unusable-descriptor", op->via == VIA_CONV ? "convenience-write" : "channel-write");
				else snprintf(k, sizeof(k), "C14:write:reports-success-but-nothing-written:%s", cl_names[t->cls]);
				VIOL(k, "%s: completed with error %d%s, no byte can have been written, but the handler got %s (%zu bytes%s) instead of the %zu submitted bytes", what, op->err, cancelled_by_stop ? " (ECANCELED after close(STOP))" : "",
						op->rem_null ? "NULL" : "a data object", op->rem_size, op->rem_mismatch ? ", different contents" : "", op->len);
			}
			if (atomic_load(&op->destroyed) != (uint32_t)op->pieces) {
				snprintf(k, sizeof(k), "C17:data-destructor-never-ran:%s-on-unusable-descriptor", op->via == VIA_CONV ? "dispatch_write" : "dispatch_io_write");
				VIOL(k, "%s: %u of the %d destructors of the submitted data object ran although the application released it and the handler reported completion (error %d)", what, atomic_load(&op->destroyed), op->pieces, op->err);
			}
		}
		/* recorded, not judged: a channel whose creation failed posts its cleanup handler at once */
		if (t->via == VIA_CHANNEL && atomic_load(&t->cleanups) && op->last_end > t->cleanup_start) vf_count("handlers_after_cleanup_of_failed_channel", 1);
	}
	if (t->via == VIA_CHANNEL) {
		if (atomic_load(&t->cleanups) != 1u + (unsigned)t->derived) { snprintf(k, sizeof(k), "C14:cleanup:count:%s", cl_names[t->cls]); VIOL(k, "cleanup handlers of %d channel(s) on %s ran %u times in total", 1 + t->derived, cl_names[t->cls], atomic_load(&t->cleanups)); }
		else if (t->cleanup_err) vf_count("cleanup_handlers_with_creation_error", 1);
	}
	if (bystander) by_check(t);
	vf_count("unusable_descriptor_trials", 1);
	vf_count("unusable_descriptor_reads", nreads);
	vf_count("unusable_descriptor_writes", nwrites);
	vf_count("unusable_descriptor_data_destructors", atomic_load(&t->destroyed));
	vf_count(t->via == VIA_CONV ? "unusable_descriptor_convenience_trials" : "unusable_descriptor_channel_trials", 1);
	vf_count("items", (uint64_t)t->nops);
	vf_emit("trial", "\"n\":1,\"sig\":\"iobad-%s-%s-%d-%d-%d\",\"nontrivial\":true,\"sample\":{\"trial\":%d,\"class\":\"%s\",\"via\":\"%s\",\"ops\":%d,\"ops_submitted\":\"%s\",\"close\":%d,\"cleanup_error\":%d,\"first_op_error\":%d,\"perturb\":\"%s\"}",
			cl_names[t->cls], t->via == VIA_CONV ? "conv" : "chan", t->hq_kind, late_ops, closed, idx, cl_names[t->cls], t->via == VIA_CONV ? "convenience" : "channel", t->nops,
			late_ops == 0 ? "at once" : late_ops == 1 ? "after a pause" : "after the cleanup handler", closed, t->cleanup_err, t->ops[0].err, t->prof.desc);
	if (fd >= 0 && t->cls != CL_INVALID_FD) close(fd);
	if (fd2 >= 0) close(fd2);
	if (t->cls == CL_WRONG_MODE_FILE) unlink(path);
	if (t->derived) vf_count("unusable_descriptor_trials_through_create_with_io", 1);
	if (bystander) { close(t->by_fd); unlink(t->by_path); for (int i = 0; i < t->by_n; i++) free(t->by[i].buf); free(t->by_ref); }
	for (int i = 0; i < t->nops; i++) free(t->ops[i].ref);
	if (t->hq_kind != 2) dispatch_release(t->hq);
	dispatch_release(t->cq); dispatch_release(t->dq);
	/* t stays allocated: late (wrong) handler invocations must not touch freed memory */
}

int main(int argc, char **argv)
{
	vf_init(argc, argv, "h_iobad");
	for (int i = 0; i < vf_opts.trials; i++) run_trial(vf_opts.first_trial + i);
	return vf_finish();
}
