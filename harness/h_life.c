/*
 * h_life.c — C17: objects live while referenced or busy and are finalised exactly once.
 * Primary oracle: AddressSanitizer (asan flavor) over scenarios that drop the last
 * application reference while the object is still busy. Behavioural oracle: finalizer
 * counter == 1, runs on the target queue (queue-specific marker), receives the context
 * current at release, a parent is finalised after the children that target it, and
 * everything created is finalised by quiescence (a leaked internal reference shows as
 * "finalizer never ran").
 */
#include "vf_common.h"
#include <dispatch/dispatch.h>
#include <dispatch/private.h>
#include <sched.h>

static char k_marker;   /* queue-specific key set on custom target queues */

typedef struct lrec {
	_Atomic uint32_t fins;
	uint64_t fin_stamp;
	void *expect_marker;      /* value of k_marker expected inside the finalizer (NULL = target is a root queue) */
	struct lrec *must_follow; /* this object's finalizer must run before that one's (child before parent) */
	_Atomic uint64_t items_done, items_expected;
	uint64_t last_item_end;
	int ctx_generation;       /* which context struct the finalizer must receive */
	struct ltrial *t;
	const char *what;
} lrec_t;

typedef struct { lrec_t *r; int gen; } lctx_t;

typedef struct ltrial {
	lrec_t *recs; int nrecs, cap;
	lctx_t *ctxs; int nctx;
	_Atomic uint64_t fin_total, fin_expected;
	_Atomic uint64_t misc_done, misc_expected;
	pthread_mutex_t mtx;
	vf_profile_t prof;
} ltrial_t;

static lrec_t *rec_new(ltrial_t *t, const char *what)
{
	pthread_mutex_lock(&t->mtx);
	if (t->nrecs >= t->cap) vf_fail("record pool exhausted");
	lrec_t *r = &t->recs[t->nrecs++];
	pthread_mutex_unlock(&t->mtx);
	r->t = t; r->what = what;
	atomic_fetch_add(&t->fin_expected, 1);
	return r;
}
static lctx_t *ctx_new(ltrial_t *t, lrec_t *r, int gen)
{
	pthread_mutex_lock(&t->mtx);
	lctx_t *c = &t->ctxs[t->nctx++];
	pthread_mutex_unlock(&t->mtx);
	c->r = r; c->gen = gen;
	return c;
}

static void finalizer(void *ctx)
{
	lctx_t *c = ctx;
	lrec_t *r = c->r;
	uint64_t s = vf_stamp();
	uint32_t n = atomic_fetch_add(&r->fins, 1);
	if (n) vf_violation("C17:finalizer-ran-twice", "%s: finalizer invoked %u times", r->what, n + 1);
	if (c->gen != r->ctx_generation) vf_violation("C17:finalizer-got-stale-context", "%s: finalizer received context generation %d, the context current at release was generation %d", r->what, c->gen, r->ctx_generation);
	if (r->expect_marker && dispatch_get_specific(&k_marker) != r->expect_marker) vf_violation("C17:finalizer-not-on-target-queue", "%s: finalizer did not run on the object's target queue", r->what);
	if (atomic_load(&r->items_done) < atomic_load(&r->items_expected)) vf_violation("C17:finalized-while-items-pending", "%s: finalizer ran while %llu of %llu submitted items had not finished", r->what,
			(unsigned long long)(atomic_load(&r->items_expected) - atomic_load(&r->items_done)), (unsigned long long)atomic_load(&r->items_expected));
	r->fin_stamp = s;
	vf_progress();
	atomic_fetch_add_explicit(&r->t->fin_total, 1, memory_order_release);
}

typedef struct { lrec_t *r; dispatch_queue_t q; uint32_t spin; int release_self; } litem_t;
static void item(void *ctx)
{
	litem_t *it = ctx;
	/* use the queue through the pending work: it must still be alive */
	const char *l = dispatch_queue_get_label(it->q);
	if (!l || l[0] != 'v') vf_violation("C17:queue-memory-corrupt-while-busy", "label of a queue with pending items is not readable");
	if (it->spin) vf_spin_ns(it->spin);
	if ((it->spin & 3) == 0) sched_yield();
	it->r->last_item_end = vf_stamp();
	atomic_fetch_add(&it->r->items_done, 1);
	if (it->release_self) dispatch_release(it->q);   /* the last application reference, dropped from inside the object's own item */
	vf_progress();
	free(it);
}
static void submit_items(lrec_t *r, dispatch_queue_t q, vf_rng_t *rg, int n, int last_releases)
{
	for (int i = 0; i < n; i++) {
		litem_t *it = malloc(sizeof(*it));
		it->r = r; it->q = q; it->spin = vf_rnd_n(rg, 4) ? 0 : vf_rnd_n(rg, 20000); it->release_self = (last_releases && i == n - 1);
		atomic_fetch_add(&r->items_expected, 1);
		uint32_t k = vf_rnd_n(rg, 3);
		if (k == 0) dispatch_async_f(q, it, item); else if (k == 1) dispatch_barrier_async_f(q, it, item); else dispatch_async(q, ^{ item(it); });
	}
}

static dispatch_queue_t new_queue(ltrial_t *t, vf_rng_t *rg, lrec_t **rout, dispatch_queue_t target, lrec_t *target_rec, void *target_marker, const char *what)
{
	lrec_t *r = rec_new(t, what);
	int conc = (int)vf_rnd_n(rg, 2);
	dispatch_queue_t q = dispatch_queue_create_with_target(conc ? "vf.life.conc" : "vf.life.serial", conc ? DISPATCH_QUEUE_CONCURRENT : DISPATCH_QUEUE_SERIAL, target);
	r->expect_marker = target_marker;
	r->must_follow = target_rec;
	/* context set twice: the finalizer must get the one current at release */
	dispatch_set_context(q, ctx_new(t, r, 1));
	dispatch_set_finalizer_f(q, finalizer);
	if (vf_rnd_n(rg, 2)) { dispatch_set_context(q, ctx_new(t, r, 2)); r->ctx_generation = 2; } else r->ctx_generation = 1;
	/* marker for objects that will target this queue */
	dispatch_queue_set_specific(q, &k_marker, r, NULL);
	*rout = r;
	return q;
}

typedef struct { dispatch_queue_t q; uint32_t delay; } resumer_t;
static void *resumer_main(void *arg)
{
	resumer_t *x = arg;
	vf_spin_ns(x->delay);
	dispatch_resume(x->q);
	dispatch_release(x->q);   /* last application reference dropped by another thread right after the resume */
	free(x);
	return NULL;
}

static void src_handler(void *ctx) { lctx_t *c = ctx; atomic_fetch_add(&c->r->items_done, 0); vf_progress(); }

typedef struct { ltrial_t *t; int id; pthread_t th; vf_rng_t rng; int n; } ldrv_t;

static void scenario(ltrial_t *t, vf_rng_t *rg)
{
	lrec_t *r, *rp, *rc;
	uint32_t sc = vf_rnd_n(rg, 11);
	switch (sc) {
	case 0: { /* release right after submitting */
		dispatch_queue_t q = new_queue(t, rg, &r, NULL, NULL, NULL, "queue released right after submitting items");
		submit_items(r, q, rg, (int)vf_rnd_range(rg, 1, 30), 0);
		dispatch_release(q);
		break; }
	case 1: { /* released from inside its own last item */
		dispatch_queue_t q = new_queue(t, rg, &r, NULL, NULL, NULL, "queue released from inside its own item");
		submit_items(r, q, rg, (int)vf_rnd_range(rg, 1, 20), 1);
		break; }
	case 2: { /* parent released while a child still targets it */
		dispatch_queue_t p = new_queue(t, rg, &rp, NULL, NULL, NULL, "parent queue released while a child targets it");
		dispatch_queue_t c = new_queue(t, rg, &rc, p, rp, rp, "child queue of a released parent");
		submit_items(rc, c, rg, (int)vf_rnd_range(rg, 0, 20), 0);
		if (vf_rnd_n(rg, 2)) submit_items(rp, p, rg, (int)vf_rnd_range(rg, 0, 5), 0);
		dispatch_release(p);
		if (vf_rnd_n(rg, 2)) vf_spin_ns(vf_rnd_n(rg, 50000));
		submit_items(rc, c, rg, (int)vf_rnd_range(rg, 0, 10), 0);
		dispatch_release(c);
		break; }
	case 3: { /* three levels, released in random order */
		dispatch_queue_t a = new_queue(t, rg, &rp, NULL, NULL, NULL, "bottom of a 3-level hierarchy");
		lrec_t *rb;
		dispatch_queue_t b = new_queue(t, rg, &rb, a, rp, rp, "middle of a 3-level hierarchy");
		dispatch_queue_t c = new_queue(t, rg, &rc, b, rb, rb, "top of a 3-level hierarchy");
		submit_items(rc, c, rg, (int)vf_rnd_range(rg, 0, 10), 0);
		submit_items(rb, b, rg, (int)vf_rnd_range(rg, 0, 10), 0);
		dispatch_queue_t order[3] = { a, b, c };
		for (int i = 2; i > 0; i--) { int j = (int)vf_rnd_n(rg, (uint32_t)i + 1); dispatch_queue_t x = order[i]; order[i] = order[j]; order[j] = x; }
		for (int i = 0; i < 3; i++) dispatch_release(order[i]);
		break; }
	case 4: { /* suspended, resumed and released by another thread */
		dispatch_queue_t q = new_queue(t, rg, &r, NULL, NULL, NULL, "queue resumed and released by another thread");
		dispatch_suspend(q);
		submit_items(r, q, rg, (int)vf_rnd_range(rg, 1, 20), 0);
		resumer_t *x = malloc(sizeof(*x)); x->q = q; x->delay = vf_rnd_n(rg, 100000);
		pthread_t th; pthread_create(&th, NULL, resumer_main, x); pthread_detach(th);
		break; }
	case 5: { /* armed timer source released without cancel */
		dispatch_queue_t tq = new_queue(t, rg, &rp, NULL, NULL, NULL, "target queue of a released timer source");
		r = rec_new(t, "timer source released while armed");
		dispatch_source_t ds = dispatch_source_create(DISPATCH_SOURCE_TYPE_TIMER, 0, 0, tq);
		r->expect_marker = rp; r->must_follow = rp; r->ctx_generation = 1;
		lctx_t *c = ctx_new(t, r, 1);
		dispatch_set_context(ds, c);
		dispatch_set_finalizer_f(ds, finalizer);
		/* block form: the copied block must be released when the source goes away (LSan) */
		if (vf_rnd_n(rg, 2)) dispatch_source_set_event_handler(ds, ^{ src_handler(c); });
		else dispatch_source_set_event_handler_f(ds, src_handler);
		dispatch_source_set_timer(ds, dispatch_time(DISPATCH_TIME_NOW, (int64_t)vf_rnd_n(rg, 200000)), vf_rnd_n(rg, 2) ? 50000 : DISPATCH_TIME_FOREVER, 0);
		dispatch_activate(ds);
		if (vf_rnd_n(rg, 2)) vf_spin_ns(vf_rnd_n(rg, 300000));
		dispatch_release(ds);
		dispatch_release(tq);
		break; }
	case 6: { /* data source: merges in flight, cancel, release target first */
		dispatch_queue_t tq = new_queue(t, rg, &rp, NULL, NULL, NULL, "target queue of a data source");
		r = rec_new(t, "data source cancelled and released with merges in flight");
		dispatch_source_t ds = dispatch_source_create(DISPATCH_SOURCE_TYPE_DATA_ADD, 0, 0, tq);
		r->expect_marker = rp; r->must_follow = rp; r->ctx_generation = 1;
		lctx_t *dc = ctx_new(t, r, 1);
		dispatch_set_context(ds, dc);
		dispatch_set_finalizer_f(ds, finalizer);
		if (vf_rnd_n(rg, 2)) { dispatch_source_set_event_handler(ds, ^{ src_handler(dc); }); dispatch_source_set_cancel_handler(ds, ^{ (void)dc; }); }
		else dispatch_source_set_event_handler_f(ds, src_handler);
		dispatch_activate(ds);
		dispatch_release(tq);
		for (int i = 0; i < 5; i++) dispatch_source_merge_data(ds, 1);
		if (vf_rnd_n(rg, 2)) dispatch_source_cancel(ds);
		dispatch_release(ds);
		break; }
	case 7: { /* group released while non-empty; notify still fires */
		dispatch_group_t g = dispatch_group_create();
		dispatch_queue_t q = new_queue(t, rg, &r, NULL, NULL, NULL, "queue used by a released group");
		int n = (int)vf_rnd_range(rg, 1, 10);
		atomic_fetch_add(&t->misc_expected, (uint64_t)n + 1);
		for (int i = 0; i < n; i++) dispatch_group_async(g, q, ^{ vf_spin_ns(2000); atomic_fetch_add(&t->misc_done, 1); vf_progress(); });
		dispatch_group_notify(g, dispatch_get_global_queue(0, 0), ^{ atomic_fetch_add(&t->misc_done, 1); vf_progress(); });
		dispatch_release(g);
		dispatch_release(q);
		break; }
	case 8: { /* workloop with inner queues, released first */
		r = rec_new(t, "workloop released while inner queues target it");
		dispatch_workloop_t wl = dispatch_workloop_create("vf.life.workloop");
		r->ctx_generation = 1;
		dispatch_set_context(wl, ctx_new(t, r, 1));
		dispatch_set_finalizer_f(wl, finalizer);
		dispatch_queue_t c = new_queue(t, rg, &rc, (dispatch_queue_t)wl, r, NULL, "queue targeting a released workloop");
		submit_items(rc, c, rg, (int)vf_rnd_range(rg, 1, 15), 0);
		dispatch_release(wl);
		submit_items(rc, c, rg, (int)vf_rnd_range(rg, 0, 5), 0);
		dispatch_release(c);
		break; }
	case 9: { /* dispatch_after keeps the queue alive */
		dispatch_queue_t q = new_queue(t, rg, &r, NULL, NULL, NULL, "queue released with a dispatch_after pending");
		litem_t *it = malloc(sizeof(*it)); it->r = r; it->q = q; it->spin = 0; it->release_self = 0;
		atomic_fetch_add(&r->items_expected, 1);
		dispatch_after_f(dispatch_time(DISPATCH_TIME_NOW, (int64_t)vf_rnd_range(rg, 10000, 2000000)), q, it, item);
		dispatch_release(q);
		break; }
	default: { /* initially inactive, retargeted, old target released, then activated and released */
		dispatch_queue_t oldt = new_queue(t, rg, &rp, NULL, NULL, NULL, "old target queue");
		lrec_t *rn;
		dispatch_queue_t newt = new_queue(t, rg, &rn, NULL, NULL, NULL, "new target queue");
		r = rec_new(t, "queue retargeted while inactive");
		dispatch_queue_t q = dispatch_queue_create_with_target("vf.life.inactive", dispatch_queue_attr_make_initially_inactive(DISPATCH_QUEUE_SERIAL), oldt);
		r->ctx_generation = 1; r->expect_marker = rn; r->must_follow = rn;
		dispatch_set_context(q, ctx_new(t, r, 1));
		dispatch_set_finalizer_f(q, finalizer);
		dispatch_set_target_queue(q, newt);
		dispatch_release(oldt);
		dispatch_release(newt);
		submit_items(r, q, rg, (int)vf_rnd_range(rg, 0, 10), 0);
		dispatch_activate(q);
		dispatch_release(q);
		break; }
	}
}

static void *ldriver(void *arg)
{
	ldrv_t *d = arg;
	for (int i = 0; i < d->n; i++) { scenario(d->t, &d->rng); if ((i & 7) == 0) sched_yield(); }
	return NULL;
}

static void run_trial(int idx)
{
	ltrial_t *t = calloc(1, sizeof(*t));
	vf_rng_t r;
	vf_rng_seed(&r, vf_opts.seed, (uint64_t)idx * 9001 + 97);
	pthread_mutex_init(&t->mtx, NULL);
	vf_perturb_draw(&r, &t->prof);
	int nd = (int)vf_rnd_range(&r, 1, 6);
	int n = (int)((long)(t->prof.kind == VF_P_OFF ? 300 : 120) * vf_opts.scale / 100) + 1;
	t->cap = nd * n * 4 + 16;
	t->recs = calloc((size_t)t->cap, sizeof(lrec_t));
	t->ctxs = calloc((size_t)t->cap * 2, sizeof(lctx_t));
	ldrv_t d[6];
	vf_watch_begin("life:scenarios", 0);
	for (int i = 0; i < nd; i++) { d[i].t = t; d[i].id = i; d[i].n = n; vf_rng_seed(&d[i].rng, vf_opts.seed ^ (uint64_t)idx, 700 + (uint64_t)i); pthread_create(&d[i].th, NULL, ldriver, &d[i]); }
	for (int i = 0; i < nd; i++) pthread_join(d[i].th, NULL);
	vf_watch_end();
	/* quiescence: every object created must be finalised (bounded liveness; timers <= 2 ms away) */
	vf_watch_begin("life:everything-must-be-finalised", 500);
	while (atomic_load_explicit(&t->fin_total, memory_order_acquire) < atomic_load(&t->fin_expected) || atomic_load(&t->misc_done) < atomic_load(&t->misc_expected)) {
		struct timespec ts = { 0, 200000 }; nanosleep(&ts, NULL);
	}
	vf_watch_end();
	vf_perturb_off();
	struct timespec ts = { 0, 2000000 }; nanosleep(&ts, NULL);
	uint64_t order_checked = 0;
	for (int i = 0; i < t->nrecs; i++) {
		lrec_t *x = &t->recs[i];
		if (atomic_load(&x->fins) != 1) vf_violation("C17:finalizer-count", "%s: finalizer ran %u times", x->what, atomic_load(&x->fins));
		if (x->must_follow) {
			order_checked++;
			if (x->must_follow->fin_stamp && x->fin_stamp > x->must_follow->fin_stamp) {
				vf_violation("C17:target-finalized-before-object-that-targets-it", "%s was finalised (stamp %llu) after its target queue (%s, stamp %llu)", x->what, (unsigned long long)x->fin_stamp,
						x->must_follow->what, (unsigned long long)x->must_follow->fin_stamp);
			}
		}
	}
	vf_count("objects_finalized", (uint64_t)t->nrecs);
	vf_count("target_order_checked", order_checked);
	vf_count("items", (uint64_t)t->nrecs);
	vf_emit("trial", "\"n\":%d,\"sig\":\"life-%d-%d-%d\",\"nontrivial\":true,\"sample\":{\"trial\":%d,\"drivers\":%d,\"scenarios\":%d,\"objects_with_finalizer\":%d,\"target_order_pairs\":%llu,\"perturb\":\"%s\"}",
			nd * n, nd, t->prof.kind, vf_log2_bucket((uint64_t)t->nrecs), idx, nd, nd * n, t->nrecs, (unsigned long long)order_checked, t->prof.desc);
	free(t->recs); free(t->ctxs);
	pthread_mutex_destroy(&t->mtx);
	free(t);
}

int main(int argc, char **argv)
{
	vf_init(argc, argv, "h_life");
	for (int i = 0; i < vf_opts.trials; i++) run_trial(vf_opts.first_trial + i);
	return vf_finish();
}
