/*
 * h_mainq.c — C02 on the main queue: foreign client threads submit through every API;
 * serial exclusion + FIFO oracle.
 *   default mode: the main thread parks in dispatch_main() (the main queue becomes an ordinary
 *                 serial queue drained by worker threads);
 *   --mode=cf:    the main thread stays thread-bound and drains the main queue the way
 *                 CoreFoundation's run loop does on Linux: it sleeps in poll() on the eventfd
 *                 returned by _dispatch_get_main_queue_handle_4CF(), and on every wake-up reads
 *                 the eventfd and calls _dispatch_main_queue_callback_4CF(). Nothing else drains
 *                 the queue, so a lost wake-up strands items (stuck:mainq:*). A fraction of the
 *                 items call the callback re-entrantly (a nested run loop): it must be a no-op.
 */
#include "vf_common.h"
#include "vf_items.h"
#include <dispatch/dispatch.h>
#include <dispatch/private.h>
#include <sched.h>
#include <poll.h>
#include <sys/eventfd.h>

static int g_cf;                       /* --mode=cf */
static _Atomic uint64_t cf_wakeups, cf_callbacks_with_work, cf_nested_calls;
static _Atomic uint64_t cf_main_runs;

static char k_main_key, k_inner_key;
typedef struct {
	dispatch_queue_t qs[3];
	vf_item_t *items; int cap; _Atomic int next;
	_Atomic uint64_t expected, done;
	uint64_t salt, plain_ctr, chain_ctr, chain_hash;
	int ops; int nclients;
	pthread_barrier_t bar;
	int main_tid;
	_Atomic uint64_t not_on_main;
	/* sources whose handlers run on the main queue hierarchy: a DATA_ADD source on the main queue, a repeating timer on the serial queue over it */
	dispatch_source_t dsrc, tsrc;
	_Atomic uint64_t merged, src_cancelled;
	uint64_t delivered, handler_runs, timer_runs;   /* written by the handlers only: they are serialised with everything else of the hierarchy */
	_Atomic uint32_t in_src_handler;
	uint64_t src_off_main;
} mq_trial_t;

static void mq_src_common(mq_trial_t *t, int timer)
{
	if (atomic_exchange(&t->in_src_handler, 1)) vf_violation("C15:handler-reentered:main-queue-hierarchy", "two source handlers of the main queue hierarchy running at once");
	if (g_cf && vf_gettid() != t->main_tid) t->src_off_main++;
	if (dispatch_get_specific(&k_main_key) != (void *)t) vf_violation("C18:get_specific:source-handler-on-main-queue-hierarchy:returns-NULL", "source handler on the main queue hierarchy does not see the value set on the main queue");
	/* the same unsynchronised counter the items use: a handler overlapping an item loses an update */
	uint64_t v = t->plain_ctr;
	if ((v & 7) == 0) sched_yield();
	t->plain_ctr = v + 1;
	if (timer) t->timer_runs++; else t->handler_runs++;
	vf_progress();
	atomic_store(&t->in_src_handler, 0);
}
static void mq_data_handler(void *ctx)
{
	mq_trial_t *t = ctx;
	unsigned long d = dispatch_source_get_data(t->dsrc);
	if (!d) vf_violation("C15:zero-data:main-queue", "DATA_ADD handler on the main queue invoked with 0");
	t->delivered += d;
	mq_src_common(t, 0);
}
static void mq_timer_handler(void *ctx) { mq_src_common(ctx, 1); }
static void mq_src_cancel(void *ctx) { mq_trial_t *t = ctx; atomic_fetch_add_explicit(&t->src_cancelled, 1, memory_order_release); }

static void mq_body(void *ctx)
{
	vf_item_t *it = ctx;
	mq_trial_t *t = it->ctx;
	it->tid_start = vf_gettid();
	it->start = vf_stamp();
	if (atomic_fetch_add(&it->runs, 1)) vf_violation("C01:ran-twice", "main-queue item %u ran twice", it->id);
	if (g_cf && !it->is_sync && it->tid_start != t->main_tid) atomic_fetch_add(&t->not_on_main, 1);
	if (g_cf && it->tid_start == t->main_tid) atomic_fetch_add(&cf_main_runs, 1);
	if (!vf_item_payload_ok(it)) vf_violation("C05:payload-not-visible", "main-queue item %u: payload not visible", it->id);
	/* C18: the main queue is the bottom of the chain of every queue that targets it */
	if (dispatch_get_specific(&k_main_key) != (void *)t) vf_violation("C18:get_specific:main-queue-at-the-bottom-of-the-chain:returns-NULL", "item on %s does not see the value set on the main queue", it->queue ? "a queue that targets the main queue" : "the main queue");
	if (it->queue && dispatch_get_specific(&k_inner_key) != (void *)t->qs[it->queue]) vf_violation("C18:get_specific:queue-over-main:wrong-value", "item on a queue over the main queue does not see that queue's own value");
	if (!it->queue && dispatch_get_specific(&k_inner_key) != NULL) vf_violation("C18:get_specific:main-queue:returns-value-from-outside-the-chain", "item on the main queue sees a value set on a queue that targets it");
	uint64_t v = t->plain_ctr;
	if ((it->id & 15) == 0) sched_yield();
	t->plain_ctr = v + 1;
	uint64_t c = t->chain_ctr;
	if (t->chain_hash != vf_hash64(VF_HASH_INIT ^ t->salt, c)) vf_violation("C05:chain-not-visible", "main queue: chained record inconsistent at item %u", it->id);
	t->chain_ctr = c + 1; t->chain_hash = vf_hash64(VF_HASH_INIT ^ t->salt, c + 1);
	if ((it->id % 7) == 0) vf_spin_ns(2000);
	if (g_cf && (it->id % 97) == 0 && it->tid_start == t->main_tid) {
		/* nested run loop inside a main-queue item: the callback must not drain re-entrantly (the
		 * exclusion oracle sees any item it would run inside this one's interval) */
		_dispatch_main_queue_callback_4CF(NULL);
		atomic_fetch_add(&cf_nested_calls, 1);
	}
	vf_item_fill_result(it);
	it->end = vf_stamp();
	vf_progress();
	atomic_fetch_add_explicit(&t->done, 1, memory_order_release);
}

typedef struct { mq_trial_t *t; int cid; vf_rng_t rng; pthread_t th; } mq_client_t;

static void *mq_client(void *arg)
{
	mq_client_t *c = arg;
	mq_trial_t *t = c->t;
	dispatch_group_t grp = dispatch_group_create();
	pthread_barrier_wait(&t->bar);
	for (int i = 0; i < t->ops; i++) {
		int idx = atomic_fetch_add(&t->next, 1);
		if (idx >= t->cap) break;
		vf_item_t *it = &t->items[idx];
		int qi = (int)vf_rnd_n(&c->rng, 3);
		dispatch_queue_t mq = t->qs[qi];
		it->id = (uint32_t)idx + 1; it->ctx = t; it->queue = (uint16_t)qi; it->domain = 1; it->submitter = (uint16_t)c->cid;
		uint32_t k = vf_rnd_n(&c->rng, 100);
		int kind = k < 40 ? VF_K_ASYNC : k < 60 ? VF_K_SYNC : k < 70 ? VF_K_BARRIER_SYNC : k < 80 ? VF_K_ASYNC_AND_WAIT : k < 90 ? VF_K_BARRIER_ASYNC : VF_K_GROUP_ASYNC;
		int f = (int)vf_rnd_n(&c->rng, 2);
		it->kind = (uint8_t)kind;
		it->is_sync = (kind == VF_K_SYNC || kind == VF_K_BARRIER_SYNC || kind == VF_K_ASYNC_AND_WAIT);
		it->is_barrier = (qi == 2) && (kind == VF_K_BARRIER_SYNC || kind == VF_K_BARRIER_ASYNC);
		vf_item_fill_payload(it, t->salt);
		atomic_fetch_add(&t->expected, 1);
		it->submitted = 1;
		it->call = vf_stamp();
		switch (kind) {
		case VF_K_ASYNC: if (f) dispatch_async_f(mq, it, mq_body); else dispatch_async(mq, ^{ mq_body(it); }); break;
		case VF_K_SYNC: if (f) dispatch_sync_f(mq, it, mq_body); else dispatch_sync(mq, ^{ mq_body(it); }); break;
		case VF_K_BARRIER_SYNC: if (f) dispatch_barrier_sync_f(mq, it, mq_body); else dispatch_barrier_sync(mq, ^{ mq_body(it); }); break;
		case VF_K_ASYNC_AND_WAIT: if (f) dispatch_async_and_wait_f(mq, it, mq_body); else dispatch_async_and_wait(mq, ^{ mq_body(it); }); break;
		case VF_K_BARRIER_ASYNC: if (f) dispatch_barrier_async_f(mq, it, mq_body); else dispatch_barrier_async(mq, ^{ mq_body(it); }); break;
		default: if (f) dispatch_group_async_f(grp, mq, it, mq_body); else dispatch_group_async(grp, mq, ^{ mq_body(it); }); break;
		}
		it->ret = vf_stamp();
		vf_progress();
		if (it->is_sync && (!it->end || it->end > it->ret)) {
			vf_violation("C05:sync-returned-early", "%s on the main queue returned before item %u finished", vf_kind_names[kind], it->id);
		}
		if (vf_rnd_n(&c->rng, 40) == 0) dispatch_group_wait(grp, DISPATCH_TIME_FOREVER);
		if (vf_rnd_n(&c->rng, 8) == 0) { uint64_t v = 1 + vf_rnd_n(&c->rng, 5); atomic_fetch_add(&t->merged, v); dispatch_source_merge_data(t->dsrc, v); }
	}
	dispatch_group_wait(grp, DISPATCH_TIME_FOREVER);
	dispatch_release(grp);
	return NULL;
}

static void *controller(void *arg)
{
	(void)arg;
	for (int tr = 0; tr < vf_opts.trials; tr++) {
		int idx = vf_opts.first_trial + tr;
		mq_trial_t *t = calloc(1, sizeof(*t));
		vf_rng_t r;
		vf_rng_seed(&r, vf_opts.seed, (uint64_t)idx * 6151 + 17);
		t->salt = vf_rnd(&r) | 1;
		t->chain_hash = vf_hash64(VF_HASH_INIT ^ t->salt, 0);
		vf_profile_t prof;
		vf_perturb_draw(&r, &prof);
		t->nclients = (int)vf_rnd_range(&r, 2, 8);
		t->main_tid = getpid();   /* the main thread's tid */
		t->ops = (int)((long)(prof.kind == VF_P_OFF ? 6000 : 1500) * vf_opts.scale / 100);
		t->cap = t->nclients * t->ops;
		t->qs[0] = dispatch_get_main_queue();
		t->qs[1] = dispatch_queue_create_with_target("vf.mainq.serial-over-main", DISPATCH_QUEUE_SERIAL, t->qs[0]);
		t->qs[2] = dispatch_queue_create_with_target("vf.mainq.conc-over-main", DISPATCH_QUEUE_CONCURRENT, t->qs[0]);
		dispatch_queue_set_specific(t->qs[0], &k_main_key, t, NULL);
		dispatch_queue_set_specific(t->qs[1], &k_inner_key, t->qs[1], NULL);
		dispatch_queue_set_specific(t->qs[2], &k_inner_key, t->qs[2], NULL);
		t->items = calloc((size_t)t->cap, sizeof(vf_item_t));
		t->dsrc = dispatch_source_create(DISPATCH_SOURCE_TYPE_DATA_ADD, 0, 0, t->qs[0]);
		t->tsrc = dispatch_source_create(DISPATCH_SOURCE_TYPE_TIMER, 0, 0, t->qs[1]);
		dispatch_set_context(t->dsrc, t); dispatch_set_context(t->tsrc, t);
		dispatch_source_set_event_handler_f(t->dsrc, mq_data_handler); dispatch_source_set_cancel_handler_f(t->dsrc, mq_src_cancel);
		dispatch_source_set_event_handler_f(t->tsrc, mq_timer_handler); dispatch_source_set_cancel_handler_f(t->tsrc, mq_src_cancel);
		dispatch_source_set_timer(t->tsrc, dispatch_time(DISPATCH_TIME_NOW, 200000), 300000 + vf_rnd_n(&r, 700000), 0);
		dispatch_activate(t->dsrc); dispatch_activate(t->tsrc);
		pthread_barrier_init(&t->bar, NULL, (unsigned)t->nclients);
		mq_client_t cl[8];
		vf_watch_begin("mainq:clients", 0);
		for (int i = 0; i < t->nclients; i++) {
			cl[i].t = t; cl[i].cid = i;
			vf_rng_seed(&cl[i].rng, t->salt, 5 + (uint64_t)i);
			pthread_create(&cl[i].th, NULL, mq_client, &cl[i]);
		}
		for (int i = 0; i < t->nclients; i++) pthread_join(cl[i].th, NULL);
		vf_watch_end();
		uint64_t expected = atomic_load(&t->expected);
		vf_wait_counter(&t->done, expected, "mainq:quiescence");
		/* every merged value has to be delivered before the source is cancelled: wait for it through the hierarchy itself */
		vf_watch_begin("mainq:merged-values-delivered", 0);
		for (;;) {
			__block uint64_t seen = 0;
			dispatch_sync(t->qs[1], ^{ seen = t->delivered; });   /* runs on the hierarchy: serialised with the handler */
			if (seen >= atomic_load(&t->merged)) break;
			struct timespec ts = { 0, 200000 }; nanosleep(&ts, NULL);
		}
		vf_watch_end();
		dispatch_source_cancel(t->dsrc); dispatch_source_cancel(t->tsrc);
		vf_wait_counter(&t->src_cancelled, 2, "mainq:source-cancel-handlers");
		vf_perturb_off();
		int n = atomic_load(&t->next); if (n > t->cap) n = t->cap;
		vf_item_t **sel = malloc(sizeof(*sel) * (size_t)(n + 1));
		vf_ref_t *r1 = malloc(sizeof(*r1) * (size_t)(n + 1)), *r2 = malloc(sizeof(*r2) * (size_t)(n + 1));
		int m = 0;
		for (int i = 0; i < n; i++) {
			vf_item_t *it = &t->items[i];
			if (!it->submitted) continue;
			if (atomic_load(&it->runs) != 1) vf_violation("C01:never-ran", "main-queue item %u ran %u times", it->id, atomic_load(&it->runs));
			sel[m++] = it;
		}
		vf_ivstats_t st = { 0, 0, 0 };
		char what[96];
		snprintf(what, sizeof(what), "main queue (%s)", prof.desc);
		/* every item of the hierarchy (main queue and the queues that target it) is mutually exclusive */
		vf_check_exclusion(sel, m, r1, "C03:overlap:main-queue-hierarchy", what, &st);
		for (int qi = 0; qi < 3; qi++) {
			int mm = 0;
			vf_item_t **sq = malloc(sizeof(*sq) * (size_t)(m + 1));
			for (int i = 0; i < m; i++) if (sel[i]->queue == qi) sq[mm++] = sel[i];
			snprintf(what, sizeof(what), "%s (%s)", qi == 0 ? "main queue" : qi == 1 ? "serial queue over the main queue" : "concurrent queue over the main queue", prof.desc);
			if (qi == 2) vf_check_queue_rules(sq, mm, r1, r2, VF_Q_CONCURRENT, "C04:barrier-overlap", "C04:barrier-order", what, &st);
			else vf_check_queue_rules(sq, mm, r1, r2, VF_Q_MAIN, qi ? "C02:overlap:serial" : "C02:overlap:main-queue", qi ? "C03:fifo:serial-in-hierarchy" : "C02:fifo:main-queue", what, &st);
			free(sq);
		}
		if (t->plain_ctr != (uint64_t)m + t->handler_runs + t->timer_runs) vf_violation("C02:plain-counter-lost-update", "main queue: unsynchronised counter %llu after %d items and %llu source handler invocations", (unsigned long long)t->plain_ctr, m, (unsigned long long)(t->handler_runs + t->timer_runs));
		if (t->delivered != atomic_load(&t->merged)) vf_violation("C15:sum-mismatch:main-queue", "DATA_ADD source on the main queue: merged %llu, delivered %llu", (unsigned long long)atomic_load(&t->merged), (unsigned long long)t->delivered);
		if (g_cf && t->src_off_main) vf_violation("C02:main-queue:thread-bound-item-ran-off-the-main-thread", "%llu source handler invocations of the thread-bound main queue hierarchy ran on another thread", (unsigned long long)t->src_off_main);
		vf_count("mainq_source_handler_invocations", t->handler_runs + t->timer_runs);
		/* async items must run on the main thread; sync ones may run on the caller */
		int threads = 0, seen[64];
		for (int i = 0; i < m; i++) {
			int k; for (k = 0; k < threads; k++) if (seen[k] == sel[i]->tid_start) break;
			if (k == threads && threads < 64) seen[threads++] = sel[i]->tid_start;
		}
		if (g_cf) {
			/* thread-bound main queue: everything except synchronous items handed to the caller runs on the main thread */
			if (atomic_load(&t->not_on_main)) vf_violation("C02:main-queue:thread-bound-item-ran-off-the-main-thread", "%llu asynchronous items of the thread-bound main queue hierarchy ran on another thread", (unsigned long long)atomic_load(&t->not_on_main));
			vf_count("mainq_cf_items", (uint64_t)m);
		}
		vf_count("mainq_items", (uint64_t)m);
		vf_count("items", (uint64_t)m);
		vf_count("ordered_pairs_checked", st.ordered_pairs);
		vf_count("cross_thread_handoffs", st.cross_thread);
		vf_emit("trial", "\"n\":1,\"sig\":\"mq%d-%d-%d-%d\",\"nontrivial\":%s,\"sample\":{\"trial\":%d,\"shape\":\"main-queue\",\"clients\":%d,\"items\":%d,\"threads_that_ran_items\":%d,\"perturb\":\"%s\"}",
				t->nclients, prof.kind, vf_log2_bucket(st.cross_thread), threads, (st.cross_thread || g_cf) ? "true" : "false", idx, t->nclients, m, threads, prof.desc);
		dispatch_queue_set_specific(t->qs[0], &k_main_key, NULL, NULL);
		dispatch_release(t->dsrc); dispatch_release(t->tsrc);
		dispatch_release(t->qs[1]); dispatch_release(t->qs[2]);
		free(sel); free(r1); free(r2); free(t->items);
		if (g_cf && tr == vf_opts.trials - 1) {
			vf_count("mainq_cf_wakeups", atomic_load(&cf_wakeups));
			vf_count("mainq_cf_callbacks_with_work", atomic_load(&cf_callbacks_with_work));
			vf_count("mainq_cf_nested_callback_calls", atomic_load(&cf_nested_calls));
		}
		/* t stays allocated: it is the value of a queue-specific key that late items may still compare with */
	}
	exit(vf_finish());
	return NULL;
}

int main(int argc, char **argv)
{
	vf_init(argc, argv, "h_mainq");
	pthread_t th;
	g_cf = vf_opts.mode && !strcmp(vf_opts.mode, "cf");
	if (!g_cf) {
		pthread_create(&th, NULL, controller, NULL);
		dispatch_main();
		return 0;
	}
	int fd = _dispatch_get_main_queue_handle_4CF();
	pthread_create(&th, NULL, controller, NULL);
	for (;;) {
		struct pollfd pfd = { .fd = fd, .events = POLLIN };
		int n = poll(&pfd, 1, -1);
		if (n < 0) continue;   /* EINTR */
		eventfd_t v;
		if (eventfd_read(fd, &v) != 0) continue;   /* EAGAIN: spurious */
		atomic_fetch_add(&cf_wakeups, 1);
		uint64_t before = atomic_load(&cf_main_runs);
		_dispatch_main_queue_callback_4CF(NULL);
		if (atomic_load(&cf_main_runs) != before) atomic_fetch_add(&cf_callbacks_with_work, 1);
	}
	return 0;
}
