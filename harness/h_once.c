/*
 * h_once.c — C09: dispatch_once runs its initialiser exactly once, before anyone returns.
 * Arrays of zeroed predicates; 2-16 callers released together on each predicate;
 * oracle: initialiser count == 1, end(init) < ret(caller) for every caller, plain
 * record written by the initialiser visible to every caller, later calls do not run it.
 */
#include "vf_common.h"
#include <dispatch/dispatch.h>
#include <dispatch/private.h>
#include <sched.h>

/* the exported function dispatch_once_f — `(dispatch_once_f)(...)` does not reach it: once.h defines an
 * object-like macro of that name that expands to the inline fast path */
#pragma push_macro("dispatch_once_f")
#undef dispatch_once_f
static void vf_once_function(dispatch_once_t *p, void *c, dispatch_function_t f) { dispatch_once_f(p, c, f); }
#pragma pop_macro("dispatch_once_f")

typedef struct {
	uint64_t init_start, init_end;
	_Atomic uint32_t inits;
	_Atomic uint32_t arrivals;
	uint64_t rec_a, rec_b;       /* plain: written by the initialiser */
	int init_tid;
	uint32_t spin_ns;
} pred_t;

typedef struct {
	dispatch_once_t *preds; pred_t *p; int n, nthreads;
	uint64_t *rets;              /* [thread][pred] */
	uint64_t salt;
	pthread_barrier_t bar;
	_Atomic uint64_t waited;     /* callers that returned after the init ended but arrived before */
} otrial_t;
typedef struct { otrial_t *t; int id; pthread_t th; vf_rng_t rng; } othr_t;
typedef struct { otrial_t *t; int i; } oarg_t;

static void once_init(void *ctx)
{
	oarg_t *a = ctx;
	pred_t *p = &a->t->p[a->i];
	p->init_start = vf_stamp();
	p->init_tid = vf_gettid();
	uint32_t n = atomic_fetch_add_explicit(&p->inits, 1, memory_order_relaxed);
	if (n) vf_violation("C09:initialiser-ran-twice", "predicate %d: initialiser invoked %u times", a->i, n + 1);
	if (p->spin_ns > 150000) sched_yield();
	if (p->spin_ns) vf_spin_ns(p->spin_ns);
	p->rec_a = a->t->salt + (uint64_t)a->i;
	p->rec_b = ~p->rec_a;
	p->init_end = vf_stamp();
}

static void *caller(void *arg)
{
	othr_t *c = arg;
	otrial_t *t = c->t;
	pthread_barrier_wait(&t->bar);
	for (int i = 0; i < t->n; i++) {
		pred_t *p = &t->p[i];
		/* rendezvous so that all callers hit the predicate together (bounded spin) */
		atomic_fetch_add_explicit(&p->arrivals, 1, memory_order_relaxed);
		for (int s = 0; s < 2000 && atomic_load_explicit(&p->arrivals, memory_order_relaxed) < (uint32_t)t->nthreads; s++) {
			if (s > 50) sched_yield(); else __asm__ __volatile__("pause");
		}
		oarg_t a = { t, i };
		uint32_t how = vf_rnd_n(&c->rng, 3);
		uint64_t call = vf_stamp();
		if (how == 0) { oarg_t *ap = &a; dispatch_once(&t->preds[i], ^{ once_init(ap); }); vf_tso_acquire(&t->preds[i]); }
		else if (how == 1) { dispatch_once_f(&t->preds[i], &a, once_init); vf_tso_acquire(&t->preds[i]); }
		else vf_once_function(&t->preds[i], &a, once_init);
		uint64_t ret = vf_stamp();
		t->rets[(size_t)c->id * (size_t)t->n + (size_t)i] = ret;
		/* the initialiser's plain writes must be visible */
		if (p->rec_a != t->salt + (uint64_t)i || p->rec_b != ~p->rec_a) {
			vf_violation("C09:returned-before-initialised", "predicate %d: dispatch_once returned (stamp %llu) but the initialiser's record is not (yet) written", i, (unsigned long long)ret);
		}
		if (p->init_start && call < p->init_end && p->init_tid != vf_gettid()) atomic_fetch_add_explicit(&t->waited, 1, memory_order_relaxed);
		vf_progress();
	}
	/* later calls return without running the initialiser */
	for (int i = 0; i < t->n; i += 7) {
		oarg_t a = { t, i };
		dispatch_once_f(&t->preds[i], &a, once_init);
		vf_once_function(&t->preds[i], &a, once_init);
	}
	return NULL;
}

static void run_trial(int idx)
{
	otrial_t *t = calloc(1, sizeof(*t));
	vf_rng_t r;
	vf_rng_seed(&r, vf_opts.seed, (uint64_t)idx * 5231 + 43);
	t->salt = vf_rnd(&r) | 1;
	vf_profile_t prof;
	vf_perturb_draw(&r, &prof);
	t->nthreads = (int)vf_rnd_range(&r, 2, 16);
	t->n = (int)((long)(prof.kind == VF_P_OFF ? 3000 : 1000) * vf_opts.scale / 100) + 1;
	t->preds = calloc((size_t)t->n, sizeof(dispatch_once_t));
	t->p = calloc((size_t)t->n, sizeof(pred_t));
	t->rets = calloc((size_t)t->n * (size_t)t->nthreads, sizeof(uint64_t));
	for (int i = 0; i < t->n; i++) {
		uint32_t k = vf_rnd_n(&r, 10);
		t->p[i].spin_ns = k < 5 ? 0 : k < 8 ? vf_rnd_n(&r, 20000) : vf_rnd_n(&r, 200000);
	}
	pthread_barrier_init(&t->bar, NULL, (unsigned)t->nthreads);
	othr_t th[16];
	vf_watch_begin("once:callers", 0);
	for (int i = 0; i < t->nthreads; i++) {
		th[i].t = t; th[i].id = i; vf_rng_seed(&th[i].rng, t->salt, (uint64_t)i);
		pthread_create(&th[i].th, NULL, caller, &th[i]);
	}
	for (int i = 0; i < t->nthreads; i++) pthread_join(th[i].th, NULL);
	vf_watch_end();
	vf_perturb_off();
	uint64_t bad_count = 0, early = 0;
	for (int i = 0; i < t->n; i++) {
		pred_t *p = &t->p[i];
		uint32_t n = atomic_load(&p->inits);
		if (n != 1 && bad_count++ < 3) vf_violation(n ? "C09:initialiser-ran-twice" : "C09:initialiser-never-ran", "predicate %d: initialiser ran %u times (%d callers)", i, n, t->nthreads);
		for (int k = 0; k < t->nthreads; k++) {
			uint64_t ret = t->rets[(size_t)k * (size_t)t->n + (size_t)i];
			if (ret < p->init_end && early++ < 3) {
				vf_violation("C09:returned-before-initialiser-finished", "predicate %d: a caller returned at stamp %llu before the initialiser finished at %llu (%s)", i,
						(unsigned long long)ret, (unsigned long long)p->init_end, prof.desc);
			}
		}
	}
	uint64_t waited = atomic_load(&t->waited);
	vf_count("predicates", (uint64_t)t->n);
	vf_count("once_calls", (uint64_t)t->n * (uint64_t)t->nthreads);
	vf_count("callers_that_waited_for_initialiser", waited);
	vf_count("items", (uint64_t)t->n * (uint64_t)t->nthreads);
	vf_emit("trial", "\"n\":1,\"sig\":\"once%d-%d-%d\",\"nontrivial\":%s,\"sample\":{\"trial\":%d,\"predicates\":%d,\"callers\":%d,\"callers_that_arrived_during_init\":%llu,\"perturb\":\"%s\"}",
			t->nthreads, prof.kind, vf_log2_bucket(waited), waited ? "true" : "false", idx, t->n, t->nthreads, (unsigned long long)waited, prof.desc);
	free(t->preds); free(t->p); free(t->rets);
	pthread_barrier_destroy(&t->bar);
	free(t);
}

int main(int argc, char **argv)
{
	vf_init(argc, argv, "h_once");
	for (int i = 0; i < vf_opts.trials; i++) run_trial(vf_opts.first_trial + i);
	return vf_finish();
}
