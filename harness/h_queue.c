/*
 * h_queue.c — submission / exclusion / ordering monitor for C01–C05.
 *
 * Each trial draws a queue graph, a workload shape and a perturbation profile,
 * lets client threads (foreign pthreads) and items submit work through every
 * submission API, waits for quiescence under the watchdog and then runs the
 * oracles over the recorded item stamps:
 *   C01  every accepted item ran exactly once; sync calls returned; gate/starve scenarios
 *   C02  serial queues: no overlap, real-time FIFO
 *   C03  hierarchy with serial bottom (or workloop): no overlap in the whole domain
 *   C04  concurrent queues: barrier exclusion and ordering
 *   C05  sync return after completion; payload/result/chain visibility
 */
#include "vf_common.h"
#include "vf_items.h"
#include <dispatch/dispatch.h>
#include <dispatch/private.h>
#include <semaphore.h>
#include <sched.h>

#define MAXQ 10
#define MAXCLIENTS 24

enum { SH_PINGPONG, SH_FLOOD, SH_MIXED, SH_NSHAPES };
static const char *const shape_names[] = { "pingpong", "flood", "mixed" };

typedef struct {
	dispatch_queue_t q;
	int kind;            /* VF_Q_* */
	int target;          /* index of target queue, -1 = root */
	int tree;            /* index of the custom queue at the bottom of the chain */
	int domain;          /* index+1 of lowest serial/workloop queue in chain, 0 none */
	int depth;
	/* plain (non-atomic) state protected only by the queue's exclusion */
	uint64_t plain_ctr;          /* per-domain: incremented by every item of the domain */
	uint64_t chain_ctr;          /* per serial queue: C05 item-to-item hand-off */
	uint64_t chain_hash;
	uint64_t rw_word;            /* concurrent queue: barriers write, readers read */
	uint64_t rw_check;
	_Atomic uint64_t nitems;
	char label[48];
} hq_queue_t;

typedef struct trial {
	int idx;
	vf_rng_t rng;
	int shape;
	int nq;
	hq_queue_t qs[MAXQ];
	int nclients;
	int ops_per_client;
	int chain_pct;       /* probability (percent) that an item submits children */
	int body_spin_max_ns;
	vf_item_t *items;
	int cap;
	_Atomic int next_item;
	_Atomic uint64_t expected, done;
	_Atomic uint64_t c05_bad;
	int use_workloop;
	int use_global;
	int retarget;                /* retarget mode: queues [ntargets, nq) are leaves whose target changes while they are in use */
	int ntargets;
	_Atomic int rt_stop, rt_stalled;
	_Atomic uint64_t retargets, ephemeral, to_workloop, while_suspended, bursts;
	dispatch_queue_t rt_workloop;
	_Atomic int frozen[MAXQ];      /* leaf was moved onto a workloop: it cannot be retargeted anymore */
	pthread_mutex_t rt_mtx[MAXQ];  /* one retarget call per leaf at a time (the freeze must be the last one) */
	uint64_t salt;
	vf_profile_t prof;
	_Atomic int tids[64];
	pthread_barrier_t start_bar;
} trial_t;

typedef struct { trial_t *t; int cid; vf_rng_t rng; pthread_t th; } client_t;

static vf_item_t *item_alloc(trial_t *t)
{
	int i = atomic_fetch_add(&t->next_item, 1);
	if (i >= t->cap) return NULL;
	vf_item_t *it = &t->items[i];
	it->id = (uint32_t)i + 1;
	it->ctx = t;
	return it;
}

static vf_item_t *submit_item(trial_t *t, vf_rng_t *r, int qi, int kind, int fform, int submitter,
		dispatch_group_t grp, dispatch_semaphore_t sem);

/* ------------------------------------------------------------------ body */
static void item_body(void *ctx)
{
	vf_item_t *it = ctx;
	trial_t *t = it->ctx;
	hq_queue_t *q = &t->qs[it->queue];
	it->tid_start = vf_gettid();
	it->start = vf_stamp();
	uint32_t runs = atomic_fetch_add_explicit(&it->runs, 1, memory_order_relaxed);
	if (runs) {
		vf_violation("C01:ran-twice", "item %u (%s on q%u %s) invoked %u times", it->id,
				vf_kind_names[it->kind], it->queue, q->label, runs + 1);
	}
	/* C05: what the submitter wrote before submitting must be visible here */
	if (!vf_item_payload_ok(it)) {
		atomic_fetch_add(&t->c05_bad, 1);
		vf_violation("C05:payload-not-visible", "item %u (%s): payload written before submission not visible in the item", it->id, vf_kind_names[it->kind]);
	}
	/* per-item PRNG (deterministic in the item id) */
	vf_rng_t r;
	vf_rng_seed(&r, t->salt, it->id);
	if (it->domain) {
		hq_queue_t *d = &t->qs[it->domain - 1];
		/* non-atomic read-modify-write: lost updates / TSan reports reveal overlap */
		uint64_t v = d->plain_ctr;
		if (vf_rnd_n(&r, 16) == 0) sched_yield();
		d->plain_ctr = v + 1;
	}
	if (q->kind == VF_Q_SERIAL) {
		/* C05 item-to-item: plain chained record on the same serial queue */
		uint64_t c = q->chain_ctr, h = q->chain_hash;
		if (h != vf_hash64(VF_HASH_INIT ^ t->salt, c)) {
			vf_violation("C05:chain-not-visible", "serial queue q%u: item %u sees chain counter %llu with a hash that does not match (memory written by the previous item not visible)",
					it->queue, it->id, (unsigned long long)c);
		}
		q->chain_ctr = c + 1;
		q->chain_hash = vf_hash64(VF_HASH_INIT ^ t->salt, c + 1);
	} else if (q->kind == VF_Q_CONCURRENT) {
		if (it->is_barrier) {
			uint64_t w = q->rw_word + 1;
			q->rw_word = w;
			if (vf_rnd_n(&r, 8) == 0) sched_yield();
			q->rw_check = ~w;
		} else {
			uint64_t w = q->rw_word, c = q->rw_check;
			if (c != ~w) {
				/* torn pair: a barrier was writing while this reader ran */
				vf_violation("C04:reader-saw-torn-barrier-write", "concurrent queue q%u: reader item %u observed a half-finished barrier update", it->queue, it->id);
			}
		}
	}
	uint32_t spin = t->body_spin_max_ns ? vf_rnd_n(&r, (uint32_t)t->body_spin_max_ns) : 0;
	if (spin) vf_spin_ns(spin);
	if (vf_rnd_n(&r, 10) == 0) sched_yield();
	/* chain: submit children */
	if (t->chain_pct && (int)vf_rnd_n(&r, 100) < t->chain_pct) {
		int nk = (int)vf_rnd_range(&r, 1, 2);
		for (int k = 0; k < nk; k++) {
			int qi = (int)vf_rnd_n(&r, (uint32_t)t->nq);
			int kind;
			uint32_t c = vf_rnd_n(&r, 10);
			if (c < 6) kind = VF_K_ASYNC;
			else if (c < 8) kind = VF_K_BARRIER_ASYNC;
			else {
				/* synchronous only towards a strictly later tree: the client program cannot deadlock */
				kind = (c == 8) ? VF_K_SYNC : VF_K_ASYNC_AND_WAIT;
				if (t->qs[qi].kind == VF_Q_WORKLOOP || t->qs[qi].tree <= q->tree || q->kind == VF_Q_GLOBAL
						|| t->qs[qi].kind == VF_Q_GLOBAL || t->retarget) kind = VF_K_ASYNC;
			}
			submit_item(t, &r, qi, kind, (int)vf_rnd_n(&r, 2), 0xffff, NULL, NULL);
		}
	}
	vf_item_fill_result(it);
	it->end = vf_stamp();
	vf_progress();
	if (it->aux) dispatch_semaphore_signal((dispatch_semaphore_t)it->aux);
	atomic_fetch_add_explicit(&t->done, 1, memory_order_release);
}

/* ---------------------------------------------------------------- submit */
static vf_item_t *submit_item(trial_t *t, vf_rng_t *r, int qi, int kind, int fform, int submitter,
		dispatch_group_t grp, dispatch_semaphore_t sem)
{
	hq_queue_t *q = &t->qs[qi];
	vf_item_t *it = item_alloc(t);
	if (!it) return NULL;
	it->aux = sem;
	if (q->kind == VF_Q_WORKLOOP && (kind == VF_K_SYNC || kind == VF_K_BARRIER_SYNC)) {
		kind = VF_K_ASYNC_AND_WAIT; /* dispatch_sync on a workloop is not allowed by the API */
	}
	if (kind == VF_K_GROUP_ASYNC && !grp) kind = VF_K_ASYNC;
	it->queue = (uint16_t)qi;
	it->domain = (uint16_t)q->domain;
	it->submitter = (uint16_t)submitter;
	it->kind = (uint8_t)kind;
	it->fform = (uint8_t)fform;
	it->is_barrier = (q->kind == VF_Q_CONCURRENT) &&
			(kind == VF_K_BARRIER_ASYNC || kind == VF_K_BARRIER_SYNC || kind == VF_K_BARRIER_ASYNC_AND_WAIT);
	it->is_sync = (kind == VF_K_SYNC || kind == VF_K_BARRIER_SYNC || kind == VF_K_ASYNC_AND_WAIT ||
			kind == VF_K_BARRIER_ASYNC_AND_WAIT);
	vf_item_fill_payload(it, t->salt);
	atomic_fetch_add_explicit(&t->expected, 1, memory_order_relaxed);
	atomic_fetch_add_explicit(&q->nitems, 1, memory_order_relaxed);
	it->submitted = 1;
	dispatch_queue_t dq = q->q;
	it->call = vf_stamp();
	switch (kind) {
	case VF_K_ASYNC:
		if (fform) dispatch_async_f(dq, it, item_body); else dispatch_async(dq, ^{ item_body(it); });
		break;
	case VF_K_SYNC:
		if (fform) dispatch_sync_f(dq, it, item_body); else dispatch_sync(dq, ^{ item_body(it); });
		break;
	case VF_K_BARRIER_ASYNC:
		if (fform) dispatch_barrier_async_f(dq, it, item_body); else dispatch_barrier_async(dq, ^{ item_body(it); });
		break;
	case VF_K_BARRIER_SYNC:
		if (fform) dispatch_barrier_sync_f(dq, it, item_body); else dispatch_barrier_sync(dq, ^{ item_body(it); });
		break;
	case VF_K_ASYNC_AND_WAIT:
		if (fform) dispatch_async_and_wait_f(dq, it, item_body); else dispatch_async_and_wait(dq, ^{ item_body(it); });
		break;
	case VF_K_BARRIER_ASYNC_AND_WAIT:
		if (fform) dispatch_barrier_async_and_wait_f(dq, it, item_body); else dispatch_barrier_async_and_wait(dq, ^{ item_body(it); });
		break;
	case VF_K_GROUP_ASYNC:
		if (fform) dispatch_group_async_f(grp, dq, it, item_body); else dispatch_group_async(grp, dq, ^{ item_body(it); });
		break;
	default:
		vf_fail("bad kind %d", kind);
	}
	it->ret = vf_stamp();
	vf_progress();
	if (it->is_sync) {
		/* C05: the call must not return before the item finished, and the item's
		 * writes must be visible to the caller */
		if (!it->end || it->end > it->ret) {
			vf_violation("C05:sync-returned-early", "%s on q%u (%s) returned (stamp %llu) before its item %u finished (end stamp %llu)",
					vf_kind_names[kind], qi, q->label, (unsigned long long)it->ret, it->id, (unsigned long long)it->end);
		} else if (!vf_item_result_ok(it)) {
			vf_violation("C05:sync-result-not-visible", "%s on q%u returned but the item's result record is not visible to the caller", vf_kind_names[kind], qi);
		}
	}
	return it;
}

/* ----------------------------------------------------------------- client */
static int pick_kind(trial_t *t, vf_rng_t *r, hq_queue_t *q)
{
	uint32_t c = vf_rnd_n(r, 100);
	if (t->shape == SH_FLOOD) {
		if (c < 70) return VF_K_ASYNC;
		if (c < 85) return VF_K_BARRIER_ASYNC;
		if (c < 97) return VF_K_GROUP_ASYNC;
		return VF_K_SYNC;
	}
	if (q->kind == VF_Q_CONCURRENT) {
		/* reader heavy with barriers */
		if (c < 30) return VF_K_ASYNC;
		if (c < 55) return VF_K_SYNC;
		if (c < 65) return VF_K_BARRIER_ASYNC;
		if (c < 75) return VF_K_BARRIER_SYNC;
		if (c < 83) return VF_K_ASYNC_AND_WAIT;
		if (c < 88) return VF_K_BARRIER_ASYNC_AND_WAIT;
		return VF_K_GROUP_ASYNC;
	}
	if (c < 35) return VF_K_ASYNC;
	if (c < 60) return VF_K_SYNC;
	if (c < 68) return VF_K_BARRIER_ASYNC;
	if (c < 76) return VF_K_BARRIER_SYNC;
	if (c < 88) return VF_K_ASYNC_AND_WAIT;
	return VF_K_GROUP_ASYNC;
}

static void *client_main(void *arg)
{
	client_t *c = arg;
	trial_t *t = c->t;
	vf_rng_t *r = &c->rng;
	dispatch_group_t grp = dispatch_group_create();
	dispatch_semaphore_t sem = dispatch_semaphore_create(0);
	pthread_barrier_wait(&t->start_bar);
	for (int op = 0; op < t->ops_per_client; op++) {
		int qi = (int)vf_rnd_n(r, (uint32_t)t->nq);
		hq_queue_t *q = &t->qs[qi];
		int kind = pick_kind(t, r, q);
		int fform = (int)vf_rnd_n(r, 2);
		if (t->shape == SH_PINGPONG) {
			/* one item at a time per client: the queue flips empty <-> non-empty */
			uint32_t w = vf_rnd_n(r, 3);
			vf_item_t *it = NULL;
			const char *edge = NULL;
			if (w == 0) {
				/* asynchronous form; wait on a dispatch semaphore signalled by the item */
				if (kind != VF_K_BARRIER_ASYNC) kind = VF_K_ASYNC;
				it = submit_item(t, r, qi, kind, fform, c->cid, NULL, sem);
				if (it) dispatch_semaphore_wait(sem, DISPATCH_TIME_FOREVER);
				edge = "semaphore";
			} else if (w == 1) {
				it = submit_item(t, r, qi, VF_K_GROUP_ASYNC, fform, c->cid, grp, NULL);
				dispatch_group_wait(grp, DISPATCH_TIME_FOREVER);
				edge = "group_wait";
			} else {
				if (!(kind == VF_K_SYNC || kind == VF_K_BARRIER_SYNC || kind == VF_K_ASYNC_AND_WAIT || kind == VF_K_BARRIER_ASYNC_AND_WAIT)) kind = VF_K_SYNC;
				submit_item(t, r, qi, kind, fform, c->cid, grp, NULL);
			}
			if (it && edge) {
				/* C05: after the wait is satisfied the item's writes are visible */
				if (!it->end || !vf_item_result_ok(it)) {
					vf_violation(w == 0 ? "C05:semaphore-edge-not-visible" : "C05:group-wait-edge-not-visible",
							"client resumed by %s but item %u has %s", edge, it->id, it->end ? "an inconsistent result record" : "not finished");
				}
			}
		} else {
			submit_item(t, r, qi, kind, fform, c->cid, grp, NULL);
			if (t->shape == SH_MIXED && vf_rnd_n(r, 50) == 0) {
				dispatch_group_wait(grp, DISPATCH_TIME_FOREVER);
			}
		}
		if (vf_rnd_n(r, 64) == 0) sched_yield();
	}
	dispatch_group_wait(grp, DISPATCH_TIME_FOREVER);
	dispatch_release(grp);
	dispatch_release(sem);
	return NULL;
}

/* ----------------------------------------------------------- graph setup */
static const long g_qos_ids[] = { DISPATCH_QUEUE_PRIORITY_DEFAULT, DISPATCH_QUEUE_PRIORITY_LOW,
		DISPATCH_QUEUE_PRIORITY_BACKGROUND, QOS_CLASS_UTILITY, QOS_CLASS_DEFAULT };

/* retarget mode: a few root-level target queues and "legacy" leaves (dispatch_queue_create without a target:
 * the only queues whose target may change after activation). Only per-queue rules are claimed for the leaves:
 * which hierarchy an item runs in depends on when the asynchronous retarget takes effect. */
static void build_retarget_graph(trial_t *t)
{
	vf_rng_t *r = &t->rng;
	t->ntargets = (int)vf_rnd_range(r, 2, 3);
	t->nq = t->ntargets + (int)vf_rnd_range(r, 1, 4);
	for (int i = 0; i < t->nq; i++) {
		hq_queue_t *q = &t->qs[i];
		memset(q, 0, sizeof(*q));
		int leaf = i >= t->ntargets;
		q->kind = vf_rnd_n(r, 100) < (leaf ? 55 : 65) ? VF_Q_SERIAL : VF_Q_CONCURRENT;
		q->target = -1; q->tree = i;
		q->domain = (!leaf && q->kind == VF_Q_SERIAL) ? i + 1 : 0;
		snprintf(q->label, sizeof(q->label), "vf.rt%d.%s.%s", i, leaf ? "leaf" : "target", q->kind == VF_Q_SERIAL ? "serial" : "conc");
		q->chain_hash = vf_hash64(VF_HASH_INIT ^ t->salt, 0);
		q->rw_check = ~(uint64_t)0;
		dispatch_queue_attr_t attr = q->kind == VF_Q_SERIAL ? DISPATCH_QUEUE_SERIAL : DISPATCH_QUEUE_CONCURRENT;
		if (leaf && vf_rnd_n(r, 3) == 0) {
			static const dispatch_qos_class_t qc[] = { QOS_CLASS_USER_INITIATED, QOS_CLASS_DEFAULT, QOS_CLASS_UTILITY, QOS_CLASS_BACKGROUND };
			attr = dispatch_queue_attr_make_with_qos_class(attr, qc[vf_rnd_n(r, 4)], -(int)vf_rnd_n(r, 4));
		}
		q->q = dispatch_queue_create(q->label, attr);
		if (leaf && vf_rnd_n(r, 2)) dispatch_set_target_queue(q->q, t->qs[vf_rnd_n(r, (uint32_t)t->ntargets)].q);
	}
	vf_trace_watch_reset();
	for (int i = t->ntargets; i < t->nq; i++) vf_trace_watch((char *)t->qs[i].q + 56);   /* dq_state of the leaves */
	t->rt_workloop = (dispatch_queue_t)dispatch_workloop_create("vf.rt.workloop");
	for (int i = 0; i < MAXQ; i++) pthread_mutex_init(&t->rt_mtx[i], NULL);
	t->retarget = 1;
}

static void *retargeter_main(void *arg)
{
	trial_t *t = arg;
	vf_rng_t r;
	vf_rng_seed(&r, t->salt, 0x7e7a);
	uint64_t seen_done = 0, seen_at = vf_now_ns(CLOCK_MONOTONIC);
	while (!atomic_load(&t->rt_stop)) {
		/* clients stalled for 1.5 s: stop touching the library so that the watchdog gets a stuck witness and the
		 * trace rings keep the history */
		uint64_t d = atomic_load(&t->done) + atomic_load(&t->expected), now = vf_now_ns(CLOCK_MONOTONIC);
		if (d != seen_done) { seen_done = d; seen_at = now; }
		else if (now - seen_at > 1500000000ull) {
			if (!atomic_exchange(&t->rt_stalled, 1)) vf_trace_dump_watched();
			/* debugging aid: VF_STALL_GDB=<seconds> — once the stall has lasted that long, dump every thread and every queue of the trial */
			static _Atomic int dumped;
			if (getenv("VF_STALL_GDB") && now - seen_at > (uint64_t)atoi(getenv("VF_STALL_GDB")) * 1000000000ull && !atomic_exchange(&dumped, 1)) {
				char fn[128], cmd[512];
				snprintf(fn, sizeof(fn), "/tmp/vf-stall-%d.gdbcmd", (int)getpid());
				FILE *f = fopen(fn, "w");
				if (f) {
					fprintf(f, "set print pretty off\nthread apply all bt 14\n");
					for (int i = 0; i < t->nq; i++) fprintf(f, "echo \\nQUEUE %d %s\\n\np/x *(struct dispatch_lane_s *)%p\n", i, t->qs[i].label, (void *)t->qs[i].q);
					fprintf(f, "p/x _dispatch_root_queues[4]\np/x _dispatch_root_queues[5]\np/x _dispatch_root_queues[6]\np/x _dispatch_root_queues[7]\np/x _dispatch_root_queues[2]\np/x _dispatch_root_queues[3]\n");
					fclose(f);
					snprintf(cmd, sizeof(cmd), "timeout 120 gdb -batch -p %d -x %s > /tmp/vf-stall-%d.txt 2>&1", (int)getpid(), fn, (int)getpid());
					int rc = system(cmd); (void)rc;
				}
			}
			struct timespec ts = { 0, 20000000 }; nanosleep(&ts, NULL); continue;
		}
		int li = t->ntargets + (int)vf_rnd_n(&r, (uint32_t)(t->nq - t->ntargets));
		hq_queue_t *leaf = &t->qs[li];
		pthread_mutex_lock(&t->rt_mtx[li]);
		if (atomic_load(&t->frozen[li])) { pthread_mutex_unlock(&t->rt_mtx[li]); sched_yield(); continue; }
		uint32_t c = vf_rnd_n(&r, 13);
		if (vf_opt_long("rt-wl", 1) && vf_rnd_n(&r, 400) == 0) {
			/* one way: a queue that targets a workloop is not retargetable anymore */
			atomic_store(&t->frozen[li], 1);
			dispatch_set_target_queue(leaf->q, t->rt_workloop);
			atomic_fetch_add(&t->to_workloop, 1);
			atomic_fetch_add(&t->retargets, 1);
			pthread_mutex_unlock(&t->rt_mtx[li]);
			continue;
		}
		if (vf_opt_long("rt-burst", 1) && vf_rnd_n(&r, 300) == 0) {
			/* a backlog: hundreds of retargets of one leaf back to back, no pacing (every one is a barrier item of
			 * the leaf that takes its side lock when it is applied) */
			int nb = (int)vf_rnd_range(&r, 200, 1500);
			for (int b = 0; b < nb; b++) dispatch_set_target_queue(leaf->q, t->qs[(b + li) % t->ntargets].q);
			atomic_fetch_add(&t->retargets, (uint64_t)nb);
			atomic_fetch_add(&t->bursts, 1);
			pthread_mutex_unlock(&t->rt_mtx[li]);
			continue;
		}
		int susp = vf_opt_long("rt-susp", 1) && vf_rnd_n(&r, 6) == 0;
		if (susp) { dispatch_suspend(leaf->q); atomic_fetch_add(&t->while_suspended, 1); }
		dispatch_queue_t tq = c < 7 ? t->qs[vf_rnd_n(&r, (uint32_t)t->ntargets)].q :
				c < 9 ? dispatch_get_global_queue(c == 7 ? DISPATCH_QUEUE_PRIORITY_DEFAULT : DISPATCH_QUEUE_PRIORITY_LOW, 0) :
				c < 10 ? DISPATCH_TARGET_QUEUE_DEFAULT : NULL;
		if (c >= 10 && !vf_opt_long("rt-eph", 1)) { c = 9; tq = DISPATCH_TARGET_QUEUE_DEFAULT; }
		if (c >= 10) {
			/* an ephemeral target: the leaf holds the only reference ("the queue is retained, and the previous
			 * target queue, if any, is released"), so the next retarget of this leaf disposes of it (C17) */
			tq = dispatch_queue_create("vf.rt.ephemeral", c == 10 ? DISPATCH_QUEUE_CONCURRENT : DISPATCH_QUEUE_SERIAL);
			dispatch_set_target_queue(leaf->q, tq);
			dispatch_release(tq);
			atomic_fetch_add(&t->ephemeral, 1);
		} else {
			dispatch_set_target_queue(leaf->q, tq);
		}
		if (susp) { if (vf_rnd_n(&r, 2)) sched_yield(); dispatch_resume(leaf->q); }
		pthread_mutex_unlock(&t->rt_mtx[li]);
		/* (not logical progress for the watchdog: clients stuck behind a retarget must yield a stuck witness) */
		if (atomic_fetch_add(&t->retargets, 1) >= 20000) { struct timespec ts = { 0, 2000000 }; nanosleep(&ts, NULL); continue; }
		uint32_t w = vf_rnd_n(&r, 4);
		if (w == 0) sched_yield();
		else if (w < 3) { struct timespec ts = { 0, (long)vf_rnd_n(&r, 300000) }; nanosleep(&ts, NULL); }
	}
	return NULL;
}

/* suspends and resumes leaves on its own, not coordinated with the retargeters: a suspend can land while
 * another thread's retarget holds the leaf (inline try-sync + private suspend count) */
static void *suspender_main(void *arg)
{
	trial_t *t = arg;
	vf_rng_t r;
	vf_rng_seed(&r, t->salt, 0x5a5b);
	uint64_t n = 0;
	while (!atomic_load(&t->rt_stop)) {
		if (atomic_load(&t->rt_stalled)) { struct timespec ts = { 0, 20000000 }; nanosleep(&ts, NULL); continue; }
		hq_queue_t *leaf = &t->qs[t->ntargets + (int)vf_rnd_n(&r, (uint32_t)(t->nq - t->ntargets))];
		int depth = 1 + (int)vf_rnd_n(&r, 3);
		for (int i = 0; i < depth; i++) dispatch_suspend(leaf->q);
		if (vf_rnd_n(&r, 3) == 0) sched_yield(); else if (vf_rnd_n(&r, 2)) vf_spin_ns(vf_rnd_n(&r, 20000));
		for (int i = 0; i < depth; i++) dispatch_resume(leaf->q);
		n++;
		uint32_t w = vf_rnd_n(&r, 4);
		if (w == 0) sched_yield();
		else if (w < 3) { struct timespec ts = { 0, (long)vf_rnd_n(&r, 200000) }; nanosleep(&ts, NULL); }
	}
	vf_count("foreign_suspend_resume_pairs_during_retargets", n);
	return NULL;
}

static void build_graph(trial_t *t)
{
	vf_rng_t *r = &t->rng;
	const char *mode = vf_opts.mode;
	if (!strcmp(mode, "retarget")) { build_retarget_graph(t); return; }
	int want_hier = !strcmp(mode, "hier") || !strcmp(mode, "default") || !strcmp(mode, "wl");
	int serial_only = !strcmp(mode, "serial");
	int conc_focus = !strcmp(mode, "barrier");
	t->nq = serial_only ? (int)vf_rnd_range(r, 1, 3) : conc_focus ? (int)vf_rnd_range(r, 1, 2) : (int)vf_rnd_range(r, 2, 7);
	for (int i = 0; i < t->nq; i++) {
		hq_queue_t *q = &t->qs[i];
		memset(q, 0, sizeof(*q));
		uint32_t c = vf_rnd_n(r, 100);
		if (serial_only) q->kind = VF_Q_SERIAL;
		else if (conc_focus) q->kind = VF_Q_CONCURRENT;
		else if (c < 45) q->kind = VF_Q_SERIAL;
		else if (c < 80) q->kind = VF_Q_CONCURRENT;
		else if (c < 90 && t->use_global) q->kind = VF_Q_GLOBAL;
		else if (t->use_workloop && i < t->nq - 1) q->kind = VF_Q_WORKLOOP;
		else q->kind = VF_Q_SERIAL;
		q->target = -1;
		if (q->kind != VF_Q_GLOBAL && q->kind != VF_Q_WORKLOOP && i > 0 && want_hier && vf_rnd_n(r, 100) < 60) {
			/* target an earlier custom queue (depth <= 4) */
			int tq = (int)vf_rnd_n(r, (uint32_t)i);
			if (t->qs[tq].kind != VF_Q_GLOBAL && t->qs[tq].depth < 3) q->target = tq;
			/* in wl mode prefer a workloop bottom when there is one */
			if (t->use_workloop) for (int k = 0; k < i; k++) if (t->qs[k].kind == VF_Q_WORKLOOP && vf_rnd_n(r, 2)) { q->target = k; break; }
		}
		if (q->target >= 0) {
			q->depth = t->qs[q->target].depth + 1;
			q->tree = t->qs[q->target].tree;
			q->domain = t->qs[q->target].domain;
			if (!q->domain && q->kind == VF_Q_SERIAL) q->domain = i + 1;
		} else {
			q->tree = i;
			q->domain = (q->kind == VF_Q_SERIAL || q->kind == VF_Q_WORKLOOP) ? i + 1 : 0;
		}
		snprintf(q->label, sizeof(q->label), "vf.q%d.%s.t%d", i,
				q->kind == VF_Q_SERIAL ? "serial" : q->kind == VF_Q_CONCURRENT ? "conc" :
				q->kind == VF_Q_GLOBAL ? "global" : "workloop", q->target);
		q->chain_hash = vf_hash64(VF_HASH_INIT ^ t->salt, 0);
		q->rw_check = ~(uint64_t)0;
		if (q->kind == VF_Q_GLOBAL) {
			long id = g_qos_ids[vf_rnd_n(r, 5)];
			q->q = dispatch_get_global_queue(id, vf_rnd_n(r, 4) == 0 ? DISPATCH_QUEUE_OVERCOMMIT : 0);
			if (!q->q) vf_fail("no global queue for id %ld", id);
			continue;
		}
		if (q->kind == VF_Q_WORKLOOP) {
			q->q = (dispatch_queue_t)dispatch_workloop_create(q->label);
			continue;
		}
		dispatch_queue_attr_t attr = q->kind == VF_Q_SERIAL ? DISPATCH_QUEUE_SERIAL : DISPATCH_QUEUE_CONCURRENT;
		if (vf_rnd_n(r, 3) == 0) {
			static const dispatch_qos_class_t qc[] = { QOS_CLASS_USER_INITIATED, QOS_CLASS_DEFAULT, QOS_CLASS_UTILITY, QOS_CLASS_BACKGROUND };
			attr = dispatch_queue_attr_make_with_qos_class(attr, qc[vf_rnd_n(r, 4)], -(int)vf_rnd_n(r, 4));
		}
		dispatch_queue_t tq = q->target >= 0 ? t->qs[q->target].q : NULL;
		if (!tq && vf_rnd_n(r, 4) == 0) {
			tq = dispatch_get_global_queue(g_qos_ids[vf_rnd_n(r, 3)], 0);
		}
		uint32_t how = vf_rnd_n(r, 3);
		if (how == 0) {
			q->q = dispatch_queue_create_with_target(q->label, attr, tq);
		} else if (how == 1) {
			/* created inactive, retargeted, then activated */
			q->q = dispatch_queue_create(q->label, dispatch_queue_attr_make_initially_inactive(attr));
			if (tq) dispatch_set_target_queue(q->q, tq);
			dispatch_activate(q->q);
		} else {
			q->q = dispatch_queue_create(q->label, attr);
			/* retarget an idle, never-used queue */
			if (tq) dispatch_set_target_queue(q->q, tq);
		}
		/* a width-limited concurrent queue (dispatch_queue_set_width, deprecated SPI but the only way to get one): asynchronous
		 * readers can then run out of width, the drainer gives up with "no width", sync readers go over the limit by design;
		 * barriers exclude all the same */
		if (q->kind == VF_Q_CONCURRENT && (long)vf_rnd_n(r, 100) < vf_opt_long("narrow", 15)) {
			static const long ws[] = { 2, 2, 3, 4, 6 };
			dispatch_queue_set_width(q->q, ws[vf_rnd_n(r, 5)]);
			vf_count("width_limited_concurrent_queues", 1);
		}
	}
}

static uint64_t graph_signature(trial_t *t)
{
	uint64_t h = VF_HASH_INIT;
	for (int i = 0; i < t->nq; i++) {
		h = vf_hash64(h, (uint64_t)t->qs[i].kind * 16 + (uint64_t)(t->qs[i].target + 1));
	}
	return h;
}

/* --------------------------------------------------------------- checker */
static void check_trial(trial_t *t, vf_ivstats_t *st)
{
	int n = atomic_load(&t->next_item);
	if (n > t->cap) n = t->cap;
	vf_item_t **sel = malloc(sizeof(*sel) * (size_t)(n + 1));
	vf_ref_t *refs = malloc(sizeof(*refs) * (size_t)(n + 1));
	vf_ref_t *refs2 = malloc(sizeof(*refs2) * (size_t)(n + 1));
	/* C01 exactly once */
	for (int i = 0; i < n; i++) {
		vf_item_t *it = &t->items[i];
		if (!it->submitted) continue;
		uint32_t runs = atomic_load(&it->runs);
		if (runs != 1) {
			vf_violation(runs ? "C01:ran-twice" : "C01:never-ran", "item %u (%s on q%u %s) ran %u times", it->id,
					vf_kind_names[it->kind], it->queue, t->qs[it->queue].label, runs);
		}
		if (runs == 1 && !vf_item_result_ok(it)) {
			vf_violation("C05:result-not-visible-at-quiescence", "item %u result record inconsistent", it->id);
		}
	}
	for (int qi = 0; qi < t->nq; qi++) {
		hq_queue_t *q = &t->qs[qi];
		char what[96];
		/* per-queue rules */
		int m = 0;
		for (int i = 0; i < n; i++) if (t->items[i].submitted && t->items[i].queue == qi) sel[m++] = &t->items[i];
		snprintf(what, sizeof(what), "queue %s (shape %s, %s)", q->label, shape_names[t->shape], t->prof.desc);
		if (q->kind == VF_Q_SERIAL) {
			/* (a workloop is priority ordered, not FIFO: only exclusion is claimed for it) */
			vf_check_queue_rules(sel, m, refs, refs2, q->kind, "C02:overlap:serial",
					q->target >= 0 ? "C03:fifo:serial-in-hierarchy" : "C02:fifo:serial", what, st);
			if (q->target < 0 && q->kind == VF_Q_SERIAL) {
				/* is it a plain serial queue (no children)? then exclusion is C02's */
				int has_child = 0;
				for (int k = 0; k < t->nq; k++) if (t->qs[k].target == qi) has_child = 1;
				if (!has_child) vf_check_exclusion(sel, m, refs, "C02:overlap:serial", what, st);
			}
			if (q->kind == VF_Q_SERIAL && q->chain_ctr != (uint64_t)m) {
				vf_violation("C05:chain-count", "serial queue %s: plain chain counter is %llu after %d items (lost update: two items ran without ordering)",
						q->label, (unsigned long long)q->chain_ctr, m);
			}
		} else if (q->kind == VF_Q_CONCURRENT) {
			vf_check_queue_rules(sel, m, refs, refs2, q->kind, "C04:barrier-overlap", "C04:barrier-order", what, st);
		}
		/* domain exclusion */
		if (q->domain == qi + 1) {
			m = 0;
			int members = 0;
			for (int k = 0; k < t->nq; k++) if (t->qs[k].domain == qi + 1) members++;
			for (int i = 0; i < n; i++) if (t->items[i].submitted && t->items[i].domain == qi + 1) sel[m++] = &t->items[i];
			const char *key = members > 1 ? (q->kind == VF_Q_WORKLOOP ? "C03:overlap:workloop-hierarchy" : "C03:overlap:serial-hierarchy") : "C02:overlap:serial";
			snprintf(what, sizeof(what), "hierarchy under %s (%d queues, shape %s, %s)", q->label, members, shape_names[t->shape], t->prof.desc);
			vf_check_exclusion(sel, m, refs, key, what, st);
			if (members > 1 && m > 0) vf_count(q->kind == VF_Q_WORKLOOP ? "workloop_domains" : "hierarchy_domains", 1);
			if (q->plain_ctr != (uint64_t)m) {
				vf_violation(members > 1 ? "C03:plain-counter-lost-update" : "C02:plain-counter-lost-update",
						"%s: unsynchronised counter is %llu after %d items", what, (unsigned long long)q->plain_ctr, m);
			}
		}
	}
	free(sel); free(refs); free(refs2);
}

/* ---------------------------------------------------------------- trials */
static void teardown(trial_t *t)
{
	/* release in random order: children keep their targets alive (C17 flavour) */
	int order[MAXQ];
	for (int i = 0; i < t->nq; i++) order[i] = i;
	for (int i = t->nq - 1; i > 0; i--) {
		int j = (int)vf_rnd_n(&t->rng, (uint32_t)i + 1), x = order[i];
		order[i] = order[j]; order[j] = x;
	}
	for (int i = 0; i < t->nq; i++) {
		hq_queue_t *q = &t->qs[order[i]];
		if (q->kind != VF_Q_GLOBAL) dispatch_release(q->q);
	}
	if (t->rt_workloop) dispatch_release(t->rt_workloop);
}

trial_t *g_cur_trial;   /* for debuggers */
static void run_std_trial(int idx)
{
	trial_t *t = calloc(1, sizeof(*t));
	g_cur_trial = t;
	t->idx = idx;
	vf_rng_seed(&t->rng, vf_opts.seed, (uint64_t)idx * 7919 + 13);
	vf_rng_t *r = &t->rng;
	t->salt = vf_rnd(r) | 1;
	const char *mode = vf_opts.mode;
	t->use_workloop = !strcmp(mode, "wl") || (vf_opt_long("workloops", 1) && !strcmp(mode, "hier") && vf_rnd_n(r, 3) == 0);
	t->use_global = strcmp(mode, "serial") && strcmp(mode, "barrier");
	if (!strcmp(mode, "pingpong")) t->shape = SH_PINGPONG;
	else if (!strcmp(mode, "flood")) t->shape = SH_FLOOD;
	else if (!strcmp(mode, "mixed")) t->shape = SH_MIXED;
	else if (!strcmp(mode, "retarget")) { uint32_t c = vf_rnd_n(r, 10); t->shape = c < 5 ? SH_MIXED : c < 8 ? SH_PINGPONG : SH_FLOOD; }
	else t->shape = (int)vf_rnd_n(r, SH_NSHAPES);
	t->nclients = (int)vf_rnd_range(r, 2, 12);
	vf_perturb_draw(r, &t->prof);
	int base = t->shape == SH_FLOOD ? 1500 : t->shape == SH_PINGPONG ? 400 : 600;
	if (t->prof.kind == VF_P_OFF) base *= 4;
	t->ops_per_client = (int)((long)base * vf_opts.scale / 100);
	if (t->ops_per_client < 10) t->ops_per_client = 10;
	t->chain_pct = (t->shape == SH_MIXED && vf_rnd_n(r, 2)) ? (int)vf_rnd_range(r, 2, 15) : 0;
	t->body_spin_max_ns = (int)vf_rnd_n(r, 4) * 5000;
	build_graph(t);
	t->cap = t->nclients * t->ops_per_client * (t->chain_pct ? 3 : 1) + t->nclients * t->ops_per_client / 2 + 64;
	t->items = calloc((size_t)t->cap, sizeof(vf_item_t));
	if (!t->items) vf_fail("out of memory");
	vf_sites_reset_trial();
	uint64_t inj0 = vf_perturb_injected();

	client_t cl[MAXCLIENTS];
	pthread_barrier_init(&t->start_bar, NULL, (unsigned)t->nclients);
	char ctx[96];
	snprintf(ctx, sizeof(ctx), "%s:%s", mode, shape_names[t->shape]);
	vf_watch_begin(ctx, 0);
	for (int i = 0; i < t->nclients; i++) {
		cl[i].t = t; cl[i].cid = i;
		vf_rng_seed(&cl[i].rng, t->salt, 1000 + (uint64_t)i);
		if (pthread_create(&cl[i].th, NULL, client_main, &cl[i])) vf_fail("pthread_create");
	}
	pthread_t rth[2], sth; int nrt = 0, have_susp = 0;
	if (t->retarget) {
		nrt = 1 + (int)(t->salt & 1);
		for (int i = 0; i < nrt; i++) if (pthread_create(&rth[i], NULL, retargeter_main, t)) vf_fail("pthread_create");
		if (vf_opt_long("rt-susp", 1) && ((t->salt >> 1) & 1)) have_susp = !pthread_create(&sth, NULL, suspender_main, t);
	}
	for (int i = 0; i < t->nclients; i++) pthread_join(cl[i].th, NULL);
	if (t->retarget) {
		atomic_store(&t->rt_stop, 1);
		for (int i = 0; i < nrt; i++) pthread_join(rth[i], NULL);
		if (have_susp) pthread_join(sth, NULL);
		vf_count("retargets_while_in_use", atomic_load(&t->retargets));
		vf_count("retarget_trials", 1);
		vf_count("retargets_to_ephemeral_queue", atomic_load(&t->ephemeral));
		vf_count("retargets_to_workloop", atomic_load(&t->to_workloop));
		vf_count("retargets_while_suspended", atomic_load(&t->while_suspended));
		vf_count("retarget_bursts", atomic_load(&t->bursts));
	}
	vf_watch_end();
	/* all submissions returned: now every accepted item must run */
	uint64_t expected = atomic_load(&t->expected);
	snprintf(ctx, sizeof(ctx), "%s:%s:quiescence", mode, shape_names[t->shape]);
	/* children may still add to expected while parents run; loop until stable */
	for (;;) {
		vf_wait_counter(&t->done, expected, ctx);
		uint64_t e2 = atomic_load(&t->expected);
		if (e2 == expected) break;
		expected = e2;
	}
	vf_perturb_off();
	if (atomic_load(&t->next_item) > t->cap) vf_count("item_pool_exhausted", 1);
	vf_ivstats_t st = { 0, 0, 0 };
	check_trial(t, &st);
	uint64_t sitesig = vf_sites_trial_signature();
	uint64_t sig = vf_hash64(vf_hash64(vf_hash64(graph_signature(t), (uint64_t)t->shape), (uint64_t)t->prof.kind), sitesig);
	sig = vf_hash64(sig, (uint64_t)vf_log2_bucket(st.overlaps_allowed) * 64 + (uint64_t)vf_log2_bucket(st.cross_thread));
	vf_count("items", expected);
	vf_count("reader_overlaps_seen", st.overlaps_allowed);
	vf_count("ordered_pairs_checked", st.ordered_pairs);
	vf_count("cross_thread_handoffs", st.cross_thread);
	vf_count(shape_names[t->shape], 1);
	char gdesc[256]; int off = 0;
	for (int i = 0; i < t->nq && off < 230; i++) {
		off += snprintf(gdesc + off, sizeof(gdesc) - (size_t)off, "%s%c%d", i ? " " : "",
				t->qs[i].kind == VF_Q_SERIAL ? 's' : t->qs[i].kind == VF_Q_CONCURRENT ? 'c' : t->qs[i].kind == VF_Q_GLOBAL ? 'g' : 'w', t->qs[i].target);
	}
	vf_emit("trial", "\"n\":1,\"sig\":\"%016llx\",\"nontrivial\":%s,\"sample\":{\"trial\":%d,\"shape\":\"%s\",\"graph\":\"%s\",\"clients\":%d,\"items\":%llu,\"perturb\":\"%s\",\"delays\":%llu,\"reader_overlaps\":%llu,\"cross_thread\":%llu}",
			(unsigned long long)sig, (st.cross_thread > 0) ? "true" : "false", idx, shape_names[t->shape], gdesc, t->nclients,
			(unsigned long long)expected, t->prof.desc, (unsigned long long)(vf_perturb_injected() - inj0),
			(unsigned long long)st.overlaps_allowed, (unsigned long long)st.cross_thread);
	teardown(t);
	pthread_barrier_destroy(&t->start_bar);
	free(t->items);
	free(t);
}

/* ------------------------------------------------------------- gate mode
 * A gate item parks the serial bottom of a hierarchy (or, as a barrier, a
 * concurrent queue) on a POSIX semaphore. While it is parked clients call the
 * asynchronous submission APIs on every queue of the hierarchy. If any of those
 * calls waited for an item to run, the clients never finish and the watchdog
 * produces the stuck witness. No item of the gated domain may start before the
 * gate opens. */
typedef struct { sem_t open; _Atomic int entered; uint64_t open_stamp; } gate_t;
static gate_t g_gate;
static void gate_body(void *ctx)
{
	gate_t *g = ctx;
	atomic_store(&g->entered, 1);
	while (sem_wait(&g->open) && errno == EINTR) {}
}

typedef struct { trial_t *t; int cid; vf_rng_t rng; pthread_t th; int nops; int lo, hi; } gclient_t;
static void *gate_client(void *arg)
{
	gclient_t *c = arg;
	trial_t *t = c->t;
	dispatch_group_t grp = dispatch_group_create();
	for (int i = 0; i < c->nops; i++) {
		int qi = c->lo + (int)vf_rnd_n(&c->rng, (uint32_t)(c->hi - c->lo + 1));
		uint32_t k = vf_rnd_n(&c->rng, 3);
		submit_item(t, &c->rng, qi, k == 0 ? VF_K_ASYNC : k == 1 ? VF_K_BARRIER_ASYNC : VF_K_GROUP_ASYNC,
				(int)vf_rnd_n(&c->rng, 2), c->cid, grp, NULL);
	}
	c->t = NULL;
	/* the group is released once empty */
	dispatch_group_notify_f(grp, dispatch_get_global_queue(0, 0), grp, (dispatch_function_t)dispatch_release);
	return NULL;
}

static void run_gate_trial(int idx)
{
	trial_t *t = calloc(1, sizeof(*t));
	t->idx = idx;
	vf_rng_seed(&t->rng, vf_opts.seed, (uint64_t)idx * 104729 + 5);
	vf_rng_t *r = &t->rng;
	t->salt = vf_rnd(r) | 1;
	t->shape = SH_FLOOD;
	vf_perturb_draw(r, &t->prof);
	/* hierarchy: q0 bottom (serial or concurrent), q1.. target q0 or each other */
	t->nq = (int)vf_rnd_range(r, 1, 5);
	int bottom_serial = vf_opt_long("gate-conc", 0) ? 0 : (int)vf_rnd_n(r, 3) != 0;
	for (int i = 0; i < t->nq; i++) {
		hq_queue_t *q = &t->qs[i];
		memset(q, 0, sizeof(*q));
		q->kind = (i == 0) ? (bottom_serial ? VF_Q_SERIAL : VF_Q_CONCURRENT) : (vf_rnd_n(r, 2) ? VF_Q_SERIAL : VF_Q_CONCURRENT);
		q->target = i == 0 ? -1 : (int)vf_rnd_n(r, (uint32_t)i);
		if (!bottom_serial) { t->nq = 1; }
		q->tree = 0;
		q->domain = bottom_serial ? 1 : 0;
		q->chain_hash = vf_hash64(VF_HASH_INIT ^ t->salt, 0);
		q->rw_check = ~(uint64_t)0;
		snprintf(q->label, sizeof(q->label), "vf.gate.q%d.%s.t%d", i, q->kind == VF_Q_SERIAL ? "serial" : "conc", q->target);
		q->q = dispatch_queue_create_with_target(q->label, q->kind == VF_Q_SERIAL ? DISPATCH_QUEUE_SERIAL : DISPATCH_QUEUE_CONCURRENT,
				q->target >= 0 ? t->qs[q->target].q : NULL);
	}
	int nclients = (int)vf_rnd_range(r, 1, 8);
	int nops = (int)((long)vf_rnd_range(r, 50, 400) * vf_opts.scale / 100) + 1;
	t->cap = nclients * nops + 8;
	t->items = calloc((size_t)t->cap, sizeof(vf_item_t));
	sem_init(&g_gate.open, 0, 0);
	atomic_store(&g_gate.entered, 0);
	/* park the domain */
	if (bottom_serial) dispatch_async_f(t->qs[0].q, &g_gate, gate_body);
	else dispatch_barrier_async_f(t->qs[0].q, &g_gate, gate_body);
	vf_watch_begin("gate:park", 0);
	while (!atomic_load(&g_gate.entered)) sched_yield();
	vf_watch_end();
	gclient_t cl[8];
	vf_watch_begin("gate:async-submission-while-parked", 0);
	for (int i = 0; i < nclients; i++) {
		cl[i].t = t; cl[i].cid = i; cl[i].nops = nops; cl[i].lo = 0; cl[i].hi = t->nq - 1;
		vf_rng_seed(&cl[i].rng, t->salt, 77 + (uint64_t)i);
		pthread_create(&cl[i].th, NULL, gate_client, &cl[i]);
	}
	for (int i = 0; i < nclients; i++) pthread_join(cl[i].th, NULL);
	vf_watch_end();
	/* all asynchronous calls returned while the gate was closed; nothing may have started */
	uint64_t open_stamp = vf_stamp();
	int n = atomic_load(&t->next_item);
	sem_post(&g_gate.open);
	uint64_t expected = atomic_load(&t->expected);
	vf_wait_counter(&t->done, expected, "gate:quiescence");
	vf_perturb_off();
	int early = 0;
	for (int i = 0; i < n; i++) {
		vf_item_t *it = &t->items[i];
		bool gated = bottom_serial || it->is_barrier || 1;
		if (gated && it->start && it->start < open_stamp) {
			/* on a concurrent bottom every item queued behind the gate barrier is held too */
			if (early++ < 3) {
				vf_violation(bottom_serial ? "C03:ran-while-bottom-parked" : "C04:ran-while-barrier-running",
						"item %u (%s on %s) started at %llu while the gate item was still running (gate opened at %llu)",
						it->id, vf_kind_names[it->kind], t->qs[it->queue].label, (unsigned long long)it->start, (unsigned long long)open_stamp);
			}
		}
	}
	vf_ivstats_t st = { 0, 0, 0 };
	check_trial(t, &st);
	vf_count("items", expected);
	vf_count("gate_trials", 1);
	vf_count("gate_async_calls_returned_while_parked", expected);
	uint64_t sig = vf_hash64(vf_hash64(graph_signature(t), (uint64_t)t->prof.kind), (uint64_t)nclients * 1000 + (uint64_t)vf_log2_bucket(expected));
	vf_emit("trial", "\"n\":1,\"sig\":\"g%016llx\",\"nontrivial\":true,\"sample\":{\"trial\":%d,\"shape\":\"gate\",\"bottom\":\"%s\",\"queues\":%d,\"clients\":%d,\"async_calls_while_parked\":%llu,\"perturb\":\"%s\"}",
			(unsigned long long)sig, idx, bottom_serial ? "serial" : "concurrent+barrier", t->nq, nclients, (unsigned long long)expected, t->prof.desc);
	teardown(t);
	sem_destroy(&g_gate.open);
	free(t->items);
	free(t);
}

/* ----------------------------------------------------------- starve mode
 * Every pool thread of one global queue blocks inside an item that waits for a
 * later item of the same queue. Completion requires the pool to grow. */
typedef struct { sem_t sem; _Atomic int blocked; _Atomic int released; } starve_t;
static starve_t g_st;
static _Atomic uint64_t g_st_done;
static void starve_blocker(void *ctx)
{
	atomic_fetch_add(&g_st.blocked, 1);
	vf_progress();
	while (sem_wait(&g_st.sem) && errno == EINTR) {}
	atomic_fetch_add(&g_st_done, 1);
	vf_progress();
}
static void starve_releaser(void *ctx)
{
	int n = (int)(intptr_t)ctx;
	atomic_store(&g_st.released, 1);
	for (int i = 0; i < n; i++) sem_post(&g_st.sem);
	atomic_fetch_add(&g_st_done, 1);
	vf_progress();
}

static void run_starve_trial(int idx)
{
	vf_rng_t r;
	vf_rng_seed(&r, vf_opts.seed, (uint64_t)idx * 31337 + 3);
	vf_profile_t prof;
	vf_perturb_draw(&r, &prof);
	long id = g_qos_ids[vf_rnd_n(&r, 4)];
	dispatch_queue_t gq = dispatch_get_global_queue(id, 0);
	int pool = vf_opts.ncpu;
	int extra = (int)vf_rnd_range(&r, 0, 3);
	int blockers = pool + extra;
	sem_init(&g_st.sem, 0, 0);
	atomic_store(&g_st.blocked, 0);
	atomic_store(&g_st.released, 0);
	atomic_store(&g_st_done, 0);
	for (int i = 0; i < blockers; i++) dispatch_async_f(gq, NULL, starve_blocker);
	/* wait until the whole pool is blocked (or everything is blocked already) */
	vf_watch_begin("starve:fill-pool", 0);
	while (atomic_load(&g_st.blocked) < pool) { struct timespec ts = { 0, 1000000 }; nanosleep(&ts, NULL); }
	vf_watch_end();
	int blocked_at_submit = atomic_load(&g_st.blocked);
	dispatch_async_f(gq, (void *)(intptr_t)blockers, starve_releaser);
	/* the pool monitor ticks once a second; allow a few seconds of legitimate idleness */
	vf_watch_begin("starve:pool-must-grow", 0);
	while (atomic_load(&g_st_done) < (uint64_t)blockers + 1) { struct timespec ts = { 0, 2000000 }; nanosleep(&ts, NULL); }
	vf_watch_end();
	vf_perturb_off();
	vf_count("starve_trials", 1);
	vf_count("starve_blockers", (uint64_t)blockers);
	vf_count("items", (uint64_t)blockers + 1);
	vf_emit("trial", "\"n\":1,\"sig\":\"s%d-%d-%ld-%d\",\"nontrivial\":true,\"sample\":{\"trial\":%d,\"shape\":\"starve\",\"pool\":%d,\"blockers\":%d,\"blocked_when_releaser_submitted\":%d,\"global_queue_id\":%ld,\"perturb\":\"%s\"}",
			pool, blockers, id, prof.kind, idx, pool, blockers, blocked_at_submit, id, prof.desc);
	sem_destroy(&g_st.sem);
}

/* ----------------------------------------------------------- window mode
 * Directed schedule (failpoint through hook H1): a first pusher P is stalled
 * inside dispatch_async between linking its item at the tail of an empty queue
 * and waking the queue up. While it is stalled the main thread submits A
 * asynchronously (returns at once: the queue is not empty) and then B through a
 * synchronous barrier-class API from the same thread. C02/C04 require A to finish
 * before B starts (same thread, program order). */
typedef struct { trial_t *t; int qi; } wpusher_t;
static void *window_pusher(void *arg)
{
	wpusher_t *w = arg;
	vf_stall_arm("_dispatch_lane_push", 2, 1, 30ull * 1000 * 1000);
	submit_item(w->t, &w->t->rng, w->qi, VF_K_ASYNC, 1, 1, NULL, NULL);
	vf_stall_disarm();
	return NULL;
}

static void run_window_trial(int idx)
{
	trial_t *t = calloc(1, sizeof(*t));
	t->idx = idx;
	vf_rng_seed(&t->rng, vf_opts.seed, (uint64_t)idx * 15485863 + 11);
	vf_rng_t *r = &t->rng;
	t->salt = vf_rnd(r) | 1;
	t->shape = SH_MIXED;
	vf_perturb_off();
	snprintf(t->prof.desc, sizeof(t->prof.desc), "stall(first pusher after tail exchange)");
	static const int bk[] = { VF_K_SYNC, VF_K_BARRIER_SYNC, VF_K_ASYNC_AND_WAIT, VF_K_BARRIER_ASYNC_AND_WAIT };
	int variant = idx % 8;
	int conc = variant >= 4;
	int bkind = bk[variant % 4];
	if (conc && bkind == VF_K_SYNC) bkind = VF_K_BARRIER_SYNC;
	if (conc && bkind == VF_K_ASYNC_AND_WAIT) bkind = VF_K_BARRIER_ASYNC_AND_WAIT;
	t->nq = 1;
	hq_queue_t *q = &t->qs[0];
	q->kind = conc ? VF_Q_CONCURRENT : VF_Q_SERIAL;
	q->target = -1; q->tree = 0; q->domain = conc ? 0 : 1;
	q->chain_hash = vf_hash64(VF_HASH_INIT ^ t->salt, 0);
	q->rw_check = ~(uint64_t)0;
	snprintf(q->label, sizeof(q->label), "vf.window.%s", conc ? "conc" : "serial");
	q->q = dispatch_queue_create(q->label, conc ? DISPATCH_QUEUE_CONCURRENT : DISPATCH_QUEUE_SERIAL);
	t->cap = 16;
	t->items = calloc((size_t)t->cap, sizeof(vf_item_t));
	vf_stall_reset();
	wpusher_t w = { t, 0 };
	pthread_t th;
	pthread_create(&th, NULL, window_pusher, &w);
	vf_watch_begin("window:stall", 0);
	uint64_t t0 = vf_now_ns(CLOCK_MONOTONIC);
	while (!vf_stall_reached() && vf_now_ns(CLOCK_MONOTONIC) - t0 < 2000000000ull) sched_yield();
	int reached = vf_stall_reached();
	vf_item_t *a = submit_item(t, r, 0, VF_K_ASYNC, (int)vf_rnd_n(r, 2), 0, NULL, NULL);
	vf_item_t *b = submit_item(t, r, 0, bkind, (int)vf_rnd_n(r, 2), 0, NULL, NULL);
	vf_stall_release();
	pthread_join(th, NULL);
	vf_watch_end();
	vf_wait_counter(&t->done, atomic_load(&t->expected), "window:quiescence");
	if (reached) vf_count("window_stall_reached", 1);
	vf_count("items", 3);
	vf_ivstats_t st = { 0, 0, 0 };
	check_trial(t, &st);
	if (vf_opts.verbose) for (int i = 0; i < 3; i++) fprintf(stderr, "item %u kind %s call %llu ret %llu start %llu end %llu tid %d (main %d)\n", t->items[i].id, vf_kind_names[t->items[i].kind],
			(unsigned long long)t->items[i].call, (unsigned long long)t->items[i].ret, (unsigned long long)t->items[i].start, (unsigned long long)t->items[i].end, t->items[i].tid_start, vf_gettid());
	vf_emit("trial", "\"n\":1,\"sig\":\"w%d-%d\",\"nontrivial\":%s,\"sample\":{\"trial\":%d,\"shape\":\"window\",\"queue\":\"%s\",\"B\":\"%s\",\"stall_reached\":%d,\"A_body\":[%llu,%llu],\"B_body\":[%llu,%llu]}",
			variant, reached, reached ? "true" : "false", idx, conc ? "concurrent" : "serial", vf_kind_names[bkind], reached,
			(unsigned long long)a->start, (unsigned long long)a->end, (unsigned long long)b->start, (unsigned long long)b->end);
	teardown(t);
	free(t->items);
	free(t);
}

/* ----------------------------------------------------------- window3 mode
 * Three-party directed schedule (two failpoints through hook H1) for the FIFO rule:
 *   W  a worker that has just run the last queued item is stalled inside the drain's
 *      unlock, after it read a state without the DIRTY bit and before its compare-and-swap;
 *   P  a first pusher is stalled right after exchanging the tail of the (now empty) queue;
 *   main pushes A asynchronously (the queue is not empty, the state still carries the max
 *      QoS of the ending drain streak: no wake-up), lets W unlock (state looks idle), and
 *      then calls a synchronous barrier-class API with B from the same thread.
 * C02/C04: A (submitted earlier by the same thread, submission returned) finishes before
 * B starts. */
static void window3_arm_body(void *ctx)
{
	(void)ctx;
	vf_stall2_arm("_dispatch_queue_drain_try_unlock", 3, 0, 60ull * 1000 * 1000);
}
static void run_window3_trial(int idx)
{
	trial_t *t = calloc(1, sizeof(*t));
	t->idx = idx;
	vf_rng_seed(&t->rng, vf_opts.seed, (uint64_t)idx * 32452843 + 19);
	vf_rng_t *r = &t->rng;
	t->salt = vf_rnd(r) | 1;
	t->shape = SH_MIXED;
	vf_perturb_off();
	snprintf(t->prof.desc, sizeof(t->prof.desc), "stall(drainer before unlock CAS) + stall(first pusher after tail exchange)");
	static const int bk[] = { VF_K_SYNC, VF_K_BARRIER_SYNC, VF_K_ASYNC_AND_WAIT, VF_K_BARRIER_ASYNC_AND_WAIT };
	int conc = (idx / 4) & 1;
	int bkind = bk[idx % 4];
	if (conc && bkind == VF_K_SYNC) bkind = VF_K_BARRIER_SYNC;
	if (conc && bkind == VF_K_ASYNC_AND_WAIT) bkind = VF_K_BARRIER_ASYNC_AND_WAIT;
	t->nq = 1;
	hq_queue_t *q = &t->qs[0];
	q->kind = conc ? VF_Q_CONCURRENT : VF_Q_SERIAL;
	q->target = -1; q->tree = 0; q->domain = conc ? 0 : 1;
	q->chain_hash = vf_hash64(VF_HASH_INIT ^ t->salt, 0);
	q->rw_check = ~(uint64_t)0;
	snprintf(q->label, sizeof(q->label), "vf.window3.%s", conc ? "conc" : "serial");
	q->q = dispatch_queue_create(q->label, conc ? DISPATCH_QUEUE_CONCURRENT : DISPATCH_QUEUE_SERIAL);
	t->cap = 16;
	t->items = calloc((size_t)t->cap, sizeof(vf_item_t));
	vf_stall_reset();
	vf_watch_begin("window3", 0);
	/* X0: the drainer arms its own failpoint from inside the item (barrier item on a concurrent queue
	 * so that the queue is drained, not redirected) */
	if (conc) dispatch_barrier_async_f(q->q, NULL, window3_arm_body); else dispatch_async_f(q->q, NULL, window3_arm_body);
	uint64_t t0 = vf_now_ns(CLOCK_MONOTONIC);
	while (!vf_stall2_reached() && vf_now_ns(CLOCK_MONOTONIC) - t0 < 1000000000ull) sched_yield();
	int reached_w = vf_stall2_reached();
	wpusher_t w = { t, 0 };
	pthread_t th;
	pthread_create(&th, NULL, window_pusher, &w);
	t0 = vf_now_ns(CLOCK_MONOTONIC);
	while (!vf_stall_reached() && vf_now_ns(CLOCK_MONOTONIC) - t0 < 1000000000ull) sched_yield();
	int reached_p = vf_stall_reached();
	vf_item_t *a = submit_item(t, r, 0, VF_K_ASYNC, 1, 0, NULL, NULL);
	vf_stall2_release();
	{ struct timespec ts = { 0, 2000000 }; nanosleep(&ts, NULL); }   /* let the drainer finish its unlock */
	vf_item_t *b = submit_item(t, r, 0, bkind, (int)vf_rnd_n(r, 2), 0, NULL, NULL);
	vf_stall_release();
	pthread_join(th, NULL);
	vf_watch_end();
	vf_wait_counter(&t->done, atomic_load(&t->expected), "window3:quiescence");
	if (reached_w && reached_p) vf_count("window3_schedule_reached", 1);
	vf_count("items", 3);
	vf_ivstats_t st = { 0, 0, 0 };
	check_trial(t, &st);
	vf_emit("trial", "\"n\":1,\"sig\":\"w3-%d-%d-%d\",\"nontrivial\":%s,\"sample\":{\"trial\":%d,\"shape\":\"window3\",\"queue\":\"%s\",\"B\":\"%s\",\"drainer_stalled\":%d,\"pusher_stalled\":%d,\"A_body\":[%llu,%llu],\"B_body\":[%llu,%llu]}",
			idx % 8, reached_w, reached_p, (reached_w && reached_p) ? "true" : "false", idx, conc ? "concurrent" : "serial", vf_kind_names[bkind], reached_w, reached_p,
			(unsigned long long)a->start, (unsigned long long)a->end, (unsigned long long)b->start, (unsigned long long)b->end);
	teardown(t);
	free(t->items);
	free(t);
}

int main(int argc, char **argv)
{
	vf_init(argc, argv, "h_queue");
	const char *mode = vf_opts.mode;
	for (int i = 0; i < vf_opts.trials; i++) {
		int idx = vf_opts.first_trial + i;
		if (!strcmp(mode, "gate")) run_gate_trial(idx);
		else if (!strcmp(mode, "starve")) run_starve_trial(idx);
		else if (!strcmp(mode, "window")) run_window_trial(idx);
		else if (!strcmp(mode, "window3")) run_window3_trial(idx);
		else run_std_trial(idx);
	}
	return vf_finish();
}
