/*
 * h_relay.c — C01: an item that another, already running item depends on must start.
 *
 * Pairs of items on two different queues: A (on q1) blocks on a semaphore that only B (on q2,
 * submitted a few microseconds later) signals. A occupies a worker thread; B needs another one, so
 * every push onto a root queue must end in a thread request even when it races with a worker that is
 * just taking the previous (only) item off that root queue. Nothing in this workload sleeps
 * legitimately, so the watchdog uses a short run of idle samples (2 s instead of 10 s): a stranded B
 * that the library repairs by itself when an idle worker times out after 5 s, or when the pool
 * monitor re-pokes after 1 s, is a defect that the ordinary stuck rule (and the other shapes, whose
 * items do not depend on each other across queues at this grain) cannot see.
 *
 * Oracle: every A and every B runs exactly once; the pair completes (stuck witness otherwise:
 * no logical progress, every thread asleep, library idle). The largest delay between submitting B and
 * B's start is recorded, not judged.
 */
#include "vf_common.h"
#include <dispatch/dispatch.h>
#include <dispatch/private.h>
#include <sched.h>

enum { QK_SERIAL, QK_SERIAL_OVER_SERIAL, QK_CONCURRENT, QK_WORKLOOP, QK_GLOBAL, QK_GLOBAL_OVERCOMMIT, QK_N };
static const char *const qk_names[] = { "serial", "serial-over-serial", "concurrent", "workloop", "global", "global-overcommit" };

typedef struct rclient {
	int id, k1, k2;
	dispatch_queue_t q1, q2;
	dispatch_semaphore_t sem;
	_Atomic uint64_t a_runs, b_runs, a_done;
	uint64_t b_submit_ns; _Atomic uint64_t max_lat_ns;
	uint64_t pairs;
	vf_rng_t rng;
	pthread_t th;
} rclient_t;

static dispatch_queue_t make_q(int k, const char *label)
{
	switch (k) {
	case QK_SERIAL: return dispatch_queue_create(label, DISPATCH_QUEUE_SERIAL);
	case QK_SERIAL_OVER_SERIAL: { dispatch_queue_t b = dispatch_queue_create("vf.relay.base", DISPATCH_QUEUE_SERIAL); dispatch_queue_t q = dispatch_queue_create_with_target(label, DISPATCH_QUEUE_SERIAL, b); dispatch_release(b); return q; }
	case QK_CONCURRENT: return dispatch_queue_create(label, DISPATCH_QUEUE_CONCURRENT);
	case QK_WORKLOOP: return (dispatch_queue_t)dispatch_workloop_create(label);
	case QK_GLOBAL: { dispatch_queue_t g = dispatch_get_global_queue(DISPATCH_QUEUE_PRIORITY_DEFAULT, 0); dispatch_retain(g); return g; }
	default: { dispatch_queue_t g = dispatch_get_global_queue(DISPATCH_QUEUE_PRIORITY_DEFAULT, DISPATCH_QUEUE_OVERCOMMIT); dispatch_retain(g); return g; }
	}
}

static void item_a(void *ctx)
{
	rclient_t *c = ctx;
	atomic_fetch_add(&c->a_runs, 1);
	dispatch_semaphore_wait(c->sem, DISPATCH_TIME_FOREVER);
	vf_progress();
	atomic_fetch_add_explicit(&c->a_done, 1, memory_order_release);
}
static void item_b(void *ctx)
{
	rclient_t *c = ctx;
	uint64_t lat = vf_now_ns(CLOCK_MONOTONIC) - c->b_submit_ns;
	if (lat > atomic_load_explicit(&c->max_lat_ns, memory_order_relaxed)) atomic_store_explicit(&c->max_lat_ns, lat, memory_order_relaxed);
	atomic_fetch_add(&c->b_runs, 1);
	vf_progress();
	dispatch_semaphore_signal(c->sem);
}

static void *client_main(void *arg)
{
	rclient_t *c = arg;
	for (uint64_t i = 0; i < c->pairs; i++) {
		int f = (int)vf_rnd_n(&c->rng, 2);
		if (f) dispatch_async_f(c->q1, c, item_a); else dispatch_async(c->q1, ^{ item_a(c); });
		/* sweep the distance between the two pushes over the window in which the worker takes A's queue off the root queue */
		uint32_t d = vf_rnd_n(&c->rng, 4) == 0 ? 0 : vf_rnd_n(&c->rng, 30000);
		if (d) vf_spin_ns(d);
		c->b_submit_ns = vf_now_ns(CLOCK_MONOTONIC);
		if (f) dispatch_async_f(c->q2, c, item_b); else dispatch_async(c->q2, ^{ item_b(c); });
		unsigned spins = 0;
		while (atomic_load_explicit(&c->a_done, memory_order_acquire) <= i) {
			if (++spins < 200) sched_yield(); else { struct timespec ts = { 0, 100000 }; nanosleep(&ts, NULL); }
		}
	}
	return NULL;
}

static void run_trial(int idx)
{
	vf_rng_t r;
	vf_rng_seed(&r, vf_opts.seed, (uint64_t)idx * 4099 + 29);
	vf_profile_t prof;
	vf_perturb_draw(&r, &prof);
	int nclients = (int)vf_rnd_range(&r, 1, 4);
	uint64_t pairs = (uint64_t)((prof.kind == VF_P_OFF ? 6000 : 1500) * (long)vf_opts.scale / 100);
	rclient_t cl[4];
	memset(cl, 0, sizeof(cl));
	for (int i = 0; i < nclients; i++) {
		rclient_t *c = &cl[i];
		c->id = i; c->pairs = pairs;
		c->k1 = (int)vf_rnd_n(&r, QK_WORKLOOP + 1);         /* A's queue is one the client owns */
		c->k2 = (int)vf_rnd_n(&r, QK_N);
		c->q1 = make_q(c->k1, "vf.relay.q1"); c->q2 = make_q(c->k2, "vf.relay.q2");
		c->sem = dispatch_semaphore_create(0);
		vf_rng_seed(&c->rng, vf_rnd(&r), 5 + (uint64_t)i);
	}
	vf_watch_begin_n("relay:dependent-item-starts", 0, 4);
	for (int i = 0; i < nclients; i++) pthread_create(&cl[i].th, NULL, client_main, &cl[i]);
	for (int i = 0; i < nclients; i++) pthread_join(cl[i].th, NULL);
	vf_watch_end();
	vf_perturb_off();
	uint64_t maxlat = 0, total = 0;
	for (int i = 0; i < nclients; i++) {
		rclient_t *c = &cl[i];
		if (atomic_load(&c->a_runs) != pairs || atomic_load(&c->b_runs) != pairs) vf_violation("C01:relay:run-count", "%llu pairs submitted, waiting item ran %llu times, signalling item %llu times (%s -> %s)", (unsigned long long)pairs, (unsigned long long)atomic_load(&c->a_runs), (unsigned long long)atomic_load(&c->b_runs), qk_names[c->k1], qk_names[c->k2]);
		if (atomic_load(&c->max_lat_ns) > maxlat) maxlat = atomic_load(&c->max_lat_ns);
		total += pairs;
		/* the queues are idle: their last items returned */
		dispatch_release(c->q1); dispatch_release(c->q2);
		dispatch_release(c->sem);
	}
	vf_count("relay_pairs", total);
	vf_count("items", 2 * total);
	if (maxlat > 500000000ull) vf_count("relay_pairs_with_dependent_item_delayed_over_500ms", 1);
	char sig[96]; int off = 0;
	for (int i = 0; i < nclients; i++) off += snprintf(sig + off, sizeof(sig) - (size_t)off, "%d%d", cl[i].k1, cl[i].k2);
	vf_emit("trial", "\"n\":1,\"sig\":\"relay-%d-%s-%d\",\"nontrivial\":true,\"sample\":{\"trial\":%d,\"clients\":%d,\"pairs_per_client\":%llu,\"first_client\":\"%s -> %s\",\"max_start_delay_of_dependent_item_us\":%llu,\"perturb\":\"%s\"}",
			nclients, sig, prof.kind, idx, nclients, (unsigned long long)pairs, qk_names[cl[0].k1], qk_names[cl[0].k2], (unsigned long long)(maxlat / 1000), prof.desc);
}

int main(int argc, char **argv)
{
	vf_init(argc, argv, "h_relay");
	for (int i = 0; i < vf_opts.trials; i++) run_trial(vf_opts.first_trial + i);
	return vf_finish();
}
