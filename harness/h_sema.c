/*
 * h_sema.c — C08: dispatch semaphores conserve permits.
 *
 * Oracle over call/return stamps of every wait and signal:
 *   (1) at every return stamp r of a successful wait:
 *         #successful waits returned <= r   <=   v + #signals called before r
 *   (2) a wait returns non-zero only with now >= deadline on the deadline's clock
 *       (DISPATCH_TIME_NOW polls may fail at once)
 *   (3) after all calls finished, exactly v + signals - successes permits can be taken
 *   (4) forever-waiters are released once enough signals arrive (watchdog)
 */
#include "vf_common.h"
#include "vf_time.h"
#include <dispatch/dispatch.h>
#include <dispatch/private.h>
#include <sched.h>

enum { W_FOREVER, W_TIMED, W_POLL };
typedef struct { uint64_t call, ret; uint8_t kind, ok, clk; uint64_t deadline, now_after; } wop_t;
typedef struct { uint64_t call, ret; } sop_t;

typedef struct {
	dispatch_semaphore_t s;
	long v;
	int nw, ns, wops, sops;
	int pace_ns, tmo_lo_ns, tmo_hi_ns;
	wop_t *w;            /* nw * wops */
	sop_t *sg;           /* ns * sops + topup */
	_Atomic int nsig;    /* next free signal record */
	int sigcap;
	_Atomic int in_forever;
	_Atomic int waiters_done;
	_Atomic uint64_t waits_returned;
	uint64_t salt;
	pthread_barrier_t bar;
} strial_t;

typedef struct { strial_t *t; int id; pthread_t th; vf_rng_t rng; } sthr_t;

static void do_signal(strial_t *t)
{
	int i = atomic_fetch_add(&t->nsig, 1);
	if (i >= t->sigcap) vf_fail("signal record overflow");
	t->sg[i].call = vf_stamp();
	dispatch_semaphore_signal(t->s);
	t->sg[i].ret = vf_stamp();
	vf_progress();
}

static void *waiter_main(void *arg)
{
	sthr_t *c = arg;
	strial_t *t = c->t;
	pthread_barrier_wait(&t->bar);
	for (int i = 0; i < t->wops; i++) {
		wop_t *w = &t->w[c->id * t->wops + i];
		uint32_t k = vf_rnd_n(&c->rng, 100);
		w->kind = k < 20 ? W_FOREVER : k < 85 ? W_TIMED : W_POLL;
		dispatch_time_t when;
		if (w->kind == W_FOREVER) when = DISPATCH_TIME_FOREVER;
		else if (w->kind == W_POLL) when = DISPATCH_TIME_NOW;
		else {
			int clk = vf_rnd_n(&c->rng, 3) == 0 ? VF_CLK_WALL : VF_CLK_UPTIME;
			when = vf_make_deadline(clk, (int64_t)vf_rnd_range(&c->rng, (uint32_t)t->tmo_lo_ns, (uint32_t)t->tmo_hi_ns), (int)vf_rnd_n(&c->rng, 2));
			vf_deadline_t d = vf_decode_time(when);
			w->clk = (uint8_t)d.kind; w->deadline = d.value;
		}
		if (w->kind == W_FOREVER) atomic_fetch_add(&t->in_forever, 1);
		w->call = vf_stamp();
		intptr_t r = dispatch_semaphore_wait(t->s, when);
		if (w->kind == W_TIMED) w->now_after = vf_now_ns(w->clk == VF_CLK_WALL ? CLOCK_REALTIME : CLOCK_MONOTONIC);
		w->ret = vf_stamp();
		if (w->kind == W_FOREVER) atomic_fetch_sub(&t->in_forever, 1);
		w->ok = (r == 0);
		atomic_fetch_add_explicit(&t->waits_returned, 1, memory_order_relaxed);
		vf_progress();
		if (vf_rnd_n(&c->rng, 8) == 0) sched_yield();
	}
	atomic_fetch_add(&t->waiters_done, 1);
	return NULL;
}

static void *signaller_main(void *arg)
{
	sthr_t *c = arg;
	strial_t *t = c->t;
	pthread_barrier_wait(&t->bar);
	for (int i = 0; i < t->sops; i++) {
		do_signal(t);
		uint32_t p = vf_rnd_n(&c->rng, (uint32_t)t->pace_ns * 2 + 1);
		if (p > 2000) vf_spin_ns(p); else if (vf_rnd_n(&c->rng, 4) == 0) sched_yield();
	}
	return NULL;
}

static int cmp_u64(const void *a, const void *b) { uint64_t x = *(const uint64_t *)a, y = *(const uint64_t *)b; return x < y ? -1 : x > y; }

static void run_trial(int idx)
{
	strial_t *t = calloc(1, sizeof(*t));
	vf_rng_t r;
	vf_rng_seed(&r, vf_opts.seed, (uint64_t)idx * 7243 + 31);
	t->salt = vf_rnd(&r);
	static const long vs[] = { 0, 0, 1, 3 };
	t->v = vs[vf_rnd_n(&r, 4)];
	t->nw = (int)vf_rnd_range(&r, 1, 8);
	t->ns = (int)vf_rnd_range(&r, 1, 4);
	vf_profile_t prof;
	vf_perturb_draw(&r, &prof);
	int base = prof.kind == VF_P_OFF ? 3000 : 800;
	t->wops = (int)((long)base * vf_opts.scale / 100) + 1;
	t->sops = (int)((long)t->wops * t->nw / t->ns * (int)vf_rnd_range(&r, 30, 110) / 100) + 1;
	/* timeouts and signal pacing at the same scale so that expiry and signal collide */
	t->pace_ns = (int)vf_rnd_range(&r, 0, 60000);
	t->tmo_lo_ns = 20000; t->tmo_hi_ns = (int)vf_rnd_range(&r, 40000, 500000);
	t->w = calloc((size_t)t->nw * (size_t)t->wops, sizeof(wop_t));
	t->sigcap = t->ns * t->sops + t->nw * t->wops + 64;
	t->sg = calloc((size_t)t->sigcap, sizeof(sop_t));
	t->s = dispatch_semaphore_create(t->v);
	pthread_barrier_init(&t->bar, NULL, (unsigned)(t->nw + t->ns));
	sthr_t th[12];
	vf_watch_begin("sema:clients", 0);
	for (int i = 0; i < t->nw + t->ns; i++) {
		th[i].t = t; th[i].id = i < t->nw ? i : i - t->nw;
		vf_rng_seed(&th[i].rng, t->salt, (uint64_t)i);
		pthread_create(&th[i].th, NULL, i < t->nw ? waiter_main : signaller_main, &th[i]);
	}
	for (int i = t->nw; i < t->nw + t->ns; i++) pthread_join(th[i].th, NULL);
	vf_watch_end();
	/* top-up: release forever-waiters that the timed waiters starved of permits.
	 * Enough signals DO arrive; a waiter that stays blocked is a lost wake-up. */
	vf_watch_begin("sema:forever-waiters-must-be-released", 0);
	uint64_t topups = 0, last_returned = 0; long pause_ns = 200000;
	while (atomic_load(&t->waiters_done) < t->nw) {
		/* never more top-ups than records: by then more permits were issued than all wait operations of the trial can consume,
		 * so every remaining wait succeeds on a correct library; if waiters stay blocked all the same, the stuck rule reports it */
		if (atomic_load(&t->in_forever) > 0 && atomic_load(&t->nsig) < t->sigcap - 1) { do_signal(t); topups++; }
		/* paced by the waiters: while top-ups release nobody the pause doubles (up to 50 ms), so that a library that lost a
		 * wake-up falls idle and the stuck rule can see it instead of a steady stream of signals */
		uint64_t wr = atomic_load_explicit(&t->waits_returned, memory_order_relaxed);
		if (wr != last_returned) { last_returned = wr; pause_ns = 200000; } else if (pause_ns < 50000000) pause_ns *= 2;
		struct timespec ts = { 0, pause_ns };
		nanosleep(&ts, NULL);
	}
	for (int i = 0; i < t->nw; i++) pthread_join(th[i].th, NULL);
	vf_watch_end();
	vf_perturb_off();

	/* ---- oracle ---- */
	int nwops = t->nw * t->wops, nsig = atomic_load(&t->nsig);
	uint64_t *succ = malloc(sizeof(uint64_t) * (size_t)(nwops + 1)), *sigc = malloc(sizeof(uint64_t) * (size_t)(nsig + 1));
	int nsucc = 0;
	uint64_t timeouts = 0, early = 0, late_success = 0, polls_failed = 0;
	for (int i = 0; i < nwops; i++) {
		wop_t *w = &t->w[i];
		if (w->ok) {
			succ[nsucc++] = w->ret;
			if (w->kind == W_TIMED && w->now_after >= w->deadline) late_success++;
		} else {
			if (w->kind == W_FOREVER) {
				vf_violation("C08:forever-wait-returned-nonzero", "dispatch_semaphore_wait(DISPATCH_TIME_FOREVER) returned non-zero");
			} else if (w->kind == W_TIMED) {
				timeouts++;
				if (w->now_after < w->deadline) {
					if (early++ < 3) vf_violation(w->clk == VF_CLK_WALL ? "C08:timeout-before-deadline:wall" : "C08:timeout-before-deadline:uptime",
							"timed wait returned non-zero %llu ns before its deadline (%s clock: deadline %llu, now %llu)",
							(unsigned long long)(w->deadline - w->now_after), vf_clk_names[w->clk],
							(unsigned long long)w->deadline, (unsigned long long)w->now_after);
				}
			} else polls_failed++;
		}
	}
	for (int i = 0; i < nsig; i++) sigc[i] = t->sg[i].call;
	qsort(succ, (size_t)nsucc, sizeof(uint64_t), cmp_u64);
	qsort(sigc, (size_t)nsig, sizeof(uint64_t), cmp_u64);
	int js = 0, bad = 0;
	for (int k = 0; k < nsucc; k++) {
		while (js < nsig && sigc[js] < succ[k]) js++;
		if ((long)(k + 1) > t->v + (long)js) {
			if (bad++ < 3) vf_violation("C08:spurious-success", "at return stamp %llu there were %d successful waits but only v=%ld + %d signals begun (v=%ld, %d waiters, %d signallers, %s)",
					(unsigned long long)succ[k], k + 1, t->v, js, t->v, t->nw, t->ns, prof.desc);
		}
	}
	/* end state: drain */
	long drained = 0;
	while (dispatch_semaphore_wait(t->s, DISPATCH_TIME_NOW) == 0) { drained++; if (drained > (long)nsig + t->v + 8) break; }
	long expect = t->v + (long)nsig - (long)nsucc;
	if (drained != expect) {
		vf_violation(drained < expect ? "C08:lost-permit" : "C08:extra-permit",
				"after all calls finished %ld permits could be taken, expected v + signals - successes = %ld + %d - %d = %ld (%d timeouts, %llu of the successes returned after their deadline; %s)",
				drained, t->v, nsig, nsucc, expect, (int)timeouts, (unsigned long long)late_success, prof.desc);
	}
	/* restore the creation value before release (API requirement) */
	for (long i = 0; i < t->v; i++) dispatch_semaphore_signal(t->s);
	dispatch_release(t->s);
	vf_count("waits", (uint64_t)nwops);
	vf_count("signals", (uint64_t)nsig);
	vf_count("successes", (uint64_t)nsucc);
	vf_count("timeouts", timeouts);
	vf_count("success_after_deadline", late_success);
	vf_count("polls_failed", polls_failed);
	vf_count("topup_signals", topups);
	vf_count("items", (uint64_t)nwops + (uint64_t)nsig);
	vf_emit("trial", "\"n\":1,\"sig\":\"sem%ld-%d-%d-%d-%d-%d\",\"nontrivial\":%s,\"sample\":{\"trial\":%d,\"v\":%ld,\"waiters\":%d,\"signallers\":%d,\"waits\":%d,\"signals\":%d,\"successes\":%d,\"timeouts\":%llu,\"success_after_deadline\":%llu,\"drained\":%ld,\"perturb\":\"%s\"}",
			t->v, t->nw, t->ns, prof.kind, vf_log2_bucket(timeouts), vf_log2_bucket(late_success),
			(timeouts > 0 && nsucc > 0) ? "true" : "false", idx, t->v, t->nw, t->ns, nwops, nsig, nsucc,
			(unsigned long long)timeouts, (unsigned long long)late_success, drained, prof.desc);
	free(succ); free(sigc); free(t->w); free(t->sg);
	pthread_barrier_destroy(&t->bar);
	free(t);
}

/* ---- clockgap mode: directed preemption between two clock reads -------------------
 * A deadline on the uptime clock has to be converted to an absolute CLOCK_REALTIME time
 * for sem_timedwait(). The harness interposes clock_gettime() (the executable's
 * definition pre-empts libc's for the library) and, when armed by the waiting thread,
 * stalls right after a CLOCK_REALTIME reading — exactly what a preemption at that point
 * does. "Non-zero only after the full timeout" must still hold. */
#if !VF_ASAN && !VF_TSAN
#include <sys/syscall.h>
static __thread uint32_t tl_gap_ns;
static _Atomic uint64_t g_gaps_injected;
int clock_gettime(clockid_t clk, struct timespec *ts)
{
	int r = (int)syscall(SYS_clock_gettime, clk, ts);
	if (tl_gap_ns && clk == CLOCK_REALTIME) {
		uint32_t g = tl_gap_ns;
		tl_gap_ns = 0;
		atomic_fetch_add(&g_gaps_injected, 1);
		struct timespec sl = { 0, (long)g };
		syscall(SYS_nanosleep, &sl, NULL);
	}
	return r;
}
static void run_clockgap_trial(int idx)
{
	vf_rng_t r;
	vf_rng_seed(&r, vf_opts.seed, (uint64_t)idx * 1201 + 71);
	vf_perturb_off();
	dispatch_semaphore_t s = dispatch_semaphore_create(0);
	dispatch_group_t g = dispatch_group_create();
	dispatch_group_enter(g);
	uint64_t n = 0, early = 0;
	vf_watch_begin("sema:clockgap", 0);
	for (int i = 0; i < 40; i++) {
		uint32_t gap = vf_rnd_range(&r, 200000, 1500000);
		int64_t d = (int64_t)gap + (int64_t)vf_rnd_range(&r, 100000, 1000000);
		int clk = (i % 4 == 3) ? VF_CLK_WALL : VF_CLK_UPTIME;
		dispatch_time_t when = vf_make_deadline(clk, d, i & 1);
		vf_deadline_t dl = vf_decode_time(when);
		tl_gap_ns = gap;
		intptr_t rc = (i % 8 == 7) ? dispatch_group_wait(g, when) : dispatch_semaphore_wait(s, when);
		tl_gap_ns = 0;
		uint64_t now = vf_now_ns(dl.clk);
		n++;
		if (rc == 0) vf_violation("C08:spurious-success", "wait on an exhausted semaphore / non-empty group returned 0");
		else if (now < dl.value && early++ < 3) {
			vf_violation(clk == VF_CLK_WALL ? "C08:timeout-before-deadline:wall" : "C08:timeout-before-deadline:uptime",
					"timed wait returned non-zero %llu ns before its deadline on the %s clock when the calling thread was delayed %u ns right after a CLOCK_REALTIME reading inside the call (deadline %llu, now %llu)",
					(unsigned long long)(dl.value - now), vf_clk_names[dl.kind], gap, (unsigned long long)dl.value, (unsigned long long)now);
		}
		vf_progress();
	}
	vf_watch_end();
	dispatch_group_leave(g);
	dispatch_release(g); dispatch_release(s);
	vf_count("clockgap_waits", n);
	vf_count("clockgap_delays_injected", atomic_exchange(&g_gaps_injected, 0));
	vf_count("timeouts", n);
	vf_emit("trial", "\"n\":%llu,\"sig\":\"clockgap-%d\",\"nontrivial\":true,\"sample\":{\"trial\":%d,\"scenario\":\"delay after CLOCK_REALTIME reading inside a timed wait\",\"waits\":%llu}", (unsigned long long)n, idx % 4, idx, (unsigned long long)n);
}
#else
static void run_clockgap_trial(int idx) { (void)idx; }
#endif

int main(int argc, char **argv)
{
	vf_init(argc, argv, "h_sema");
	for (int i = 0; i < vf_opts.trials; i++) {
		if (!strcmp(vf_opts.mode, "clockgap")) run_clockgap_trial(vf_opts.first_trial + i);
		else run_trial(vf_opts.first_trial + i);
	}
	return vf_finish();
}
