/*
 * h_source.c — C15 (mode=data): custom data sources coalesce without loss, handler never
 * re-entered;  C16 (mode=cancel): cancelling a source stops its handler and runs the cancel
 * handler exactly once, on the target queue, after the last event handler invocation and
 * after the library stopped monitoring the descriptor.
 */
#include "vf_common.h"
#include <dispatch/dispatch.h>
#include <dispatch/private.h>
#include <sched.h>
#include <fcntl.h>
#include <dirent.h>
#include <signal.h>
#include <sys/socket.h>

static dispatch_queue_t make_target(vf_rng_t *r, int *serial)
{
	uint32_t k = vf_rnd_n(r, 8);
	*serial = 0;
	if (k >= 6) {
		/* an overcommit root queue as the direct target: k == 7 is what dispatch_source_create(..., NULL) picks by default
		 * (sources on it are re-driven by the unlock path alone, not by the post-handler re-check) */
		dispatch_queue_t g = dispatch_get_global_queue(k == 6 ? DISPATCH_QUEUE_PRIORITY_HIGH : DISPATCH_QUEUE_PRIORITY_DEFAULT, DISPATCH_QUEUE_OVERCOMMIT);
		dispatch_retain(g);
		return g;
	}
	if (k == 4) {
		/* a workloop serialises the handlers like a serial queue */
		*serial = 1;
		return (dispatch_queue_t)dispatch_workloop_create("vf.src.workloop");
	}
	if (k == 5) {
		/* serial queue over a serial queue (or over a workloop): the handler runs two levels down */
		*serial = 1;
		dispatch_queue_t base = vf_rnd_n(r, 2) ? dispatch_queue_create("vf.src.base", DISPATCH_QUEUE_SERIAL) : (dispatch_queue_t)dispatch_workloop_create("vf.src.base-workloop");
		dispatch_queue_t q = dispatch_queue_create_with_target("vf.src.serial-over-serial", DISPATCH_QUEUE_SERIAL, base);
		dispatch_release(base);
		return q;
	}
	if (k == 0) { *serial = 1; return dispatch_queue_create("vf.src.serial", DISPATCH_QUEUE_SERIAL); }
	if (k == 1) return dispatch_queue_create("vf.src.conc", DISPATCH_QUEUE_CONCURRENT);
	if (k == 2) { dispatch_queue_t g = dispatch_get_global_queue(vf_rnd_n(r, 2) ? DISPATCH_QUEUE_PRIORITY_DEFAULT : DISPATCH_QUEUE_PRIORITY_LOW, 0); dispatch_retain(g); return g; }
	*serial = 1;
	return dispatch_queue_create_with_target("vf.src.serial-over-conc", DISPATCH_QUEUE_SERIAL, dispatch_get_global_queue(0, 0));
}

/* =============================== C15: data sources =============================== */
enum { D_ADD, D_OR, D_REPLACE };
static const char *const d_names[] = { "DATA_ADD", "DATA_OR", "DATA_REPLACE" };

typedef struct dtrial {
	int type;
	dispatch_source_t ds;
	_Atomic uint32_t in_handler;
	_Atomic uint64_t merged_sum, delivered_sum, merged_union, delivered_union, invocations, merges;
	_Atomic uint64_t last_delivered;
	_Atomic uint64_t issued[17];       /* REPLACE: per-thread highest sequence number issued */
	_Atomic int cancel_ran, stalled;
	_Atomic uint64_t via_block[3]; _Atomic int registered; _Atomic uint64_t replacements;
	uint32_t body_ns; int self_merge_pct;
	uint64_t salt;
	int nmergers, per;
	_Atomic int round_go, round_done;
	pthread_barrier_t bar;
	_Atomic int stop_ctl;
	const char *desc;
} dtrial_t;

static void d_handler(void *ctx)
{
	dtrial_t *t = ctx;
	if (atomic_exchange(&t->in_handler, 1)) vf_violation("C15:handler-reentered:data-source", "%s source: event handler running on two threads at once (%s)", d_names[t->type], t->desc);
	uint64_t v = dispatch_source_get_data(t->ds);
	uint64_t n = atomic_fetch_add(&t->invocations, 1);
	if (v == 0) vf_violation("C15:handler-invoked-with-zero-data", "%s source: handler invocation %llu reports dispatch_source_get_data() == 0", d_names[t->type], (unsigned long long)n);
	vf_rng_t r; vf_rng_seed(&r, t->salt, n);
	if (t->type == D_ADD) {
		/* a merge made from inside the handler must be delivered by a later invocation */
		if (t->self_merge_pct && (int)vf_rnd_n(&r, 100) < t->self_merge_pct) {
			uint64_t m = vf_rnd_range(&r, 1, 1000);
			atomic_fetch_add(&t->merged_sum, m); atomic_fetch_add(&t->merges, 1);
			dispatch_source_merge_data(t->ds, m);
		}
		atomic_fetch_add(&t->delivered_sum, v);
	} else if (t->type == D_OR) {
		uint64_t mu = atomic_load(&t->merged_union);
		if (v & ~mu) vf_violation("C15:or:delivered-bits-never-merged", "DATA_OR source delivered mask %#llx containing bits that were never merged (merged so far %#llx)", (unsigned long long)v, (unsigned long long)mu);
		atomic_fetch_or(&t->delivered_union, v);
	} else {
		uint32_t th = (uint32_t)(v >> 32), seq = (uint32_t)v;
		if (th == 0 || th > 16 || seq == 0 || seq > atomic_load(&t->issued[th])) {
			vf_violation("C15:replace:delivered-value-never-merged", "DATA_REPLACE source delivered %#llx which no merge call has passed", (unsigned long long)v);
		}
		atomic_store(&t->last_delivered, v);
	}
	if (t->body_ns) vf_spin_ns(vf_rnd_n(&r, t->body_ns));
	if (vf_rnd_n(&r, 8) == 0) sched_yield();
	vf_progress();
	atomic_store(&t->in_handler, 0);
}
static void d_cancel(void *ctx) { dtrial_t *t = ctx; atomic_store(&t->cancel_ran, 1); vf_progress(); }

typedef struct { dtrial_t *t; int id; pthread_t th; vf_rng_t rng; } dthr_t;
static void *d_merger(void *arg)
{
	dthr_t *c = arg;
	dtrial_t *t = c->t;
	pthread_barrier_wait(&t->bar);
	if (t->type == D_OR) {
		/* rounds: one mask per merger and round, made of bits owned by this merger */
		for (int round = 1; round <= t->per; round++) {
			while (atomic_load(&t->round_go) < round) sched_yield();
			uint64_t own = 0;
			for (int b = c->id; b < 64; b += t->nmergers) if (vf_rnd_n(&c->rng, 2)) own |= 1ull << b;
			if (!own) own = 1ull << c->id;
			atomic_fetch_or(&t->merged_union, own); atomic_fetch_add(&t->merges, 1);
			dispatch_source_merge_data(t->ds, own);
			atomic_fetch_add(&t->round_done, 1);
		}
		return NULL;
	}
	for (int i = 0; i < t->per; i++) {
		if (t->type == D_ADD) {
			uint64_t m = vf_rnd_range(&c->rng, 1, 100000);
			atomic_fetch_add(&t->merged_sum, m); atomic_fetch_add(&t->merges, 1);
			dispatch_source_merge_data(t->ds, m);
		} else {
			uint64_t seq = atomic_fetch_add(&t->issued[c->id + 1], 1) + 1;
			atomic_fetch_add(&t->merges, 1);
			dispatch_source_merge_data(t->ds, ((uint64_t)(c->id + 1) << 32) | seq);
		}
		uint32_t p = vf_rnd_n(&c->rng, 8);
		if (p == 0) sched_yield(); else if (p == 1) vf_spin_ns(vf_rnd_n(&c->rng, 20000));
		vf_progress();
	}
	return NULL;
}
static void *d_controller(void *arg)
{
	dthr_t *c = arg;
	dtrial_t *t = c->t;
	pthread_barrier_wait(&t->bar);
	while (!atomic_load(&t->stop_ctl)) {
		if (atomic_load(&t->stalled)) { struct timespec zz = { 0, 20000000 }; nanosleep(&zz, NULL); continue; }
		int k = (int)vf_rnd_range(&c->rng, 1, 3);
		for (int i = 0; i < k; i++) dispatch_suspend(t->ds);
		uint32_t hold = vf_rnd_n(&c->rng, 300000);
		if (hold > 150000) { struct timespec ts = { 0, (long)hold }; nanosleep(&ts, NULL); } else vf_spin_ns(hold);
		for (int i = 0; i < k; i++) dispatch_resume(t->ds);
		struct timespec ts = { 0, (long)vf_rnd_range(&c->rng, 20000, 400000) };
		nanosleep(&ts, NULL);
	}
	return NULL;
}

/* replaces the event handler of the active source with an equivalent block, again and again:
 * "the new handler takes effect between two invocations"; every delivered value is still accounted
 * once, the two versions never run at the same time, and the replaced blocks are disposed of */
static void *d_replacer(void *arg)
{
	dtrial_t *t = arg;
	int v = 1;
	while (!atomic_load(&t->stop_ctl)) {
		if (atomic_load(&t->stalled)) { struct timespec zz = { 0, 20000000 }; nanosleep(&zz, NULL); continue; }
		int ver = v;
		uint64_t before = atomic_load(&t->via_block[ver]);
		dispatch_source_set_event_handler(t->ds, ^{ atomic_fetch_add(&t->via_block[ver], 1); d_handler(t); });
		atomic_fetch_add(&t->replacements, 1);
		v = 3 - v;
		/* pace on the library: the next replacement is issued once this version has run (the replacement is a barrier
		 * item of the source; issuing them faster than the source drains them would be a workload-made backlog that
		 * starves event delivery), or after 5 ms without events */
		uint64_t t0 = vf_now_ns(CLOCK_MONOTONIC);
		do { struct timespec ts = { 0, 150000 }; nanosleep(&ts, NULL); }
		while (atomic_load(&t->via_block[ver]) == before && vf_now_ns(CLOCK_MONOTONIC) - t0 < 5000000ull && !atomic_load(&t->stop_ctl));
	}
	return NULL;
}

static void run_data_trial(int idx)
{
	dtrial_t *t = calloc(1, sizeof(*t));
	vf_rng_t r;
	vf_rng_seed(&r, vf_opts.seed, (uint64_t)idx * 2003 + 73);
	t->salt = vf_rnd(&r) | 1;
	t->type = idx % 3;
	vf_profile_t prof;
	vf_perturb_draw(&r, &prof);
	t->desc = prof.desc;
	int serial;
	dispatch_queue_t tq = make_target(&r, &serial);
	static dispatch_source_type_t types[3];
	types[0] = DISPATCH_SOURCE_TYPE_DATA_ADD; types[1] = DISPATCH_SOURCE_TYPE_DATA_OR; types[2] = DISPATCH_SOURCE_TYPE_DATA_REPLACE;
	int default_target = tq == dispatch_get_global_queue(DISPATCH_QUEUE_PRIORITY_DEFAULT, DISPATCH_QUEUE_OVERCOMMIT) && vf_rnd_n(&r, 2);
	t->ds = dispatch_source_create(types[t->type], 0, 0, default_target ? NULL : tq);
	if (!t->ds) vf_fail("dispatch_source_create(%s) failed", d_names[t->type]);
	if (default_target) vf_count("data_sources_on_the_default_target_queue", 1);
	if (dispatch_queue_get_label(tq) && strstr(dispatch_queue_get_label(tq), "overcommit")) vf_count("data_sources_directly_on_an_overcommit_root_queue", 1);
	dispatch_set_context(t->ds, t);
	vf_trace_watch_reset(); vf_trace_watch((char *)t->ds + 56);   /* dq_state of the source */
	/* function and block forms; the block form captures the trial (Block_copy / dispose paths, ASan) */
	int hform = (int)vf_rnd_n(&r, 3);       /* 0 functions, 1 blocks, 2 blocks + the event handler is replaced while the source is in use */
	if (hform == 0) {
		dispatch_source_set_event_handler_f(t->ds, d_handler);
		dispatch_source_set_cancel_handler_f(t->ds, d_cancel);
	} else {
		dispatch_source_set_event_handler(t->ds, ^{ atomic_fetch_add(&t->via_block[0], 1); d_handler(t); });
		dispatch_source_set_cancel_handler(t->ds, ^{ d_cancel(t); });
		dispatch_source_set_registration_handler(t->ds, ^{ atomic_fetch_add(&t->registered, 1); });
	}
	t->nmergers = (int)vf_rnd_range(&r, 1, 16);
	t->body_ns = vf_rnd_n(&r, 3) * 40000;
	t->self_merge_pct = vf_rnd_n(&r, 2) ? 10 : 0;
	int base = prof.kind == VF_P_OFF ? 4000 : 1200;
	t->per = (int)((long)base * vf_opts.scale / 100) + 1;
	if (t->type == D_OR) t->per = t->per / 8 + 2;
	int with_ctl = (int)vf_rnd_n(&r, 2);
	/* merges issued before activation must be delivered after it */
	if (t->type == D_ADD && vf_rnd_n(&r, 2)) { atomic_fetch_add(&t->merged_sum, 7); atomic_fetch_add(&t->merges, 1); dispatch_source_merge_data(t->ds, 7); }
	dispatch_activate(t->ds);
	pthread_barrier_init(&t->bar, NULL, (unsigned)(t->nmergers + with_ctl + 1));
	dthr_t th[18];
	char ctx[64]; snprintf(ctx, sizeof(ctx), "source:%s", d_names[t->type]);
	vf_watch_begin(ctx, 0);
	for (int i = 0; i < t->nmergers + with_ctl; i++) {
		th[i].t = t; th[i].id = i; vf_rng_seed(&th[i].rng, t->salt, 500 + (uint64_t)i);
		pthread_create(&th[i].th, NULL, i < t->nmergers ? d_merger : d_controller, &th[i]);
	}
	pthread_barrier_wait(&t->bar);
	pthread_t rep_th; int have_rep = 0;
	if (hform == 2) { have_rep = !pthread_create(&rep_th, NULL, d_replacer, t); }
	uint64_t rounds_ok = 0;
	if (t->type == D_OR) {
		for (int round = 1; round <= t->per; round++) {
			atomic_store(&t->delivered_union, 0); atomic_store(&t->merged_union, 0);
			atomic_store(&t->round_done, 0);
			atomic_store(&t->round_go, round);
			while (atomic_load(&t->round_done) < t->nmergers) sched_yield();
			/* every mask merged in this round must be delivered (also when merged while suspended / in the handler) */
			uint64_t want = atomic_load(&t->merged_union);
			snprintf(ctx, sizeof(ctx), "source:DATA_OR:merged-mask-must-be-delivered");
			vf_watch_begin(ctx, 0);
			uint64_t w0 = vf_now_ns(CLOCK_MONOTONIC);
			while ((atomic_load(&t->delivered_union) & want) != want) {
				struct timespec w = { 0, 100000 }; nanosleep(&w, NULL);
				/* nothing delivered for 3 s: the helper threads stop touching the source so that a permanent stall becomes
				 * a stuck witness, and the recorded atomics on the source's state are dumped (VF_TRACE) */
				if (!atomic_load(&t->stalled) && vf_now_ns(CLOCK_MONOTONIC) - w0 > 3000000000ull) { atomic_store(&t->stalled, 1); struct timespec z = { 0, 100000000 }; nanosleep(&z, NULL); vf_trace_dump_watched(); }
			}
			/* let a running handler invocation finish before the round state is reset */
			while (atomic_load(&t->in_handler)) sched_yield();
			rounds_ok++;
			vf_progress();
		}
	}
	for (int i = 0; i < t->nmergers; i++) pthread_join(th[i].th, NULL);
	atomic_store(&t->stop_ctl, 1);
	if (with_ctl) pthread_join(th[t->nmergers].th, NULL);
	if (have_rep) pthread_join(rep_th, NULL);
	vf_watch_end();
	/* quiescence: everything merged must be delivered (nothing is cancelled yet) */
	if (t->type == D_ADD) {
		vf_watch_begin("source:DATA_ADD:merged-values-must-be-delivered", 0);
		for (;;) {
			uint64_t d = atomic_load(&t->delivered_sum), m = atomic_load(&t->merged_sum);
			if (d >= m && !atomic_load(&t->in_handler)) break;
			{ struct timespec w = { 0, 100000 }; nanosleep(&w, NULL); }
		}
		/* self-merges may still be in flight: wait until stable */
		for (int k = 0; k < 200; k++) { struct timespec ts = { 0, 50000 }; nanosleep(&ts, NULL); if (atomic_load(&t->delivered_sum) == atomic_load(&t->merged_sum) && !atomic_load(&t->in_handler)) break; }
		vf_watch_end();
		uint64_t d = atomic_load(&t->delivered_sum), m = atomic_load(&t->merged_sum);
		if (d != m) vf_violation(d > m ? "C15:add:delivered-more-than-merged" : "C15:add:merged-value-lost", "DATA_ADD source: handler invocations delivered a total of %llu, merges passed a total of %llu (%llu merges, %llu invocations, %s)",
				(unsigned long long)d, (unsigned long long)m, (unsigned long long)atomic_load(&t->merges), (unsigned long long)atomic_load(&t->invocations), prof.desc);
	} else if (t->type == D_REPLACE) {
		uint64_t fin = ((uint64_t)16 << 32) | (atomic_fetch_add(&t->issued[16], 1) + 1);
		if (t->nmergers == 16) fin = ((uint64_t)16 << 32) | atomic_load(&t->issued[16]);
		dispatch_source_merge_data(t->ds, fin);
		vf_watch_begin("source:DATA_REPLACE:final-merge-must-be-delivered", 0);
		while (atomic_load(&t->last_delivered) != fin) { struct timespec w = { 0, 100000 }; nanosleep(&w, NULL); }
		vf_watch_end();
		struct timespec ts = { 0, 300000 }; nanosleep(&ts, NULL);
		if (atomic_load(&t->last_delivered) != fin) vf_violation("C15:replace:final-merge-not-last", "DATA_REPLACE source: a value was delivered after the final merge %#llx", (unsigned long long)fin);
	}
	vf_perturb_off();
	dispatch_source_cancel(t->ds);
	vf_watch_begin("source:data:cancel-handler", 0);
	while (!atomic_load(&t->cancel_ran)) { struct timespec w = { 0, 100000 }; nanosleep(&w, NULL); }
	vf_watch_end();
	uint64_t inv = atomic_load(&t->invocations), mg = atomic_load(&t->merges);
	vf_count("data_merges", mg);
	vf_count("data_handler_invocations", inv);
	vf_count(d_names[t->type], 1);
	vf_count("or_rounds_checked", rounds_ok);
	vf_count("event_handler_replacements_while_active", atomic_load(&t->replacements));
	vf_count("block_form_handler_invocations", atomic_load(&t->via_block[0]) + atomic_load(&t->via_block[1]) + atomic_load(&t->via_block[2]));
	if (hform && atomic_load(&t->registered) != 1) vf_violation("C16:registration-handler-count", "registration handler (block form) ran %d times", atomic_load(&t->registered));
	vf_count("items", mg);
	vf_emit("trial", "\"n\":1,\"sig\":\"data-%s-%d-%d-%d-%d\",\"nontrivial\":%s,\"sample\":{\"trial\":%d,\"type\":\"%s\",\"mergers\":%d,\"merges\":%llu,\"handler_invocations\":%llu,\"suspend_resume_controller\":%d,\"self_merges\":%d,\"perturb\":\"%s\"}",
			d_names[t->type], serial, prof.kind, vf_log2_bucket(mg / (inv ? inv : 1)), with_ctl, (inv > 0 && inv < mg) ? "true" : "false",
			idx, d_names[t->type], t->nmergers, (unsigned long long)mg, (unsigned long long)inv, with_ctl, t->self_merge_pct, prof.desc);
	dispatch_release(t->ds);
	dispatch_release(tq);
	pthread_barrier_destroy(&t->bar);
	/* t is leaked on purpose (bounded): a late handler epilogue may still touch it */
}

/* =============================== C16: cancellation =============================== */
enum { K_TIMER, K_DATA, K_READ_PIPE, K_READ_SOCK, K_WRITE_PIPE, K_SIGNAL, K_N };
static const char *const k_names[] = { "timer", "data_add", "read(pipe)", "read(socketpair)", "write(pipe)", "signal" };
enum { P_BEFORE_ACTIVATE, P_AFTER_ACTIVATE, P_FROM_HANDLER, P_FROM_TARGET_ITEM, P_FOREIGN_RUNNING, P_SUSPENDED, P_DOUBLE, P_CANCEL_AND_WAIT, P_FROM_REGISTRATION_HANDLER, P_N };
static const char *const p_names[] = { "before-activate", "right-after-activate", "from-own-handler", "from-item-on-serial-target", "foreign-while-events-flow",
	"while-suspended", "double-cancel", "cancel_and_wait", "from-registration-handler" };

typedef struct ccase {
	int kind, point, serial;
	dispatch_source_t ds; dispatch_queue_t tq;
	int fd, peer;
	_Atomic uint32_t in_handler, hruns, cruns, cdone;
	_Atomic uint64_t last_hstart, last_hend, cstart;
	_Atomic uint64_t starts_after_cancel_ret, cancel_ret, cancel_call;
	_Atomic int cancel_origin;      /* 1 handler, 2 target item, 3 foreign */
	_Atomic int want_self_cancel, stop_feeder, hstarted_after_cwait;
	uint64_t cwait_ret;
	int sig;
	char key_q;
	const char *desc;
} ccase_t;

static char g_qkey;   /* queue-specific key: the value is the case pointer */
static int g_epfd = -1;

static int find_epoll_fd(void)
{
	DIR *d = opendir("/proc/self/fd");
	if (!d) return -1;
	struct dirent *de; int found = -1;
	while ((de = readdir(d))) {
		if (de->d_name[0] == '.') continue;
		char p[64], l[128];
		snprintf(p, sizeof(p), "/proc/self/fd/%s", de->d_name);
		ssize_t n = readlink(p, l, sizeof(l) - 1);
		if (n > 0) { l[n] = 0; if (strstr(l, "eventpoll")) { found = atoi(de->d_name); break; } }
	}
	closedir(d);
	return found;
}
static int epoll_has_fd(int fd)
{
	if (g_epfd < 0) g_epfd = find_epoll_fd();
	if (g_epfd < 0) return -1;
	char p[64], line[256];
	snprintf(p, sizeof(p), "/proc/self/fdinfo/%d", g_epfd);
	FILE *f = fopen(p, "r");
	if (!f) return -1;
	int has = 0;
	while (fgets(line, sizeof(line), f)) {
		int tfd;
		if (sscanf(line, "tfd: %d", &tfd) == 1 && tfd == fd) has = 1;
	}
	fclose(f);
	return has;
}

static void c_handler(void *ctx)
{
	ccase_t *c = ctx;
	uint64_t s = vf_stamp();
	if (atomic_exchange(&c->in_handler, 1)) vf_violation("C15:handler-reentered", "%s source: event handler running on two threads at once", k_names[c->kind]);
	atomic_fetch_add(&c->hruns, 1);
	atomic_store(&c->last_hstart, s);
	if (atomic_load(&c->cruns)) vf_violation("C16:event-handler-after-cancel-handler", "%s source: event handler started (stamp %llu) after the cancel handler ran (cancel at %s)", k_names[c->kind], (unsigned long long)s, p_names[c->point]);
	uint64_t cr = atomic_load(&c->cancel_ret);
	if (cr && s > cr) atomic_fetch_add(&c->starts_after_cancel_ret, 1);
	if (c->cwait_ret && s > c->cwait_ret) atomic_store(&c->hstarted_after_cwait, 1);
	(void)dispatch_source_get_data(c->ds);
	if (c->kind == K_READ_PIPE || c->kind == K_READ_SOCK) { char buf[64]; ssize_t n = read(c->fd, buf, sizeof(buf)); (void)n; }
	if (c->kind == K_WRITE_PIPE) { char b = 'x'; ssize_t n = write(c->fd, &b, 1); (void)n; }
	if (((uintptr_t)s & 7) == 0) vf_spin_ns(5000);
	if (atomic_load(&c->want_self_cancel) && !atomic_load(&c->cancel_call)) {
		atomic_store(&c->cancel_origin, 1);
		atomic_store(&c->cancel_call, vf_stamp());
		dispatch_source_cancel(c->ds);
		atomic_store(&c->cancel_ret, vf_stamp());
		if (!dispatch_source_testcancel(c->ds)) vf_violation("C16:testcancel-false-after-cancel", "dispatch_source_testcancel returned 0 after dispatch_source_cancel returned");
	}
	atomic_store(&c->last_hend, vf_stamp());
	vf_progress();
	atomic_store(&c->in_handler, 0);
}

static void c_cancel_handler(void *ctx)
{
	ccase_t *c = ctx;
	uint64_t s = vf_stamp();
	atomic_store(&c->cstart, s);
	if (atomic_fetch_add(&c->cruns, 1)) vf_violation("C16:cancel-handler-ran-twice", "%s source: cancellation handler invoked twice (cancel at %s)", k_names[c->kind], p_names[c->point]);
	if (atomic_load(&c->in_handler)) vf_violation("C16:cancel-handler-during-event-handler", "%s source: cancellation handler started while an event handler invocation was still running (cancel at %s)", k_names[c->kind], p_names[c->point]);
	if (atomic_load(&c->last_hend) < atomic_load(&c->last_hstart)) vf_violation("C16:cancel-handler-before-last-event-handler-returned", "%s source: cancellation handler started before the last event handler invocation returned", k_names[c->kind]);
	if (dispatch_get_specific(&g_qkey) != (void *)c) vf_violation("C16:cancel-handler-not-on-target-queue", "%s source: cancellation handler did not run on the source's target queue", k_names[c->kind]);
	if (c->fd >= 0 && c->kind != K_TIMER && c->kind != K_DATA && c->kind != K_SIGNAL) {
		int has = epoll_has_fd(c->fd);
		if (has == 1) {
			if (vf_opts.verbose) { char cmd[128]; snprintf(cmd, sizeof(cmd), "cat /proc/%d/fdinfo/%d >&2; ls -l /proc/%d/fd >&2", getpid(), g_epfd, getpid()); int rc = system(cmd); (void)rc; fprintf(stderr, "hruns=%u point=%s fd=%d peer=%d\n", atomic_load(&c->hruns), p_names[c->point], c->fd, c->peer); }
			vf_violation("C16:descriptor-still-monitored-in-cancel-handler", "%s source: fd %d is still registered with the library's epoll instance when the cancellation handler runs (cancel at %s)", k_names[c->kind], c->fd, p_names[c->point]);
		}
		if (has == 0) vf_count("epoll_unregistration_verified", 1);
		/* the descriptor may be closed now; its number is reused by the next cases */
		close(c->fd); c->fd = -1;
	}
	vf_progress();
	atomic_store(&c->cdone, 1);
}

/* the registration handler is one of the source's own handlers and runs on the target queue: a cancel
 * issued from it must prevent every event handler invocation, even when an event is already pending */
static void c_registration_handler(void *ctx)
{
	ccase_t *c = ctx;
	atomic_store(&c->cancel_origin, 1);
	atomic_store(&c->cancel_call, vf_stamp());
	dispatch_source_cancel(c->ds);
	atomic_store(&c->cancel_ret, vf_stamp());
	vf_progress();
}

static void target_item_cancel(void *ctx)
{
	ccase_t *c = ctx;
	atomic_store(&c->cancel_origin, 2);
	atomic_store(&c->cancel_call, vf_stamp());
	dispatch_source_cancel(c->ds);
	atomic_store(&c->cancel_ret, vf_stamp());
}

typedef struct { ccase_t *c; vf_rng_t rng; } feeder_t;
static void *feeder_main(void *arg)
{
	feeder_t *f = arg;
	ccase_t *c = f->c;
	while (!atomic_load(&c->stop_feeder)) {
		switch (c->kind) {
		case K_DATA: dispatch_source_merge_data(c->ds, 1); break;
		case K_READ_PIPE: case K_READ_SOCK: { char b = 'y'; ssize_t n = write(c->peer, &b, 1); (void)n; break; }
		case K_WRITE_PIPE: { char buf[256]; ssize_t n = read(c->peer, buf, sizeof(buf)); (void)n; break; }
		case K_SIGNAL: kill(getpid(), c->sig); break;
		default: break;
		}
		struct timespec ts = { 0, (long)vf_rnd_range(&f->rng, 5000, 120000) };
		nanosleep(&ts, NULL);
	}
	return NULL;
}
static void *second_canceller(void *arg) { ccase_t *c = arg; dispatch_source_cancel(c->ds); return NULL; }

static pthread_mutex_t g_sig_mtx = PTHREAD_MUTEX_INITIALIZER;

static void run_cancel_case(vf_rng_t *r, const char *desc, int forced_kind)
{
	ccase_t *c = calloc(1, sizeof(*c));
	c->desc = desc;
	c->kind = forced_kind >= 0 ? forced_kind : (int)vf_rnd_n(r, K_N);
	c->point = (int)vf_rnd_n(r, P_N);
	c->fd = c->peer = -1;
	c->tq = make_target(r, &c->serial);
	if (c->point == P_FROM_TARGET_ITEM && !c->serial) c->point = P_FOREIGN_RUNNING;
	int is_global = 0;
	{ const char *l = dispatch_queue_get_label(c->tq); is_global = l && !strncmp(l, "com.apple.root", 14); }
	if (is_global) {
		/* queue-specific data cannot be set on global queues: use a private concurrent queue instead */
		dispatch_release(c->tq);
		c->tq = dispatch_queue_create("vf.src.conc2", DISPATCH_QUEUE_CONCURRENT);
	}
	dispatch_queue_set_specific(c->tq, &g_qkey, c, NULL);
	int fds[2] = { -1, -1 };
	int sig_locked = 0;
	switch (c->kind) {
	case K_TIMER:
		c->ds = dispatch_source_create(DISPATCH_SOURCE_TYPE_TIMER, 0, 0, c->tq);
		dispatch_source_set_timer(c->ds, dispatch_time(DISPATCH_TIME_NOW, 0), vf_rnd_range(r, 30000, 300000), 0);
		break;
	case K_DATA:
		c->ds = dispatch_source_create(DISPATCH_SOURCE_TYPE_DATA_ADD, 0, 0, c->tq);
		break;
	case K_READ_PIPE:
		if (pipe2(fds, O_NONBLOCK | O_CLOEXEC)) vf_fail("pipe2");
		c->fd = fds[0]; c->peer = fds[1];
		c->ds = dispatch_source_create(DISPATCH_SOURCE_TYPE_READ, (uintptr_t)c->fd, 0, c->tq);
		break;
	case K_READ_SOCK:
		if (socketpair(AF_UNIX, SOCK_STREAM | SOCK_NONBLOCK | SOCK_CLOEXEC, 0, fds)) vf_fail("socketpair");
		c->fd = fds[0]; c->peer = fds[1];
		c->ds = dispatch_source_create(DISPATCH_SOURCE_TYPE_READ, (uintptr_t)c->fd, 0, c->tq);
		break;
	case K_WRITE_PIPE:
		if (pipe2(fds, O_NONBLOCK | O_CLOEXEC)) vf_fail("pipe2");
		c->fd = fds[1]; c->peer = fds[0];
		c->ds = dispatch_source_create(DISPATCH_SOURCE_TYPE_WRITE, (uintptr_t)c->fd, 0, c->tq);
		break;
	default:
		pthread_mutex_lock(&g_sig_mtx); sig_locked = 1;
		c->sig = SIGUSR2;
		c->ds = dispatch_source_create(DISPATCH_SOURCE_TYPE_SIGNAL, (uintptr_t)c->sig, 0, c->tq);
		break;
	}
	if (!c->ds) vf_fail("dispatch_source_create(%s) failed", k_names[c->kind]);
	dispatch_set_context(c->ds, c);
	int blocks = (int)vf_rnd_n(r, 2);     /* block-form handlers capture the case (Block_copy, disposal at cancellation) */
	if (blocks) {
		dispatch_source_set_event_handler(c->ds, ^{ c_handler(c); });
		if (c->point != P_CANCEL_AND_WAIT) dispatch_source_set_cancel_handler(c->ds, ^{ c_cancel_handler(c); });
		vf_count("cancel_cases_with_block_handlers", 1);
	} else {
		dispatch_source_set_event_handler_f(c->ds, c_handler);
		if (c->point != P_CANCEL_AND_WAIT) dispatch_source_set_cancel_handler_f(c->ds, c_cancel_handler);
	}
	feeder_t f; f.c = c; vf_rng_seed(&f.rng, vf_rnd(r), 1);
	pthread_t fth; int have_feeder = 0;
	char ctx[96]; snprintf(ctx, sizeof(ctx), "cancel:%s:%s", k_names[c->kind], p_names[c->point]);
	vf_watch_begin(ctx, 0);

	if (c->point == P_FROM_REGISTRATION_HANDLER) {
		if (blocks) dispatch_source_set_registration_handler(c->ds, ^{ c_registration_handler(c); });
		else dispatch_source_set_registration_handler_f(c->ds, c_registration_handler);
		/* make an event pending before the source is installed */
		switch (c->kind) {
		case K_DATA: dispatch_source_merge_data(c->ds, 1); break;
		case K_READ_PIPE: case K_READ_SOCK: { char b = 'z'; ssize_t n = write(c->peer, &b, 1); (void)n; break; }
		case K_SIGNAL: kill(getpid(), c->sig); break;
		default: break;   /* a pipe is writable at once; the timer starts now */
		}
		if (c->serial && vf_rnd_n(r, 2)) {
			/* keep the serial target queue busy while the source is activated so that the event is latched
			 * before the registration pass runs */
			dispatch_queue_t tq = c->tq;
			dispatch_async(tq, ^{ vf_spin_ns(300000); });
		}
		dispatch_activate(c->ds);
		if (c->kind == K_DATA) dispatch_source_merge_data(c->ds, 1);
		pthread_create(&fth, NULL, feeder_main, &f); have_feeder = 1;
		while (!atomic_load(&c->cancel_ret)) { struct timespec w = { 0, 50000 }; nanosleep(&w, NULL); }
	} else if (c->point == P_CANCEL_AND_WAIT && vf_rnd_n(r, 3) == 0) {
		/* dispatch_source_cancel_and_wait on a source that was never activated: it is activated as a side effect, the
		 * call returns, and the source ends in the same final state as on the other routes */
		atomic_store(&c->cancel_origin, 3);
		atomic_store(&c->cancel_call, vf_stamp());
		dispatch_source_cancel_and_wait(c->ds);
		c->cwait_ret = vf_stamp();
		vf_count("cancel_and_wait_on_inactive_source", 1);
	} else if (c->point == P_BEFORE_ACTIVATE) {
		atomic_store(&c->cancel_origin, 3);
		atomic_store(&c->cancel_call, vf_stamp());
		dispatch_source_cancel(c->ds);
		atomic_store(&c->cancel_ret, vf_stamp());
		dispatch_activate(c->ds);
	} else {
		if (c->point == P_FROM_HANDLER) atomic_store(&c->want_self_cancel, 0);
		dispatch_activate(c->ds);
		if (c->point != P_AFTER_ACTIVATE) {
			pthread_create(&fth, NULL, feeder_main, &f); have_feeder = 1;
			/* let some events through */
			uint64_t t0 = vf_now_ns(CLOCK_MONOTONIC);
			while (atomic_load(&c->hruns) < 3 && vf_now_ns(CLOCK_MONOTONIC) - t0 < 200000000ull) sched_yield();
		}
		switch (c->point) {
		case P_FROM_HANDLER:
			atomic_store(&c->want_self_cancel, 1);
			if (c->kind == K_DATA) dispatch_source_merge_data(c->ds, 1);
			while (!atomic_load(&c->cancel_ret)) { struct timespec w = { 0, 50000 }; nanosleep(&w, NULL); }
			break;
		case P_FROM_TARGET_ITEM:
			dispatch_async_f(c->tq, c, target_item_cancel);
			while (!atomic_load(&c->cancel_ret)) { struct timespec w = { 0, 50000 }; nanosleep(&w, NULL); }
			break;
		case P_SUSPENDED:
			dispatch_suspend(c->ds);
			atomic_store(&c->cancel_origin, 3);
			atomic_store(&c->cancel_call, vf_stamp());
			dispatch_source_cancel(c->ds);
			atomic_store(&c->cancel_ret, vf_stamp());
			vf_spin_ns(vf_rnd_n(r, 200000));
			/* (the cancel handler may legitimately run in an invocation that was already committed when the foreign suspend returned) */
			dispatch_resume(c->ds);
			break;
		case P_DOUBLE: {
			pthread_t th2;
			pthread_create(&th2, NULL, second_canceller, c);
			atomic_store(&c->cancel_origin, 3);
			atomic_store(&c->cancel_call, vf_stamp());
			dispatch_source_cancel(c->ds);
			pthread_join(th2, NULL);
			atomic_store(&c->cancel_ret, vf_stamp());
			dispatch_source_cancel(c->ds);
			break;
		}
		case P_CANCEL_AND_WAIT:
			atomic_store(&c->cancel_origin, 3);
			atomic_store(&c->cancel_call, vf_stamp());
			dispatch_source_cancel_and_wait(c->ds);
			c->cwait_ret = vf_stamp();
			if (atomic_load(&c->in_handler)) vf_violation("C16:cancel_and_wait-returned-while-handler-running", "%s source: dispatch_source_cancel_and_wait returned while an event handler invocation was running", k_names[c->kind]);
			if (atomic_load(&c->last_hend) < atomic_load(&c->last_hstart)) vf_violation("C16:cancel_and_wait-returned-before-handler-finished", "%s source: dispatch_source_cancel_and_wait returned before the handler invocation that had started finished", k_names[c->kind]);
			break;
		default:
			atomic_store(&c->cancel_origin, 3);
			atomic_store(&c->cancel_call, vf_stamp());
			dispatch_source_cancel(c->ds);
			atomic_store(&c->cancel_ret, vf_stamp());
			break;
		}
	}
	if (!dispatch_source_testcancel(c->ds)) vf_violation("C16:testcancel-false-after-cancel", "dispatch_source_testcancel returned 0 after dispatch_source_cancel returned (%s)", p_names[c->point]);
	/* keep events coming for a while: nothing may be delivered any more */
	if (c->point == P_CANCEL_AND_WAIT) {
		vf_spin_ns(vf_rnd_range(r, 50000, 400000));
		if (atomic_load(&c->hstarted_after_cwait)) vf_violation("C16:event-handler-after-cancel_and_wait", "%s source: an event handler invocation started after dispatch_source_cancel_and_wait returned", k_names[c->kind]);
		if (c->fd >= 0 && c->kind != K_TIMER && c->kind != K_DATA && c->kind != K_SIGNAL) {
			int has = epoll_has_fd(c->fd);
			if (has == 1) vf_violation("C16:descriptor-still-monitored-after-cancel_and_wait", "%s source: fd %d still registered with epoll after dispatch_source_cancel_and_wait returned", k_names[c->kind], c->fd);
			if (has == 0) vf_count("epoll_unregistration_verified", 1);
		}
	} else {
		while (!atomic_load(&c->cdone)) { struct timespec w = { 0, 50000 }; nanosleep(&w, NULL); }   /* the cancel handler must run (watchdog) */
		vf_spin_ns(vf_rnd_range(r, 20000, 200000));
	}
	atomic_store(&c->stop_feeder, 1);
	if (have_feeder) pthread_join(fth, NULL);
	vf_watch_end();
	/* verdicts over the stamps */
	uint64_t after = atomic_load(&c->starts_after_cancel_ret);
	int origin = atomic_load(&c->cancel_origin);
	if (c->point != P_CANCEL_AND_WAIT) {
		if ((origin == 1 || origin == 2) && after > 0) {
			vf_violation(origin == 1 ? "C16:event-handler-after-cancel-from-handler" : "C16:event-handler-after-cancel-from-serial-target-queue",
					"%s source: %llu event handler invocation(s) started after dispatch_source_cancel (called from %s) returned", k_names[c->kind], (unsigned long long)after,
					origin == 1 ? "the source's own handler" : "an item on its serial target queue");
		} else if (origin == 3 && after > 1) {
			vf_violation("C16:more-than-one-event-handler-after-foreign-cancel", "%s source: %llu event handler invocations started after dispatch_source_cancel returned on another thread (at most the one already committed may; cancel at %s)",
					k_names[c->kind], (unsigned long long)after, p_names[c->point]);
		}
		if (c->point == P_BEFORE_ACTIVATE && atomic_load(&c->hruns)) vf_violation("C16:event-handler-ran-for-source-cancelled-before-activation", "%s source cancelled before activation ran its event handler %u times", k_names[c->kind], atomic_load(&c->hruns));
		if (atomic_load(&c->cruns) != 1) vf_violation("C16:cancel-handler-count", "%s source: cancellation handler ran %u times", k_names[c->kind], atomic_load(&c->cruns));
		if (after == 1 && origin == 3) vf_count("foreign_cancel_one_committed_invocation", 1);
	}
	char cn[64]; snprintf(cn, sizeof(cn), "cancel_at_%s", p_names[c->point]); vf_count(cn, 1);
	snprintf(cn, sizeof(cn), "cancel_kind_%s", k_names[c->kind]); vf_count(cn, 1);
	vf_count("cancel_cases", 1);
	vf_count("items", 1);
	if (c->fd >= 0) close(c->fd);
	if (c->peer >= 0) close(c->peer);
	dispatch_release(c->ds);
	dispatch_release(c->tq);
	if (sig_locked) pthread_mutex_unlock(&g_sig_mtx);
	/* c is leaked on purpose (bounded) */
}

typedef struct { int idx, id; pthread_t th; const char *desc; int n; } cdrv_t;
static void *cancel_driver(void *arg)
{
	cdrv_t *d = arg;
	vf_rng_t r;
	vf_rng_seed(&r, vf_opts.seed, (uint64_t)d->idx * 1009 + (uint64_t)d->id * 17 + 79);
	for (int i = 0; i < d->n; i++) { run_cancel_case(&r, d->desc, (int)vf_opt_long("kind", -1)); vf_progress(); }
	return NULL;
}

static void run_cancel_trial(int idx)
{
	vf_rng_t r;
	vf_rng_seed(&r, vf_opts.seed, (uint64_t)idx * 3001 + 83);
	vf_profile_t prof;
	vf_perturb_draw(&r, &prof);
	int nd = (int)vf_rnd_range(&r, 1, 4);
	int n = (int)((long)(prof.kind == VF_P_OFF ? 120 : 50) * vf_opts.scale / 100) + 1;
	cdrv_t d[4];
	for (int i = 0; i < nd; i++) { d[i].idx = idx; d[i].id = i; d[i].desc = prof.desc; d[i].n = n; pthread_create(&d[i].th, NULL, cancel_driver, &d[i]); }
	for (int i = 0; i < nd; i++) pthread_join(d[i].th, NULL);
	vf_perturb_off();
	vf_emit("trial", "\"n\":%d,\"sig\":\"cancel-%d-%d-%d\",\"nontrivial\":true,\"sample\":{\"trial\":%d,\"drivers\":%d,\"cases\":%d,\"kinds\":\"timer,data,read(pipe),read(socketpair),write(pipe),signal\",\"points\":\"before-activate,after-activate,from-handler,from-target-item,foreign,suspended,double,cancel_and_wait\",\"perturb\":\"%s\"}",
			nd * n, nd, prof.kind, idx % 7, idx, nd, nd * n, prof.desc);
}

int main(int argc, char **argv)
{
	/* signal sources on Linux read a signalfd: the signal must be blocked in every thread
	 * (threads created later inherit the mask) and must not be ignored */
	sigset_t ss; sigemptyset(&ss); sigaddset(&ss, SIGUSR2);
	pthread_sigmask(SIG_BLOCK, &ss, NULL);
	vf_init(argc, argv, "h_source");
	for (int i = 0; i < vf_opts.trials; i++) {
		int idx = vf_opts.first_trial + i;
		if (!strcmp(vf_opts.mode, "cancel")) run_cancel_trial(idx);
		else run_data_trial(idx);
	}
	return vf_finish();
}
