/*
 * h_suspend.c — C06: inactive and suspended queues run nothing; resume restarts them.
 *
 * Suspension intervals are built from stamps: a = return stamp of the first of k
 * nested dispatch_suspend calls, b = call stamp of the k-th matching dispatch_resume.
 * During (a,b) the queue is definitely suspended (N suspends need exactly N resumes).
 *   scenario self    : an item of a SERIAL queue suspends it        -> no other item starts in (a,b)
 *   scenario barrier : a barrier item of a CONCURRENT queue suspends -> no item starts in (a,b)
 *   scenario foreign : foreign threads suspend a SERIAL queue        -> at most one start per maximal
 *                      definitely-suspended interval (the item the drainer had committed to)
 *   scenario conc    : foreign threads suspend a CONCURRENT queue    -> nothing asserted but liveness
 *   scenario inactive: initially inactive queue                      -> no start before the first
 *                      dispatch_activate call (and before pending resumes)
 * After the last resume / the activation everything pending runs, blocked
 * dispatch_sync callers included (watchdog).
 */
#include "vf_common.h"
#include <dispatch/dispatch.h>
#include <dispatch/private.h>
#include <sched.h>

enum { SC_SELF, SC_BARRIER, SC_FOREIGN, SC_CONC, SC_INACTIVE, SC_N };
static const char *const sc_names[] = { "self", "barrier", "foreign", "conc", "inactive" };

typedef struct { uint64_t a, b; int k; int self; } ival_t;
typedef struct sitem { uint64_t start, end; _Atomic uint32_t runs; uint8_t suspender, barrier, sync; struct strial *t; } sitem_t;

typedef struct strial {
	int sc;
	dispatch_queue_t q, other;
	sitem_t *items; int cap; _Atomic int next;
	ival_t *iv; int ivcap; _Atomic int niv;
	_Atomic uint64_t expected, done, resumes_pending, resumes_done;
	int nclients, ops, susp_pct, deep_pct;
	uint64_t salt;
	uint64_t activate_call;      /* inactive scenario */
	uint64_t pre_resume_call;    /* inactive scenario: call stamp of the last resume of pre-activation suspends */
	pthread_barrier_t bar;
	_Atomic int stop_suspenders;
} strial_t;

typedef struct { strial_t *t; ival_t *iv; uint32_t delay_ns; } ticket_t;

static void do_resumes(void *ctx)
{
	ticket_t *tk = ctx;
	strial_t *t = tk->t;
	if (tk->delay_ns) vf_spin_ns(tk->delay_ns);
	for (int i = 0; i < tk->iv->k; i++) {
		if (i == tk->iv->k - 1) tk->iv->b = vf_stamp();
		dispatch_resume(t->q);
	}
	vf_progress();
	atomic_fetch_add_explicit(&t->resumes_done, 1, memory_order_release);
	free(tk);
}
static void *resume_thread(void *ctx) { do_resumes(ctx); return NULL; }

static int pick_depth(strial_t *t, vf_rng_t *r)
{
	uint32_t c = vf_rnd_n(r, 100);
	if ((int)c < t->deep_pct) return (int)vf_rnd_range(r, 60, 300);   /* overflows the inline count into the side count */
	return c < 70 ? 1 : (int)vf_rnd_range(r, 2, 5);
}

static void sbody(void *ctx)
{
	sitem_t *it = ctx;
	strial_t *t = it->t;
	it->start = vf_stamp();
	if (atomic_fetch_add_explicit(&it->runs, 1, memory_order_relaxed)) vf_violation("C01:ran-twice", "item ran twice");
	vf_rng_t r;
	vf_rng_seed(&r, t->salt, (uint64_t)(it - t->items));
	if (vf_rnd_n(&r, 4) == 0) vf_spin_ns(vf_rnd_n(&r, 5000));
	if (it->suspender) {
		int i = atomic_fetch_add(&t->niv, 1);
		if (i < t->ivcap) {
			ival_t *iv = &t->iv[i];
			iv->k = pick_depth(t, &r); iv->self = 1;
			for (int k = 0; k < iv->k; k++) {
				dispatch_suspend(t->q);
				if (k == 0) iv->a = vf_stamp();
			}
			ticket_t *tk = malloc(sizeof(*tk));
			tk->t = t; tk->iv = iv; tk->delay_ns = vf_rnd_n(&r, 200000);
			atomic_fetch_add(&t->resumes_pending, 1);
			uint32_t how = vf_rnd_n(&r, 3);
			if (how == 0) { pthread_t th; pthread_create(&th, NULL, resume_thread, tk); pthread_detach(th); }
			else if (how == 1) dispatch_async_f(t->other, tk, do_resumes);
			else dispatch_after_f(dispatch_time(DISPATCH_TIME_NOW, (int64_t)vf_rnd_n(&r, 300000)), dispatch_get_global_queue(0, 0), tk, do_resumes);
		}
	}
	it->end = vf_stamp();
	vf_progress();
	atomic_fetch_add_explicit(&t->done, 1, memory_order_release);
}

typedef struct { strial_t *t; int id; pthread_t th; vf_rng_t rng; } scl_t;

static void *sclient(void *arg)
{
	scl_t *c = arg;
	strial_t *t = c->t;
	int conc = (t->sc == SC_BARRIER || t->sc == SC_CONC);
	pthread_barrier_wait(&t->bar);
	for (int i = 0; i < t->ops; i++) {
		int idx = atomic_fetch_add(&t->next, 1);
		if (idx >= t->cap) break;
		sitem_t *it = &t->items[idx];
		it->t = t;
		uint32_t k = vf_rnd_n(&c->rng, 100);
		int kind; /* 0 async 1 sync 2 barrier_async 3 barrier_sync 4 async_and_wait */
		kind = k < 55 ? 0 : k < 70 ? 1 : k < 82 ? 2 : k < 90 ? 3 : 4;
		if (t->sc == SC_INACTIVE && c->id != 0) kind = (kind == 2) ? 2 : 0; /* only client 0 blocks in sync calls */
		it->barrier = conc && (kind == 2 || kind == 3);
		it->sync = (kind == 1 || kind == 3 || kind == 4);
		if ((t->sc == SC_SELF || (t->sc == SC_BARRIER && it->barrier)) && (int)vf_rnd_n(&c->rng, 100) < t->susp_pct) it->suspender = 1;
		atomic_fetch_add(&t->expected, 1);
		switch (kind) {
		case 0: if (vf_rnd_n(&c->rng, 2)) dispatch_async_f(t->q, it, sbody); else dispatch_async(t->q, ^{ sbody(it); }); break;
		case 1: dispatch_sync_f(t->q, it, sbody); break;
		case 2: dispatch_barrier_async_f(t->q, it, sbody); break;
		case 3: dispatch_barrier_sync_f(t->q, it, sbody); break;
		default: dispatch_async_and_wait_f(t->q, it, sbody); break;
		}
		vf_progress();
		if (vf_rnd_n(&c->rng, 32) == 0) sched_yield();
	}
	return NULL;
}

static void *foreign_suspender(void *arg)
{
	scl_t *c = arg;
	strial_t *t = c->t;
	pthread_barrier_wait(&t->bar);
	while (!atomic_load(&t->stop_suspenders)) {
		int i = atomic_fetch_add(&t->niv, 1);
		if (i >= t->ivcap) break;
		ival_t *iv = &t->iv[i];
		iv->k = pick_depth(t, &c->rng);
		for (int k = 0; k < iv->k; k++) {
			dispatch_suspend(t->q);
			if (k == 0) iv->a = vf_stamp();
		}
		uint32_t hold = vf_rnd_n(&c->rng, 300000);
		if (hold > 100000) { struct timespec ts = { 0, (long)hold }; nanosleep(&ts, NULL); } else vf_spin_ns(hold);
		for (int k = 0; k < iv->k; k++) {
			if (k == iv->k - 1) iv->b = vf_stamp();
			dispatch_resume(t->q);
		}
		vf_progress();
		uint32_t gap = vf_rnd_n(&c->rng, 200000);
		if (gap > 100000) { struct timespec ts = { 0, (long)gap }; nanosleep(&ts, NULL); } else vf_spin_ns(gap);
	}
	return NULL;
}

static int u64cmp(const void *a, const void *b) { uint64_t x = *(const uint64_t *)a, y = *(const uint64_t *)b; return x < y ? -1 : x > y; }
static int ivcmp(const void *a, const void *b) { uint64_t x = ((const ival_t *)a)->a, y = ((const ival_t *)b)->a; return x < y ? -1 : x > y; }

static int count_between(uint64_t *starts, int n, uint64_t a, uint64_t b)
{
	int lo = 0, hi = n;
	while (lo < hi) { int m = (lo + hi) / 2; if (starts[m] <= a) lo = m + 1; else hi = m; }
	int first = lo;
	lo = first; hi = n;
	while (lo < hi) { int m = (lo + hi) / 2; if (starts[m] < b) lo = m + 1; else hi = m; }
	return lo - first;
}

static void run_trial(int idx)
{
	strial_t *t = calloc(1, sizeof(*t));
	vf_rng_t r;
	vf_rng_seed(&r, vf_opts.seed, (uint64_t)idx * 3571 + 47);
	t->salt = vf_rnd(&r) | 1;
	const char *mode = vf_opts.mode;
	t->sc = -1;
	for (int i = 0; i < SC_N; i++) if (!strcmp(mode, sc_names[i])) t->sc = i;
	if (t->sc < 0) t->sc = idx % SC_N;
	vf_profile_t prof;
	vf_perturb_draw(&r, &prof);
	int conc = (t->sc == SC_BARRIER || t->sc == SC_CONC || (t->sc == SC_INACTIVE && vf_rnd_n(&r, 2)));
	t->nclients = (int)vf_rnd_range(&r, 2, 6);
	t->ops = (int)((long)(prof.kind == VF_P_OFF ? 3000 : 900) * vf_opts.scale / 100) + 1;
	if (t->sc == SC_INACTIVE) t->ops = t->ops / 4 + 1;
	t->susp_pct = (int)vf_rnd_range(&r, 2, 10);
	t->deep_pct = (int)vf_rnd_range(&r, 1, 6);
	t->cap = t->nclients * t->ops;
	t->items = calloc((size_t)t->cap, sizeof(sitem_t));
	t->ivcap = t->cap + 4096;
	t->iv = calloc((size_t)t->ivcap, sizeof(ival_t));
	dispatch_queue_attr_t attr = conc ? DISPATCH_QUEUE_CONCURRENT : DISPATCH_QUEUE_SERIAL;
	dispatch_queue_t tq = NULL;
	if (vf_rnd_n(&r, 3) == 0) tq = dispatch_queue_create("vf.suspend.target", vf_rnd_n(&r, 2) ? DISPATCH_QUEUE_SERIAL : DISPATCH_QUEUE_CONCURRENT);
	t->other = dispatch_queue_create("vf.suspend.other", DISPATCH_QUEUE_SERIAL);
	int nsusp = 0;
	int pre_susp = 0;
	if (t->sc == SC_INACTIVE) {
		t->q = dispatch_queue_create("vf.suspend.inactive", dispatch_queue_attr_make_initially_inactive(attr));
		if (tq && vf_rnd_n(&r, 2)) dispatch_set_target_queue(t->q, tq);
		pre_susp = vf_rnd_n(&r, 3) == 0 ? (int)vf_rnd_range(&r, 1, 80) : 0;
		for (int k = 0; k < pre_susp; k++) dispatch_suspend(t->q);
	} else {
		t->q = dispatch_queue_create_with_target("vf.suspend.q", attr, tq);
		if (t->sc == SC_FOREIGN || t->sc == SC_CONC) nsusp = (int)vf_rnd_range(&r, 1, 3);
	}
	pthread_barrier_init(&t->bar, NULL, (unsigned)(t->nclients + nsusp));
	scl_t cl[10];
	char ctx[64];
	snprintf(ctx, sizeof(ctx), "suspend:%s", sc_names[t->sc]);
	vf_watch_begin(ctx, 0);
	for (int i = 0; i < t->nclients + nsusp; i++) {
		cl[i].t = t; cl[i].id = i; vf_rng_seed(&cl[i].rng, t->salt, 100 + (uint64_t)i);
		pthread_create(&cl[i].th, NULL, i < t->nclients ? sclient : foreign_suspender, &cl[i]);
	}
	if (t->sc == SC_INACTIVE) {
		/* let submissions pile up on the inactive queue, then activate (possibly from two threads) */
		struct timespec ts = { 0, (long)vf_rnd_range(&r, 200000, 3000000) };
		nanosleep(&ts, NULL);
		int order = (int)vf_rnd_n(&r, 3);
		if (pre_susp && order == 0) {
			/* resume everything first: still inactive, nothing may run */
			for (int k = 0; k < pre_susp; k++) dispatch_resume(t->q);
			pre_susp = 0;
			nanosleep(&ts, NULL);
		}
		t->activate_call = vf_stamp();
		dispatch_activate(t->q);
		dispatch_activate(t->q); /* idempotent */
		if (pre_susp) {
			nanosleep(&ts, NULL);
			for (int k = 0; k < pre_susp; k++) {
				if (k == pre_susp - 1) t->pre_resume_call = vf_stamp();
				dispatch_resume(t->q);
			}
		}
	}
	for (int i = 0; i < t->nclients; i++) pthread_join(cl[i].th, NULL);
	atomic_store(&t->stop_suspenders, 1);
	for (int i = t->nclients; i < t->nclients + nsusp; i++) pthread_join(cl[i].th, NULL);
	vf_watch_end();
	snprintf(ctx, sizeof(ctx), "suspend:%s:after-last-resume", sc_names[t->sc]);
	/* every interval is eventually resumed by its ticket; then everything pending must run */
	for (;;) {
		vf_wait_counter(&t->done, atomic_load(&t->expected), ctx);
		vf_wait_counter(&t->resumes_done, atomic_load(&t->resumes_pending), ctx);
		if (atomic_load(&t->done) == atomic_load(&t->expected) && atomic_load(&t->resumes_done) == atomic_load(&t->resumes_pending)) break;
	}
	vf_perturb_off();

	/* ---- oracle ---- */
	int n = atomic_load(&t->next); if (n > t->cap) n = t->cap;
	uint64_t *starts = malloc(sizeof(uint64_t) * (size_t)(n + 1));
	int ns = 0;
	for (int i = 0; i < n; i++) {
		sitem_t *it = &t->items[i];
		if (!it->t) continue;
		if (atomic_load(&it->runs) != 1) vf_violation("C06:pending-item-never-ran-after-resume", "item ran %u times", atomic_load(&it->runs));
		if (it->start) starts[ns++] = it->start;
	}
	qsort(starts, (size_t)ns, sizeof(uint64_t), u64cmp);
	int niv = atomic_load(&t->niv); if (niv > t->ivcap) niv = t->ivcap;
	uint64_t checked = 0, deep = 0, with_one = 0, maxdepth = 0;
	if (t->sc == SC_SELF || t->sc == SC_BARRIER) {
		for (int i = 0; i < niv; i++) {
			ival_t *iv = &t->iv[i];
			if (!iv->a || !iv->b) continue;
			checked++; if (iv->k > 32) deep++; if ((uint64_t)iv->k > maxdepth) maxdepth = (uint64_t)iv->k;
			int c = count_between(starts, ns, iv->a, iv->b);
			if (c > 0) {
				vf_violation(t->sc == SC_SELF ? "C06:item-started-while-suspended:self-suspend:serial" : "C06:item-started-while-suspended:barrier-suspend:concurrent",
						"%d item(s) started inside (%llu,%llu): the queue had been suspended %d time(s) from %s and the %d-th resume had not been called yet (%s)",
						c, (unsigned long long)iv->a, (unsigned long long)iv->b, iv->k, t->sc == SC_SELF ? "an item running on it" : "a barrier item running on it", iv->k, prof.desc);
			}
		}
	} else if (t->sc == SC_FOREIGN) {
		/* maximal definitely-suspended intervals = union of [a,b] */
		ival_t *s = malloc(sizeof(ival_t) * (size_t)(niv + 1));
		int m = 0;
		for (int i = 0; i < niv; i++) if (t->iv[i].a && t->iv[i].b && t->iv[i].b > t->iv[i].a) { s[m++] = t->iv[i]; if (t->iv[i].k > 32) deep++; if ((uint64_t)t->iv[i].k > maxdepth) maxdepth = (uint64_t)t->iv[i].k; }
		qsort(s, (size_t)m, sizeof(ival_t), ivcmp);
		int i = 0;
		while (i < m) {
			uint64_t a = s[i].a, b = s[i].b; int j = i + 1;
			while (j < m && s[j].a < b) { if (s[j].b > b) b = s[j].b; j++; }
			int c = count_between(starts, ns, a, b);
			checked++;
			if (c == 1) with_one++;
			if (c > 1) {
				vf_violation("C06:more-than-one-item-started-while-suspended:foreign-suspend:serial",
						"%d items started inside the definitely-suspended interval (%llu,%llu) of a serial queue suspended from other threads (at most the one already committed item may) (%s)",
						c, (unsigned long long)a, (unsigned long long)b, prof.desc);
			}
			i = j;
		}
		free(s);
	} else if (t->sc == SC_CONC) {
		for (int i = 0; i < niv; i++) if (t->iv[i].a && t->iv[i].b) { checked++; if (t->iv[i].k > 32) deep++; if ((uint64_t)t->iv[i].k > maxdepth) maxdepth = (uint64_t)t->iv[i].k; }
	} else {
		uint64_t gate = t->activate_call;
		const char *what = "the first dispatch_activate call";
		if (t->pre_resume_call) { gate = t->pre_resume_call; what = "the last resume of the suspensions taken before activation"; }
		checked = 1;
		if (ns && starts[0] < gate) {
			int c = count_between(starts, ns, 0, gate);
			vf_violation(t->pre_resume_call ? "C06:item-started-before-resume-of-inactive-queue" : "C06:item-started-before-activate",
					"%d item(s) of an initially inactive queue started (first at %llu) before %s (stamp %llu) (%s)", c, (unsigned long long)starts[0], what, (unsigned long long)gate, prof.desc);
		}
	}
	vf_count("items", (uint64_t)ns);
	vf_count("intervals_checked", checked);
	vf_count("deep_nesting_intervals", deep);
	vf_count("foreign_intervals_with_one_start", with_one);
	vf_count(sc_names[t->sc], 1);
	vf_emit("trial", "\"n\":1,\"sig\":\"susp-%s-%d-%d-%d-%d\",\"nontrivial\":%s,\"sample\":{\"trial\":%d,\"scenario\":\"%s\",\"queue\":\"%s\",\"clients\":%d,\"items\":%d,\"intervals\":%llu,\"max_nesting\":%llu,\"foreign_intervals_with_one_start\":%llu,\"perturb\":\"%s\"}",
			sc_names[t->sc], conc, prof.kind, vf_log2_bucket(checked), vf_log2_bucket(deep), checked ? "true" : "false", idx, sc_names[t->sc],
			conc ? "concurrent" : "serial", t->nclients, ns, (unsigned long long)checked, (unsigned long long)maxdepth, (unsigned long long)with_one, prof.desc);
	free(starts);
	dispatch_release(t->q); dispatch_release(t->other);
	if (tq) dispatch_release(tq);
	free(t->items); free(t->iv);
	pthread_barrier_destroy(&t->bar);
	free(t);
}

/* ------------------------------------------------------------------ pbar mode
 * Directed schedule (two failpoints on the drainer, hook H1) for a concurrent queue that is
 * suspended while its drainer re-runs after it had to give up for lack of width:
 *   the queue holds  B0 (barrier: arms the drainer's failpoints), N1 (non-barrier, runs
 *   elsewhere and blocks), B1 (barrier), then a tail of ordinary items;
 *   D  runs B0, hands N1 over, cannot get the full width for B1 (N1 is running): it leaves the
 *      "pending barrier" reservation in the queue state and goes to unlock      -> failpoint 1
 *   N1 is released and completes: it finds the queue drain-locked and marks it dirty
 *   D  sees the dirty bit, clears it and decides to drain again                 -> failpoint 2
 *   the controller calls dispatch_suspend(Q); D drains again, finds the queue suspended with
 *   the barrier at its head and leaves.
 * C06: after the resume everything pending runs (B1 and the tail), nothing started while the
 * queue was suspended; C04: B1 after N1, tail after B1. */
typedef struct {
	dispatch_queue_t q;
	_Atomic int b0_ran, n1_started, n1_release, n1_done, b1_ran, tail_ran, d_tid;
	uint64_t susp_ret, resume_call, b1_start, n1_end;
	_Atomic uint64_t tail_first_start;
} pbar_t;
static void pb_b0(void *ctx)
{
	pbar_t *p = ctx;
	atomic_store(&p->d_tid, vf_gettid());
	vf_stall_arm("_dispatch_queue_drain_try_unlock", 0, 0, 3000ull * 1000 * 1000);    /* before the unlock reads the state */
	vf_stall2_arm("_dispatch_queue_drain_try_unlock", 4, 1, 3000ull * 1000 * 1000);   /* after it cleared the dirty bit */
	atomic_store(&p->b0_ran, 1);
	vf_progress();
}
static void pb_n1(void *ctx)
{
	pbar_t *p = ctx;
	atomic_store(&p->n1_started, 1);
	while (!atomic_load(&p->n1_release)) { struct timespec ts = { 0, 50000 }; nanosleep(&ts, NULL); }
	p->n1_end = vf_stamp();
	atomic_store(&p->n1_done, 1);
	vf_progress();
}
static void pb_b1(void *ctx) { pbar_t *p = ctx; p->b1_start = vf_stamp(); atomic_store(&p->b1_ran, 1); vf_progress(); }
static void pb_tail(void *ctx)
{
	pbar_t *p = ctx;
	uint64_t z = 0, s = vf_stamp();
	atomic_compare_exchange_strong(&p->tail_first_start, &z, s);
	atomic_fetch_add(&p->tail_ran, 1);
	vf_progress();
}
static int pb_wait(_Atomic int *f, int want, uint64_t ms)
{
	uint64_t t0 = vf_now_ns(CLOCK_MONOTONIC);
	while (atomic_load(f) < want) {
		if (vf_now_ns(CLOCK_MONOTONIC) - t0 > ms * 1000000ull) return 0;
		struct timespec ts = { 0, 20000 }; nanosleep(&ts, NULL);
	}
	return 1;
}
static void run_pbar_trial(int idx)
{
	pbar_t *p = calloc(1, sizeof(*p));
	int ntail = 3 + idx % 4;
	vf_perturb_off();
	vf_stall_reset();
	p->q = idx & 1 ? dispatch_queue_create_with_target("vf.suspend.pbar", DISPATCH_QUEUE_CONCURRENT, dispatch_get_global_queue(DISPATCH_QUEUE_PRIORITY_LOW, 0))
			: dispatch_queue_create("vf.suspend.pbar", DISPATCH_QUEUE_CONCURRENT);
	vf_watch_begin("suspend:pending-barrier", 0);
	dispatch_suspend(p->q);
	dispatch_barrier_async_f(p->q, p, pb_b0);
	dispatch_async_f(p->q, p, pb_n1);
	dispatch_barrier_async_f(p->q, p, pb_b1);
	for (int i = 0; i < ntail; i++) dispatch_async_f(p->q, p, pb_tail);
	dispatch_resume(p->q);
	int ok = pb_wait(&p->n1_started, 1, 5000);
	uint64_t t0 = vf_now_ns(CLOCK_MONOTONIC);
	while (!vf_stall_reached() && vf_now_ns(CLOCK_MONOTONIC) - t0 < 2000000000ull) { struct timespec ts = { 0, 20000 }; nanosleep(&ts, NULL); }
	int d_at_unlock = vf_stall_reached();
	atomic_store(&p->n1_release, 1);
	pb_wait(&p->n1_done, 1, 5000);
	{ struct timespec ts = { 0, 3000000 }; nanosleep(&ts, NULL); }   /* N1's completion marks the drain-locked queue dirty */
	vf_stall_release();
	t0 = vf_now_ns(CLOCK_MONOTONIC);
	while (!vf_stall2_reached() && vf_now_ns(CLOCK_MONOTONIC) - t0 < 1000000000ull) { struct timespec ts = { 0, 20000 }; nanosleep(&ts, NULL); }
	int d_redrains = vf_stall2_reached();
	dispatch_suspend(p->q);
	p->susp_ret = vf_stamp();
	vf_stall2_release();
	{ struct timespec ts = { 0, 3000000 }; nanosleep(&ts, NULL); }   /* D drains again, finds the queue suspended, leaves */
	int early = atomic_load(&p->b1_ran);
	p->resume_call = vf_stamp();
	dispatch_resume(p->q);
	/* everything pending must run now (watchdog: stuck witness otherwise) */
	while (!(atomic_load(&p->b1_ran) && atomic_load(&p->tail_ran) == ntail)) { struct timespec ts = { 0, 200000 }; nanosleep(&ts, NULL); }
	vf_watch_end();
	int engaged = ok && d_at_unlock && d_redrains;
	if (engaged && early) vf_violation("C06:started-while-suspended:concurrent-queue-pending-barrier", "barrier item started while the queue was suspended (suspend returned at %llu, resume called at %llu, barrier started at %llu)",
			(unsigned long long)p->susp_ret, (unsigned long long)p->resume_call, (unsigned long long)p->b1_start);
	if (p->b1_start < p->n1_end) vf_violation("C04:barrier-overlap", "pending-barrier scenario: barrier B1 started (%llu) before the earlier non-barrier item finished (%llu)", (unsigned long long)p->b1_start, (unsigned long long)p->n1_end);
	if (atomic_load(&p->tail_first_start) < p->b1_start) vf_violation("C04:barrier-order", "pending-barrier scenario: an item submitted after barrier B1 started before it");
	vf_count("pbar_trials", 1);
	if (engaged) vf_count("pbar_schedule_reached", 1);
	vf_count("items", (uint64_t)ntail + 3);
	vf_emit("trial", "\"n\":1,\"sig\":\"pbar-%d-%d-%d\",\"nontrivial\":%s,\"sample\":{\"trial\":%d,\"shape\":\"pending-barrier+suspend\",\"drainer_stalled_before_unlock\":%d,\"drainer_saw_dirty_and_redrains\":%d,\"tail_items\":%d,\"everything_ran_after_resume\":1}",
			idx & 1, ntail, engaged, engaged ? "true" : "false", idx, d_at_unlock, d_redrains, ntail);
	dispatch_release(p->q);
	free(p);
}

int main(int argc, char **argv)
{
	vf_init(argc, argv, "h_suspend");
	for (int i = 0; i < vf_opts.trials; i++) {
		if (!strcmp(vf_opts.mode, "pbar")) run_pbar_trial(vf_opts.first_trial + i);
		else run_trial(vf_opts.first_trial + i);
	}
	return vf_finish();
}
