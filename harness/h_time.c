/*
 * h_time.c — C12: dispatch_time / dispatch_walltime arithmetic.
 *
 * Technique: runtime monitoring = differential testing against a reference model
 * (exact arithmetic in __int128 over the *documented* encoding of dispatch_time_t)
 * plus relational checks on the library's own outputs, plus sampled "a deadline that
 * is already past does not block" probes through dispatch_semaphore_wait and
 * dispatch_group_wait. In the asan flavor UBSan watches the library's arithmetic.
 *
 * Documented encoding (src/shims/time.h "Encoding of dispatch_time_t", dispatch/time.h,
 * private/time_private.h):
 *   top bits 00  uptime clock value            (Linux: CLOCK_MONOTONIC ns, _dispatch_uptime)
 *   top bits 10  monotonic clock value          (Linux: CLOCK_BOOTTIME ns, _dispatch_monotonic_time)
 *   top bits 11  wall clock, negated ns since the epoch (CLOCK_REALTIME)
 *   0 = DISPATCH_TIME_NOW (uptime now), 1<<63 = DISPATCH_MONOTONICTIME_NOW,
 *   ~1 = DISPATCH_WALLTIME_NOW, ~0 = DISPATCH_TIME_FOREVER;
 *   "we can't have an actual time value that is >= 0x4000000000000000. Larger values
 *   always get silently converted to DISPATCH_TIME_FOREVER".
 * Hence the representable times of a clock are the values [1, 2^62-1] (uptime,
 * monotonic) and [3, 2^62-1] (wall: the encodings of 1 and 2 are FOREVER and
 * WALLTIME_NOW). On x86-64 Linux one clock unit is one nanosecond
 * (DISPATCH_TIME_UNIT_USES_NANOSECONDS), so no rounding is permitted anywhere.
 *
 * Model (property C12): result = FOREVER if base is FOREVER (absorbing) or out of
 * range; else with S = value(base) + delta computed exactly:
 *   S > 2^62-1            -> DISPATCH_TIME_FOREVER
 *   minrep <= S <= 2^62-1 -> exactly the encoding of S on the base's clock
 *   S < minrep            -> any time of the base's clock that has already elapsed
 *                            (a value <= that clock's current reading, or that clock's
 *                            NOW sentinel)
 * For NOW bases (and dispatch_walltime(NULL, ..)) the clock is read before and after
 * the call and S ranges over [before+delta, after+delta].
 *
 * Options: --batch=N cases per trial (default 20000, scaled by --scale),
 *   --waits=N past-deadline waits per trial (default 12), --wait-bound-ms=2000,
 *   --extremes=MASK input classes at the edge of int64 (default 7 = all):
 *      1: delta == INT64_MIN for dispatch_time
 *      2: dispatch_walltime cases whose exact base or sum does not fit in int64
 *      4: DISPATCH_MONOTONICTIME_NOW itself used as a wait deadline
 *   (the asan spec runs MASK=0 processes for volume, because a UBSan report is fatal
 *   there, and one process per bit so that each class is still probed under UBSan).
 */
#include "vf_common.h"
#include <dispatch/dispatch.h>
#include <dispatch/private.h>
#include <limits.h>

typedef __int128 i128;

#define NSEC 1000000000ll
#define MAXV ((uint64_t)((1ull << 62) - 1)) /* largest representable time value */
#define BIT63 (1ull << 63)
#define BIT62 (1ull << 62)

enum { K_UP = 0, K_MONO = 1, K_WALL = 2, K_NONE = 3 };
static const char *const clk_name[] = { "uptime", "monotonic", "wall", "none" };
static const clockid_t clk_id[] = { CLOCK_MONOTONIC, CLOCK_BOOTTIME, CLOCK_REALTIME };
static inline uint64_t now_of(int k) { return vf_now_ns(clk_id[k]); }
static inline uint64_t minrep(int k) { return k == K_WALL ? 3 : 1; }

/* ------------------------------------------------------------ encoding model */
enum { D_VALUE, D_NOW, D_FOREVER, D_OOR };
typedef struct { int kind, clock; uint64_t v; } dec_t;

static dec_t decode(dispatch_time_t t)
{
	dec_t d = { D_VALUE, K_UP, 0 };
	if (t == DISPATCH_TIME_FOREVER) { d.kind = D_FOREVER; d.clock = K_NONE; return d; }
	if (t == DISPATCH_TIME_NOW) { d.kind = D_NOW; d.clock = K_UP; return d; }
	if (t == (dispatch_time_t)DISPATCH_WALLTIME_NOW) { d.kind = D_NOW; d.clock = K_WALL; d.v = 2; return d; }
	if (t == (dispatch_time_t)DISPATCH_MONOTONICTIME_NOW) { d.kind = D_NOW; d.clock = K_MONO; return d; }
	switch (t >> 62) {
	case 0: d.clock = K_UP; d.v = t; break;
	case 1: d.clock = K_UP; d.v = t; d.kind = D_OOR; break;
	case 2: d.clock = K_MONO; d.v = t & ~BIT63; break;
	default:
		d.clock = K_WALL; d.v = 0 - t; /* 3 .. 2^62 */
		if (d.v > MAXV) d.kind = D_OOR;
		break;
	}
	return d;
}

static dispatch_time_t encode(int clock, uint64_t v) /* v in [minrep, MAXV] */
{
	return clock == K_UP ? v : clock == K_MONO ? (v | BIT63) : 0 - v;
}

static const char *fmt_i128(char *buf, size_t n, i128 x)
{
	char tmp[48]; int i = 0; bool neg = x < 0;
	unsigned __int128 u = neg ? (unsigned __int128)0 - (unsigned __int128)x : (unsigned __int128)x;
	do { tmp[i++] = (char)('0' + (int)(u % 10)); u /= 10; } while (u);
	size_t o = 0;
	if (neg && o + 1 < n) buf[o++] = '-';
	while (i && o + 1 < n) buf[o++] = tmp[--i];
	buf[o] = 0;
	return buf;
}

static const char *fmt_dec(char *buf, size_t n, dispatch_time_t t)
{
	dec_t d = decode(t);
	switch (d.kind) {
	case D_FOREVER: snprintf(buf, n, "FOREVER"); break;
	case D_NOW: snprintf(buf, n, "%s NOW sentinel", clk_name[d.clock]); break;
	case D_OOR: snprintf(buf, n, "%s out-of-range value %llu", clk_name[d.clock], (unsigned long long)d.v); break;
	default: snprintf(buf, n, "%s value %llu", clk_name[d.clock], (unsigned long long)d.v); break;
	}
	return buf;
}

/* ------------------------------------------------------------ counters */
enum {
	C_CASES, C_TIME_FN, C_WALLTIME_FN, C_UP_BASE, C_MONO_BASE, C_WALL_BASE, C_NOW_BASE, C_FOREVER_BASE, C_OOR_BASE,
	C_EXACT, C_OVERFLOW, C_UNDERFLOW, C_BOUNDARY, C_DELTA_EXTREME, C_TS_NULL, C_TS_NEG, C_TS_BEYOND62, C_TS_BEYOND64,
	C_TS_DENORM, C_MONO_PAIRS, C_MONO_STRICT, C_MONO_INCOMPARABLE, C_UBSAN, C_WAITS, C_WAITS_LIB, C_WAITS_HAND,
	C_WAIT_SKIPPED, C_WAIT_EXTENDED, C_NCTR
};
static const char *const ctr_name[C_NCTR] = {
	"cases", "cases_dispatch_time_fn", "cases_walltime_fn", "cases_uptime_base", "cases_monotonic_base", "cases_wall_base",
	"cases_now_base", "cases_forever_base", "cases_out_of_range_base", "cases_exact", "cases_overflow", "cases_underflow",
	"cases_boundary_sum", "cases_delta_int64_extreme", "cases_ts_null", "cases_ts_negative", "cases_ts_beyond_2p62",
	"cases_ts_beyond_int64", "cases_ts_denormal_nsec", "monotone_pairs_checked", "monotone_pairs_strict",
	"monotone_pairs_incomparable", "cases_ubsan_watched", "waits_past_deadline", "waits_deadline_from_library",
	"waits_deadline_hand_encoded", "waits_skipped_after_block", "waits_bound_extended",
};
static uint64_t ctr[C_NCTR];
static const char *const wait_ctr_name[2][4] = {
	{ "waits_semaphore_uptime", "waits_semaphore_monotonic", "waits_semaphore_wall", "waits_semaphore_monotonic_now_sentinel" },
	{ "waits_group_uptime", "waits_group_monotonic", "waits_group_wall", "waits_group_monotonic_now_sentinel" },
};
static uint64_t wait_ctr[2][4];

/* coverage classes: (base class, delta class, outcome class) */
enum { O_EXACT, O_OVER, O_UNDER, O_ABSORB, O_OOR, O_VIOL, O_N };
static const char *const out_name[O_N] = { "exact", "forever-on-overflow", "elapsed-on-underflow", "forever-absorbing", "out-of-range-base", "VIOLATION" };
#define NB 23
#define ND 9
static uint8_t cover[NB][ND][O_N];
static uint8_t cover_proc[NB][ND][O_N];

static int delta_class(int64_t d)
{
	if (d == 0) return 0;
	if (d == INT64_MAX) return 7;
	if (d == INT64_MIN) return 8;
	uint64_t m = d < 0 ? 0 - (uint64_t)d : (uint64_t)d;
	int c = m <= (1ull << 32) ? 1 : m < (1ull << 61) ? 3 : 5;
	return d < 0 ? c + 1 : c;
}

/* ------------------------------------------------------------ one evaluated case */
typedef struct {
	int api;                 /* 0 dispatch_time, 1 dispatch_walltime */
	int clock;               /* clock the result must be on */
	bool forever_base, oor_base, now_base, null_ts;
	dispatch_time_t base;    /* api 0 */
	int64_t ts_sec, ts_nsec; /* api 1, !null_ts */
	int64_t delta;
	i128 lo, hi;             /* exact sum (interval for NOW bases) */
	uint64_t before, after;  /* clock readings for NOW bases */
	int wcause;              /* api 1: 0 none, 1 tv_sec*1e9 beyond int64, 2 timespec ns beyond int64, 3 sum beyond int64 */
	int bclass;
	dispatch_time_t result;
} case_t;

typedef struct { bool ok; int outcome; char tag[72]; } verdict_t;

static unsigned g_extremes = 7;
static uint64_t g_now[3]; /* clock readings at trial start (only used to generate now-ish inputs) */

static inline bool fits64(i128 x) { return x >= (i128)INT64_MIN && x <= (i128)INT64_MAX; }

static int bclass_time(dec_t b)
{
	if (b.kind == D_FOREVER) return 15;
	int sub = b.kind == D_NOW ? 0 : b.kind == D_OOR ? 4 : b.v < (1ull << 20) ? 1 : b.v < (1ull << 61) ? 2 : 3;
	return b.clock * 5 + sub;
}

static void eval_time(case_t *c, dispatch_time_t base, int64_t delta)
{
	memset(c, 0, sizeof(*c));
	dec_t b = decode(base);
	c->api = 0; c->base = base; c->delta = delta; c->clock = b.clock; c->bclass = bclass_time(b);
	switch (b.kind) {
	case D_FOREVER: c->forever_base = true; c->result = dispatch_time(base, delta); break;
	case D_OOR: c->oor_base = true; c->result = dispatch_time(base, delta); break;
	case D_VALUE:
		c->lo = c->hi = (i128)b.v + delta;
		c->result = dispatch_time(base, delta);
		break;
	default:
		c->now_base = true;
		c->before = now_of(b.clock);
		c->result = dispatch_time(base, delta);
		c->after = now_of(b.clock);
		c->lo = (i128)c->before + delta; c->hi = (i128)c->after + delta;
		break;
	}
}

static void eval_wall(case_t *c, const struct timespec *ts, int64_t delta)
{
	memset(c, 0, sizeof(*c));
	c->api = 1; c->delta = delta; c->clock = K_WALL;
	if (!ts) {
		c->null_ts = c->now_base = true;
		c->before = now_of(K_WALL);
		c->result = dispatch_walltime(NULL, delta);
		c->after = now_of(K_WALL);
		c->lo = (i128)c->before + delta; c->hi = (i128)c->after + delta;
		if (!fits64(c->hi)) c->wcause = 3;
		c->bclass = 16;
		return;
	}
	c->ts_sec = (int64_t)ts->tv_sec; c->ts_nsec = (int64_t)ts->tv_nsec;
	i128 p = (i128)c->ts_sec * NSEC, b = p + c->ts_nsec;
	c->lo = c->hi = b + delta;
	c->wcause = !fits64(p) ? 1 : !fits64(b) ? 2 : !fits64(c->lo) ? 3 : 0;
	c->bclass = !fits64(b) ? 22 : b < 0 ? 17 : b < 3 ? 18 : b < ((i128)1 << 61) ? 19 : b <= (i128)MAXV ? 20 : 21;
	c->result = dispatch_walltime(ts, delta);
}

/* Compare the library's result with what the property permits. */
static verdict_t judge(const case_t *c)
{
	verdict_t v = { true, O_EXACT, "" };
	dispatch_time_t r = c->result;
	dec_t d = decode(r);
	if (c->forever_base) {
		v.outcome = O_ABSORB;
		if (r != DISPATCH_TIME_FOREVER) { v.ok = false; snprintf(v.tag, sizeof(v.tag), "forever-not-absorbing"); }
		return v;
	}
	if (c->oor_base) {
		v.outcome = O_OOR;
		if (r != DISPATCH_TIME_FOREVER) { v.ok = false; snprintf(v.tag, sizeof(v.tag), "out-of-range-base-not-forever:%s", clk_name[c->clock]); }
		return v;
	}
	int k = c->clock;
	i128 mn = (i128)minrep(k), mx = (i128)MAXV;
	bool can_forever = c->hi > mx, can_under = c->lo < mn, can_exact = c->hi >= mn && c->lo <= mx;
	v.outcome = can_exact ? O_EXACT : can_forever ? O_OVER : O_UNDER;
	const char *t = NULL;
	char cc[64];
	if (d.kind == D_FOREVER) {
		if (can_forever) { v.outcome = O_OVER; return v; }
		if (!can_exact) { /* the sum precedes the representable past: an elapsed time of this clock is required */
			if (c->api == 0) t = (k == K_WALL && c->lo == c->hi && c->lo == 1) ? "sum-equals-1-returns-forever" : "underflow-returns-forever";
			else t = c->hi < 0 ? "pre-epoch-sum-returns-forever" : "sum-0-or-1-returns-forever";
		} else if (c->lo == c->hi && c->lo == mx) t = "sum-equals-2^62-1-returns-forever";
		else t = "in-range-returns-forever";
	} else if (d.kind == D_OOR || d.clock != k) {
		if (c->api == 1 && can_forever && !can_exact) t = d.clock != k ? "beyond-2^62-changes-clock" : "beyond-2^62-out-of-range-encoding";
		else { snprintf(cc, sizeof(cc), "changes-clock:%s->%s%s", clk_name[k], clk_name[d.clock], d.kind == D_OOR ? "-out-of-range" : ""); t = cc; }
	} else if (d.kind == D_NOW) {
		if (can_under) { v.outcome = O_UNDER; return v; }
		t = "returns-now-sentinel";
	} else {
		if ((i128)d.v >= c->lo && (i128)d.v <= c->hi) { v.outcome = O_EXACT; return v; }
		if (can_under && (d.v <= g_now[k] || d.v <= now_of(k))) { v.outcome = O_UNDER; return v; }
		t = !can_exact && can_forever ? "overflow-not-forever" : !can_exact ? "underflow-not-elapsed" : "wrong-value";
	}
	v.ok = false;
	v.outcome = O_VIOL;
	/* dispatch_walltime: when an exact intermediate quantity leaves int64 the symptom is arbitrary; key by that cause */
	if (c->api == 1 && c->wcause) t = c->wcause == 1 ? "tv_sec-multiplication-wraps" : c->wcause == 2 ? "timespec-nanoseconds-wrap" : "nsec-plus-delta-wraps";
	snprintf(v.tag, sizeof(v.tag), "%s", t);
	return v;
}

static void describe_case(const case_t *c, char *buf, size_t n)
{
	char a[64], b[64], e[64], f[64];
	if (c->api == 0) {
		snprintf(buf, n, "dispatch_time(base=0x%016llx [%s], delta=%lld [0x%016llx]) returned 0x%016llx [%s]",
				(unsigned long long)c->base, fmt_dec(a, sizeof(a), c->base), (long long)c->delta, (unsigned long long)c->delta,
				(unsigned long long)c->result, fmt_dec(b, sizeof(b), c->result));
	} else if (c->null_ts) {
		snprintf(buf, n, "dispatch_walltime(NULL, delta=%lld [0x%016llx]) returned 0x%016llx [%s]",
				(long long)c->delta, (unsigned long long)c->delta, (unsigned long long)c->result, fmt_dec(b, sizeof(b), c->result));
	} else {
		snprintf(buf, n, "dispatch_walltime({tv_sec=%lld [0x%016llx], tv_nsec=%lld [0x%016llx]}, delta=%lld [0x%016llx]) returned 0x%016llx [%s]",
				(long long)c->ts_sec, (unsigned long long)c->ts_sec, (long long)c->ts_nsec, (unsigned long long)c->ts_nsec,
				(long long)c->delta, (unsigned long long)c->delta, (unsigned long long)c->result, fmt_dec(b, sizeof(b), c->result));
	}
	size_t o = strlen(buf);
	if (c->forever_base || c->oor_base) { snprintf(buf + o, n - o, "; model: FOREVER"); return; }
	i128 mn = (i128)minrep(c->clock), mx = (i128)MAXV;
	const char *want = c->lo > mx ? "DISPATCH_TIME_FOREVER" : c->hi < mn ? "an already elapsed time of that clock" : c->lo == c->hi ? "exactly that value" : "a value in that interval (FOREVER above 2^62-1, an elapsed time below the minimum)";
	if (c->now_base) snprintf(buf + o, n - o, "; model: %s clock read %llu before / %llu after the call, exact sum in [%s, %s], expected %s",
			clk_name[c->clock], (unsigned long long)c->before, (unsigned long long)c->after, fmt_i128(e, sizeof(e), c->lo), fmt_i128(f, sizeof(f), c->hi), want);
	else snprintf(buf + o, n - o, "; model: exact sum on the %s clock = %s (representable range [%llu, %llu]), expected %s",
			clk_name[c->clock], fmt_i128(e, sizeof(e), c->lo), (unsigned long long)minrep(c->clock), (unsigned long long)MAXV, want);
}

static void base_label(const case_t *c, char *buf, size_t n)
{
	snprintf(buf, n, "%s%s-base", clk_name[c->clock], c->now_base ? "-now" : "");
}

/* sample bookkeeping for the trial line */
static char g_samples[4][400];
static int g_nsamples;
static bool g_sample_have[O_N];

static verdict_t check_case(const case_t *c)
{
	verdict_t v = judge(c);
	int dc = delta_class(c->delta);
	ctr[C_CASES]++;
	ctr[c->api ? C_WALLTIME_FN : C_TIME_FN]++;
	if (c->forever_base) ctr[C_FOREVER_BASE]++;
	else if (c->oor_base) ctr[C_OOR_BASE]++;
	else {
		ctr[c->clock == K_UP ? C_UP_BASE : c->clock == K_MONO ? C_MONO_BASE : C_WALL_BASE]++;
		if (c->now_base) ctr[C_NOW_BASE]++;
		i128 mn = (i128)minrep(c->clock), mx = (i128)MAXV;
		if (c->lo > mx) ctr[C_OVERFLOW]++;
		else if (c->hi < mn) ctr[C_UNDERFLOW]++;
		else ctr[C_EXACT]++;
		if (c->lo == c->hi && ((c->lo >= -1 && c->lo <= 4) || (c->lo >= mx - 2 && c->lo <= mx + 3))) ctr[C_BOUNDARY]++;
	}
	if (dc >= 7) ctr[C_DELTA_EXTREME]++;
	if (c->api == 1) {
		if (c->null_ts) ctr[C_TS_NULL]++;
		else {
			if (c->bclass == 17) ctr[C_TS_NEG]++;
			if (c->bclass == 21) ctr[C_TS_BEYOND62]++;
			if (c->bclass == 22) ctr[C_TS_BEYOND64]++;
			if (c->ts_nsec < 0 || c->ts_nsec >= NSEC) ctr[C_TS_DENORM]++;
		}
	}
#if VF_ASAN
	ctr[C_UBSAN]++;
#endif
	cover[c->bclass][dc][v.outcome] = 1;
	if (!v.ok) {
		char key[160], lab[48], detail[1200];
		if (c->api == 1) snprintf(key, sizeof(key), "C12:dispatch_walltime:%s", v.tag);
		else if (!strncmp(v.tag, "changes-clock", 13) || !strncmp(v.tag, "forever-not", 11) || !strncmp(v.tag, "out-of-range-base", 17) || !strncmp(v.tag, "sum-equals-2^62-1", 17))
			snprintf(key, sizeof(key), "C12:dispatch_time:%s", v.tag);
		else { base_label(c, lab, sizeof(lab)); snprintf(key, sizeof(key), "C12:dispatch_time:%s:%s", lab, v.tag); }
		describe_case(c, detail, sizeof(detail));
		vf_violation(key, "%s", detail);
	}
	if (g_nsamples < 4 && !g_sample_have[v.outcome]) {
		char detail[1200];
		g_sample_have[v.outcome] = true;
		describe_case(c, detail, sizeof(detail));
		snprintf(g_samples[g_nsamples++], sizeof(g_samples[0]), "%s: %.340s", out_name[v.outcome], detail);
	}
	return v;
}

/* Relation on the library's outputs only: d1 <= d2 => t(base,d1) <= t(base,d2), compared as times of one clock
 * (FOREVER = +infinity). Results are ranked by their literal value on the clock; the literal value of the
 * wall NOW sentinel (2) and of the other NOW sentinels (0) lies below every representable time of the clock,
 * which is exactly how the library uses them (underflow results). For NOW bases the smaller delta is evaluated
 * first, so the second call reads a later clock. */
static void check_monotone(const case_t *c1, const verdict_t *v1, const case_t *c2, const verdict_t *v2)
{
	dec_t a = decode(c1->result), b = decode(c2->result);
	if (c1->forever_base || c1->oor_base) return;
	if (a.kind == D_OOR || b.kind == D_OOR || (a.kind != D_FOREVER && b.kind != D_FOREVER && a.clock != b.clock)) { ctr[C_MONO_INCOMPARABLE]++; return; }
	ctr[C_MONO_PAIRS]++;
	bool bad = a.kind == D_FOREVER ? b.kind != D_FOREVER : (b.kind != D_FOREVER && a.v > b.v);
	if (!bad) {
		if (b.kind == D_FOREVER ? a.kind != D_FOREVER : a.v < b.v) ctr[C_MONO_STRICT]++;
		return;
	}
	/* name the differential finding (or the int64 excursion of dispatch_walltime's exact quantities) this pair
	 * coincides with, so that one defect does not hide another behind a shared key */
	static const char *const wc[4] = { "", "tv_sec-multiplication-wraps", "timespec-nanoseconds-wrap", "nsec-plus-delta-wraps" };
	const char *cause = !v1->ok ? v1->tag : !v2->ok ? v2->tag : c1->api ? wc[c1->wcause ? c1->wcause : c2->wcause] : "";
	char key[200], d1[1200], d2[1200];
	int clock = a.kind != D_FOREVER ? a.clock : b.clock;
	if (c1->api) snprintf(key, sizeof(key), "C12:dispatch_walltime:not-monotone-in-delta%s%s", *cause ? ":with:" : "", cause);
	else snprintf(key, sizeof(key), "C12:dispatch_time:not-monotone-in-delta:%s%s%s", clk_name[clock], *cause ? ":with:" : "", cause);
	describe_case(c1, d1, sizeof(d1));
	describe_case(c2, d2, sizeof(d2));
	vf_violation(key, "delta %lld <= %lld but the first result is later than the second. FIRST: %.800s SECOND: %.800s", (long long)c1->delta, (long long)c2->delta, d1, d2);
}

/* ------------------------------------------------------------ input generator */
static inline uint64_t rnd_below(vf_rng_t *r, uint64_t n) { return n ? vf_rnd(r) % n : 0; }
static inline uint64_t clampv(i128 x, int k) { return x < (i128)minrep(k) ? minrep(k) : x > (i128)MAXV ? MAXV : (uint64_t)x; }

static uint64_t gen_value(vf_rng_t *r, int k)
{
	i128 now = (i128)g_now[k];
	switch (vf_rnd_n(r, 9)) {
	case 0: return minrep(k) + vf_rnd_n(r, 4);
	case 1: return clampv((i128)rnd_below(r, 1u << 20), k);
	case 2: return clampv(now + (i128)vf_rnd_n(r, 2001) - 1000, k);
	case 3: return clampv(now + (i128)rnd_below(r, 1ull << 41) - ((i128)1 << 40), k);
	case 4: return clampv((i128)(vf_rnd(r) & MAXV), k);
	case 5: return clampv(((i128)1 << 61) + (i128)vf_rnd_n(r, 9) - 4, k);
	case 6: return MAXV - vf_rnd_n(r, 4);
	case 7: return clampv(now / 2, k);
	default: return clampv((i128)(vf_rnd(r) >> vf_rnd_n(r, 62)), k);
	}
}

static dispatch_time_t gen_base(vf_rng_t *r)
{
	uint32_t p = vf_rnd_n(r, 100);
	if (p < 10) { static const dispatch_time_t nows[3] = { DISPATCH_TIME_NOW, DISPATCH_MONOTONICTIME_NOW, DISPATCH_WALLTIME_NOW }; return nows[vf_rnd_n(r, 3)]; }
	if (p < 13) return DISPATCH_TIME_FOREVER;
	if (p < 63) { int k = (int)vf_rnd_n(r, 3); return encode(k, gen_value(r, k)); }
	if (p < 70) {
		switch (vf_rnd_n(r, 4)) {
		case 0: return BIT62 + vf_rnd_n(r, 4);
		case 1: return BIT63 - 1 - vf_rnd_n(r, 4);
		case 2: return BIT62 + rnd_below(r, BIT62);
		default: return 0xC000000000000000ull;
		}
	}
	if (p < 80) {
		uint32_t k = vf_rnd_n(r, 5);
		switch (vf_rnd_n(r, 6)) {
		case 0: return k;                 /* 0,1,2.. */
		case 1: return BIT62 - 2 + k;     /* 2^62 +- k */
		case 2: return BIT63 - 2 + k;     /* 2^63 +- k */
		case 3: return 0 - (uint64_t)k;   /* 2^64 - k */
		case 4: return (BIT63 | BIT62) - 2 + k;
		default: return BIT63 + k;
		}
	}
	return vf_rnd(r);
}

static const int64_t delta_consts[] = {
	0, 1, -1, 2, -2, 3, -3, 1000, -1000, NSEC, -NSEC, (1ll << 31), -(1ll << 31), (1ll << 32), -(1ll << 32),
	(1ll << 62), -(1ll << 62), (1ll << 62) - 1, -((1ll << 62) - 1), (1ll << 62) + 1, -((1ll << 62) + 1), (1ll << 61), -(1ll << 61),
	INT64_MAX, INT64_MAX - 1, INT64_MIN, INT64_MIN + 1, INT64_MIN + 2,
};

/* delta for a base whose exact value is b (have_b) */
static int64_t gen_delta(vf_rng_t *r, bool have_b, i128 b)
{
	uint32_t p = vf_rnd_n(r, 100);
	if (p < 25) return delta_consts[vf_rnd_n(r, sizeof(delta_consts) / sizeof(delta_consts[0]))];
	if (p < 50 && have_b) { /* near-cancelling: land the sum on a boundary */
		static const int off[] = { -1, 0, 1, 2, 3, 4 };
		i128 target;
		switch (vf_rnd_n(r, 4)) {
		case 0: case 1: target = off[vf_rnd_n(r, 6)]; break;
		case 2: target = (i128)MAXV - 2 + (i128)vf_rnd_n(r, 6); break; /* 2^62-3 .. 2^62+2 */
		default: target = ((i128)1 << 63) - 2 + (i128)vf_rnd_n(r, 4); break;
		}
		i128 d = target - b;
		if (fits64(d)) return (int64_t)d;
		return d < 0 ? INT64_MIN : INT64_MAX;
	}
	if (p < 70) return (int64_t)rnd_below(r, 1u << 20) * (vf_rnd_n(r, 2) ? 1 : -1);
	if (p < 85) return (int64_t)(vf_rnd(r) >> (2 + vf_rnd_n(r, 40))) * (vf_rnd_n(r, 2) ? 1 : -1);
	return (int64_t)vf_rnd(r);
}

static int64_t gen_delta2(vf_rng_t *r, int64_t d1, bool have_b, i128 b)
{
	uint32_t p = vf_rnd_n(r, 8);
	int64_t step = p == 0 ? 1 : p == 1 ? 2 : p == 2 ? (int64_t)vf_rnd_n(r, 1000) : p == 3 ? (int64_t)(vf_rnd(r) >> (2 + vf_rnd_n(r, 50))) : -1;
	if (step >= 0) return d1 > INT64_MAX - step ? INT64_MAX : d1 + step;
	if (p == 4) return d1;
	return gen_delta(r, have_b, b);
}

static void gen_ts(vf_rng_t *r, struct timespec *ts)
{
	int64_t now_s = (int64_t)(g_now[K_WALL] / NSEC), k = (int64_t)vf_rnd_n(r, 5) - 2, s, n;
	switch (vf_rnd_n(r, 20)) {
	case 0: s = 0; break;
	case 1: s = 1 + vf_rnd_n(r, 3); break;
	case 2: s = (int64_t)rnd_below(r, 100000); break;
	case 3: case 4: s = now_s + k; break;
	case 5: s = now_s + (int64_t)rnd_below(r, 1ull << 31) - (1ll << 30); break;
	case 6: s = (1ll << 31) + k; break;
	case 7: s = (1ll << 32) + k; break;
	case 8: s = 4611686018ll + k; break;        /* floor(2^62 / 1e9) +- k */
	case 9: s = 4751310948ll; break;            /* beyond 2^62 ns */
	case 10: s = INT64_MAX / NSEC + k; break;   /* 9223372036 +- k */
	case 11: s = 18446744073ll + k; break;      /* floor(2^64 / 1e9) +- k */
	case 12: s = INT64_MAX - vf_rnd_n(r, 3); break;
	case 13: s = INT64_MIN + vf_rnd_n(r, 3); break;
	case 14: s = -1 - (int64_t)vf_rnd_n(r, 3); break;
	case 15: s = -(int64_t)rnd_below(r, 1ull << 34); break;
	case 16: s = (int64_t)vf_rnd(r); break;
	case 17: s = (int64_t)rnd_below(r, 1ull << 34); break;
	case 18: s = (int64_t)rnd_below(r, 4611686018ull); break;
	default: s = 4611686018ll + (int64_t)rnd_below(r, 4611686018ull); break; /* 2^62 .. 2^63 ns */
	}
	switch (vf_rnd_n(r, 16)) {
	case 0: case 1: n = 0; break;
	case 2: n = 1 + vf_rnd_n(r, 3); break;
	case 3: n = NSEC - 1; break;
	case 4: n = NSEC + vf_rnd_n(r, 2); break;
	case 5: n = 2 * NSEC; break;
	case 6: n = -1; break;
	case 7: n = -NSEC; break;
	case 8: n = 427387904ll + k; break;         /* 2^62 mod 1e9 +- k */
	case 9: n = 854775807ll + k; break;         /* INT64_MAX mod 1e9 +- k */
	case 10: n = vf_rnd_n(r, 2) ? INT64_MAX : INT64_MIN; break;
	case 11: n = (int64_t)vf_rnd(r); break;
	default: n = (int64_t)rnd_below(r, NSEC); break;
	}
	ts->tv_sec = (time_t)s; ts->tv_nsec = (long)n;
}

/* ------------------------------------------------------------ past-deadline waits */
static long g_wait_bound_ms = 2000;
static bool g_combo_blocked[2][4];
static const char *const api_name[2] = { "dispatch_semaphore_wait", "dispatch_group_wait" };
static const char *const wclk_name[4] = { "uptime", "monotonic", "wall", "monotonic-now-sentinel" };

/* reservoir of library results from the arithmetic cases that the model places in the past */
static struct { dispatch_time_t t; char how[200]; } g_resv[3][4];
static int g_nresv[3];

typedef struct {
	int api; dispatch_time_t when;
	dispatch_semaphore_t sem; dispatch_group_t grp;
	pthread_mutex_t m; pthread_cond_t cv;
	int done; _Atomic int tid; intptr_t rc;
} waiter_t;

static void *waiter_main(void *arg)
{
	waiter_t *w = arg;
	atomic_store(&w->tid, vf_gettid());
	intptr_t rc = w->api == 0 ? dispatch_semaphore_wait(w->sem, w->when) : dispatch_group_wait(w->grp, w->when);
	pthread_mutex_lock(&w->m);
	w->rc = rc; w->done = 1;
	pthread_cond_signal(&w->cv);
	pthread_mutex_unlock(&w->m);
	return NULL;
}

static bool waiter_done_within(waiter_t *w, long ms)
{
	struct timespec abs;
	clock_gettime(CLOCK_MONOTONIC, &abs);
	abs.tv_sec += ms / 1000; abs.tv_nsec += (ms % 1000) * 1000000;
	if (abs.tv_nsec >= NSEC) { abs.tv_sec++; abs.tv_nsec -= NSEC; }
	pthread_mutex_lock(&w->m);
	while (!w->done) if (pthread_cond_timedwait(&w->cv, &w->m, &abs) == ETIMEDOUT) break;
	bool d = w->done;
	pthread_mutex_unlock(&w->m);
	return d;
}

static char thread_state(int tid)
{
	char path[64], buf[512];
	snprintf(path, sizeof(path), "/proc/self/task/%d/stat", tid);
	FILE *f = fopen(path, "r");
	if (!f) return '?';
	size_t len = fread(buf, 1, sizeof(buf) - 1, f);
	fclose(f);
	buf[len] = 0;
	char *rp = strrchr(buf, ')');
	return rp && rp[1] && rp[2] ? rp[2] : '?';
}

/* when: a deadline that is already past on clock k (reading now_k >= its value was taken before this call) */
static void wait_probe(int api, int wclk, dispatch_time_t when, uint64_t now_k, const char *how)
{
	if (g_combo_blocked[api][wclk]) { ctr[C_WAIT_SKIPPED]++; return; }
	waiter_t w;
	memset(&w, 0, sizeof(w));
	w.api = api; w.when = when;
	pthread_condattr_t ca;
	pthread_condattr_init(&ca);
	pthread_condattr_setclock(&ca, CLOCK_MONOTONIC);
	pthread_mutex_init(&w.m, NULL);
	pthread_cond_init(&w.cv, &ca);
	pthread_condattr_destroy(&ca);
	if (api == 0) w.sem = dispatch_semaphore_create(0);
	else { w.grp = dispatch_group_create(); dispatch_group_enter(w.grp); }
	pthread_t th;
	if (pthread_create(&th, NULL, waiter_main, &w)) vf_fail("pthread_create failed");
	bool done = waiter_done_within(&w, g_wait_bound_ms);
	for (int ext = 0; !done && ext < 5; ext++) {
		/* only a waiter that is asleep counts as blocked; a starved (runnable) one gets more time */
		int tid = atomic_load(&w.tid);
		char st = tid ? thread_state(tid) : 'R';
		if (st == 'S') break;
		ctr[C_WAIT_EXTENDED]++;
		done = waiter_done_within(&w, g_wait_bound_ms);
	}
	bool blocked = !done;
	if (blocked) {
		char a[64], key[160];
		int k = wclk == 3 ? K_MONO : wclk;
		snprintf(key, sizeof(key), "C12:past-deadline-wait-blocks:%s:%s", api_name[api], wclk_name[wclk]);
		vf_violation(key, "%s(%s, 0x%016llx [%s]) was still blocked (thread asleep) %ld ms after the call although the deadline had already passed: "
				"%s clock read %llu before the call, now %llu; deadline obtained from: %s. The waiter was then released by %s.",
				api_name[api], api ? "group with one outstanding enter" : "semaphore with value 0", (unsigned long long)when,
				fmt_dec(a, sizeof(a), when), g_wait_bound_ms, clk_name[k], (unsigned long long)now_k, (unsigned long long)now_of(k), how,
				api ? "dispatch_group_leave" : "dispatch_semaphore_signal");
		g_combo_blocked[api][wclk] = true; /* every further probe of this combination would cost the full bound */
		if (api == 0) dispatch_semaphore_signal(w.sem); else dispatch_group_leave(w.grp);
		while (!waiter_done_within(&w, 1000)) {}
	}
	pthread_join(th, NULL);
	if (!blocked) {
		if (w.rc == 0) {
			char a[64], key[160];
			snprintf(key, sizeof(key), "C12:past-deadline-wait-returns-success:%s:%s", api_name[api], wclk_name[wclk]);
			vf_violation(key, "%s(0x%016llx [%s]) returned 0 (success) although nothing signalled the object; deadline from: %s",
					api_name[api], (unsigned long long)when, fmt_dec(a, sizeof(a), when), how);
		}
		if (api == 1) dispatch_group_leave(w.grp);
	}
	if (api == 0) dispatch_release(w.sem); else dispatch_release(w.grp);
	pthread_mutex_destroy(&w.m);
	pthread_cond_destroy(&w.cv);
	ctr[C_WAITS]++;
	wait_ctr[api][wclk]++;
	vf_progress();
}

/* Is the library result r, which already passed the differential check, a past time of clock k? */
static bool result_is_past(dispatch_time_t r, int k, uint64_t *now_k)
{
	dec_t d = decode(r);
	if (d.kind == D_FOREVER || d.kind == D_OOR || d.clock != k) return false;
	*now_k = now_of(k);
	if (d.kind == D_NOW) return k == K_WALL; /* the wall NOW sentinel is what the library returns on underflow */
	return d.v <= *now_k;
}

static const int64_t past_deltas[] = { -1, -1000, -NSEC, -3600 * NSEC, -(1ll << 40), -(1ll << 61), -(1ll << 62), INT64_MIN + 1 };

static void wait_sample(vf_rng_t *r, int api, int wclk, struct timespec *ts)
{
	static const dispatch_time_t nows[3] = { DISPATCH_TIME_NOW, DISPATCH_MONOTONICTIME_NOW, DISPATCH_WALLTIME_NOW };
	char how[256];
	uint64_t now_k = 0;
	if (wclk == 3) { /* the monotonic NOW sentinel itself as a deadline */
		now_k = now_of(K_MONO);
		ctr[C_WAITS_HAND]++;
		wait_probe(api, 3, DISPATCH_MONOTONICTIME_NOW, now_k, "the constant DISPATCH_MONOTONICTIME_NOW (private/time_private.h)");
		return;
	}
	int k = wclk;
	int64_t nd = vf_rnd_n(r, 3) ? past_deltas[vf_rnd_n(r, sizeof(past_deltas) / sizeof(past_deltas[0]))] : -(int64_t)(1 + (vf_rnd(r) >> (2 + vf_rnd_n(r, 50))));
	case_t c; verdict_t v;
	uint32_t src = vf_rnd_n(r, 6);
	if (src == 5 && !g_nresv[k]) src = 0;
	if (src == 4 && k != K_WALL) src = 1;
	switch (src) {
	case 0: /* NOW sentinel of the clock plus a negative delta */
		eval_time(&c, nows[k], nd);
		v = check_case(&c);
		snprintf(how, sizeof(how), "dispatch_time(0x%016llx, %lld)", (unsigned long long)nows[k], (long long)nd);
		break;
	case 1: { /* representable base minus something: past value or the underflow result */
		uint64_t bv = vf_rnd_n(r, 2) ? clampv((i128)g_now[k] - (i128)rnd_below(r, 1ull << 30), k) : gen_value(r, k);
		if (bv > g_now[k] && (i128)bv + nd > (i128)g_now[k]) nd = INT64_MIN + 1;
		eval_time(&c, encode(k, bv), nd);
		v = check_case(&c);
		snprintf(how, sizeof(how), "dispatch_time(0x%016llx, %lld)", (unsigned long long)encode(k, bv), (long long)nd);
		break;
	}
	case 2: case 3: { /* hand-encoded past value */
		uint64_t n0 = now_of(k), bv;
		switch (vf_rnd_n(r, 5)) {
		case 0: bv = minrep(k) + vf_rnd_n(r, 3); break;
		case 1: bv = n0 - 1 - vf_rnd_n(r, 1000); break;
		case 2: bv = n0 / 2; break;
		case 3: bv = clampv((i128)rnd_below(r, n0), k); break;
		default: bv = n0 - NSEC; break;
		}
		now_k = now_of(k);
		ctr[C_WAITS_HAND]++;
		snprintf(how, sizeof(how), "hand-encoded %s value %llu", clk_name[k], (unsigned long long)bv);
		wait_probe(api, wclk, encode(k, bv), now_k, how);
		return;
	}
	case 4: /* dispatch_walltime */
		if (vf_rnd_n(r, 2)) {
			eval_wall(&c, NULL, nd);
			snprintf(how, sizeof(how), "dispatch_walltime(NULL, %lld)", (long long)nd);
		} else {
			ts->tv_sec = (time_t)(g_now[K_WALL] / NSEC) - (time_t)vf_rnd_n(r, 100000) - 1; ts->tv_nsec = (long)rnd_below(r, NSEC);
			int64_t d = (int64_t)vf_rnd_n(r, 3) - 1;
			eval_wall(&c, ts, d);
			snprintf(how, sizeof(how), "dispatch_walltime({%lld, %ld}, %lld)", (long long)ts->tv_sec, (long)ts->tv_nsec, (long long)d);
		}
		v = check_case(&c);
		break;
	default: { /* a result of the arithmetic cases of this trial */
		int i = (int)vf_rnd_n(r, (uint32_t)g_nresv[k]);
		uint64_t n1;
		if (!result_is_past(g_resv[k][i].t, k, &n1)) return;
		ctr[C_WAITS_LIB]++;
		wait_probe(api, wclk, g_resv[k][i].t, n1, g_resv[k][i].how);
		return;
	}
	}
	if (!v.ok) return; /* already reported; a wait on a wrong result says nothing */
	if (!result_is_past(c.result, k, &now_k)) return;
	ctr[C_WAITS_LIB]++;
	wait_probe(api, wclk, c.result, now_k, how);
}

static void reservoir_offer(vf_rng_t *r, const case_t *c, const verdict_t *v)
{
	int slot = (int)vf_rnd_n(r, 64); /* drawn unconditionally: the stream must not depend on clock readings */
	if (!v->ok || c->forever_base || c->oor_base) return;
	dec_t d = decode(c->result);
	if (d.kind != D_VALUE && !(d.kind == D_NOW && d.clock == K_WALL)) return;
	if (d.kind == D_VALUE && d.v > g_now[d.clock]) return;
	int k = d.clock, i = g_nresv[k] < 4 ? g_nresv[k]++ : slot;
	if (i >= 4) return;
	g_resv[k][i].t = c->result;
	if (c->api == 0) snprintf(g_resv[k][i].how, sizeof(g_resv[k][i].how), "dispatch_time(0x%016llx, %lld)", (unsigned long long)c->base, (long long)c->delta);
	else if (c->null_ts) snprintf(g_resv[k][i].how, sizeof(g_resv[k][i].how), "dispatch_walltime(NULL, %lld)", (long long)c->delta);
	else snprintf(g_resv[k][i].how, sizeof(g_resv[k][i].how), "dispatch_walltime({%lld, %lld}, %lld)", (long long)c->ts_sec, (long long)c->ts_nsec, (long long)c->delta);
}

/* ------------------------------------------------------------ trial */
static void json_str(char *dst, size_t n, const char *s)
{
	size_t o = 0;
	for (; *s && o + 2 < n; s++) {
		if (*s == '"' || *s == '\\') dst[o++] = '\'';
		else if ((unsigned char)*s < 0x20) dst[o++] = ' ';
		else dst[o++] = *s;
	}
	dst[o] = 0;
}

static void run_trial(int idx, long batch, long waits)
{
	vf_rng_t r, rw; /* r: the arithmetic cases; rw: reservoir and wait sampling (kept apart so that the case
	                 * stream of a trial is a function of --seed and the trial index only) */
	vf_rng_seed(&r, vf_opts.seed, (uint64_t)idx * 7919 + 12);
	vf_rng_seed(&rw, vf_opts.seed, (uint64_t)idx * 7919 + 13);
	for (int k = 0; k < 3; k++) g_now[k] = now_of(k);
	memset(cover, 0, sizeof(cover));
	memset(ctr, 0, sizeof(ctr));
	memset(wait_ctr, 0, sizeof(wait_ctr));
	memset(g_nresv, 0, sizeof(g_nresv));
	memset(g_sample_have, 0, sizeof(g_sample_have));
	g_nsamples = 0;
	struct timespec *ts = calloc(1, sizeof(*ts)); /* exact-size heap block: an over-read hits a red zone */
	if (!ts) vf_fail("calloc");
	vf_watch_begin("C12:time-batch", 0);
	while ((long)ctr[C_CASES] < batch) {
		case_t c1, c2;
		verdict_t v1, v2;
		if (vf_rnd_n(&r, 100) < 68) {
			dispatch_time_t base = gen_base(&r);
			dec_t b = decode(base);
			bool have = b.kind == D_VALUE || b.kind == D_NOW;
			i128 bv = b.kind == D_VALUE ? (i128)b.v : (i128)g_now[b.clock == K_NONE ? 0 : b.clock];
			int64_t d1 = gen_delta(&r, have, bv), d2 = gen_delta2(&r, d1, have, bv);
			if (!(g_extremes & 1)) { if (d1 == INT64_MIN) d1++; if (d2 == INT64_MIN) d2++; }
			if (d2 < d1) { int64_t t = d1; d1 = d2; d2 = t; }
			eval_time(&c1, base, d1); v1 = check_case(&c1);
			eval_time(&c2, base, d2); v2 = check_case(&c2);
		} else {
			bool null_ts = vf_rnd_n(&r, 100) < 12;
			int64_t d1 = 0, d2 = 0;
			for (int attempt = 0;; attempt++) {
				i128 bv;
				if (null_ts) bv = (i128)g_now[K_WALL];
				else { gen_ts(&r, ts); bv = (i128)(int64_t)ts->tv_sec * NSEC + (int64_t)ts->tv_nsec; }
				d1 = gen_delta(&r, true, bv); d2 = gen_delta2(&r, d1, true, bv);
				if (d2 < d1) { int64_t t = d1; d1 = d2; d2 = t; }
				if (g_extremes & 2) break;
				/* --extremes without bit 2: every exact quantity of the case fits in int64 (1000 s margin for NULL) */
				i128 top = bv + (null_ts ? (i128)1000 * NSEC : 0);
				if (fits64(bv) && (null_ts || fits64((i128)(int64_t)ts->tv_sec * NSEC)) && fits64(bv + d1) && fits64(top + d2)) break;
				if (attempt >= 8) { null_ts = true; d1 = -(int64_t)vf_rnd_n(&r, 1000); d2 = (int64_t)vf_rnd_n(&r, 1000); break; }
			}
			eval_wall(&c1, null_ts ? NULL : ts, d1); v1 = check_case(&c1);
			eval_wall(&c2, null_ts ? NULL : ts, d2); v2 = check_case(&c2);
		}
		check_monotone(&c1, &v1, &c2, &v2);
		reservoir_offer(&rw, &c1, &v1);
		if ((ctr[C_CASES] & 0xfff) < 2) vf_progress();
	}
	/* "waiting until a time that is already past does not block": every (api, clock) combination in turn */
	int ncomb = (g_extremes & 4) ? 8 : 6;
	for (long w = 0; w < waits; w++) {
		int comb = (int)((w + (long)idx * 5) % ncomb);
		wait_sample(&rw, comb & 1, comb >> 1, ts);
	}
	vf_watch_end();
	free(ts);

	/* coverage signature: the set of (base class, delta class, outcome class) triples seen in this batch */
	uint64_t h = VF_HASH_INIT;
	int ntrip = 0, nnew = 0;
	bool seen_out[O_N] = { false };
	for (int b = 0; b < NB; b++) for (int d = 0; d < ND; d++) for (int o = 0; o < O_N; o++) if (cover[b][d][o]) {
		ntrip++; seen_out[o] = true;
		h = vf_hash64(h, (uint64_t)((b * ND + d) * O_N + o));
		if (!cover_proc[b][d][o]) { cover_proc[b][d][o] = 1; nnew++; }
	}
	for (int i = 0; i < C_NCTR; i++) if (ctr[i]) vf_count(ctr_name[i], ctr[i]);
	for (int a = 0; a < 2; a++) for (int k = 0; k < 4; k++) if (wait_ctr[a][k]) vf_count(wait_ctr_name[a][k], wait_ctr[a][k]);
	vf_count("items", ctr[C_CASES]);
	vf_count("class_triples_new", (uint64_t)nnew);
	bool nontrivial = seen_out[O_EXACT] && seen_out[O_OVER] && seen_out[O_UNDER] && ctr[C_NOW_BASE] && ctr[C_WALLTIME_FN] && ctr[C_MONO_PAIRS];
	char sample[2048], esc[420];
	size_t o = 0;
	o += (size_t)snprintf(sample + o, sizeof(sample) - o, "\"trial\":%d,\"cases\":%llu,\"class_triples\":%d,\"waits\":%llu,\"extremes\":%u",
			idx, (unsigned long long)ctr[C_CASES], ntrip, (unsigned long long)ctr[C_WAITS], g_extremes);
	for (int i = 0; i < g_nsamples && o < sizeof(sample) - 440; i++) {
		json_str(esc, sizeof(esc), g_samples[i]);
		o += (size_t)snprintf(sample + o, sizeof(sample) - o, ",\"case%d\":\"%s\"", i, esc);
	}
	vf_emit("trial", "\"n\":%llu,\"sig\":\"c12-%d-%016llx\",\"nontrivial\":%s,\"sample\":{%s}",
			(unsigned long long)ctr[C_CASES], ntrip, (unsigned long long)h, nontrivial ? "true" : "false", sample);
}

int main(int argc, char **argv)
{
	vf_init(argc, argv, "h_time");
	long batch = vf_opt_long("batch", 20000) * vf_opts.scale / 100;
	if (batch < 2) batch = 2;
	long waits = vf_opt_long("waits", 12);
	g_wait_bound_ms = vf_opt_long("wait-bound-ms", 2000);
	g_extremes = (unsigned)vf_opt_long("extremes", 7);
	for (int i = 0; i < vf_opts.trials; i++) run_trial(vf_opts.first_trial + i, batch, waits);
	return vf_finish();
}
