/*
 * h_timer.c — C11: timers and dispatch_after never fire early and always fire.
 *
 * End-to-end oracle: the harness decodes every deadline it passes and reads that clock
 * inside the handler:  now < start  ->  early.  Running total of
 * dispatch_source_get_data <= floor((now - start)/interval) + 1. dispatch_after blocks run
 * exactly once. After dispatch_source_set_timer issued from the timer's own handler, later
 * invocations are judged against the new settings only. Every armed, unsuspended,
 * uncancelled timer with a finite deadline fires (watchdog, lateness is never a violation);
 * timers set to DISPATCH_TIME_FOREVER / far future never fire.
 * Structural oracle: hook H2 validates the timer heap after every arm/disarm.
 */
#include "vf_common.h"
#include "vf_time.h"
#include <dispatch/dispatch.h>
#include <dispatch/private.h>
#include <sched.h>

extern void (*volatile _dispatch_verif_timer_heap_hook)(int what, uint32_t tidx, uint32_t count, uint32_t segments, uint32_t entry_idx, const char *msg);

static _Atomic uint64_t h_calls, h_maxcount, h_grow, h_shrink, h_arm_at_root, h_arm_inner, h_disarm;
static _Atomic uint32_t h_lastseg[32];
static void heap_cb(int what, uint32_t tidx, uint32_t count, uint32_t segments, uint32_t entry_idx, const char *msg)
{
	atomic_fetch_add_explicit(&h_calls, 1, memory_order_relaxed);
	if (count > atomic_load_explicit(&h_maxcount, memory_order_relaxed)) atomic_store_explicit(&h_maxcount, count, memory_order_relaxed);
	if (tidx < 32) {
		uint32_t prev = atomic_exchange_explicit(&h_lastseg[tidx], segments, memory_order_relaxed);
		if (segments > prev) atomic_fetch_add_explicit(&h_grow, 1, memory_order_relaxed);
		if (segments < prev) atomic_fetch_add_explicit(&h_shrink, 1, memory_order_relaxed);
	}
	if (what == 1) { if (entry_idx < 2) atomic_fetch_add_explicit(&h_arm_at_root, 1, memory_order_relaxed); else atomic_fetch_add_explicit(&h_arm_inner, 1, memory_order_relaxed); }
	else atomic_fetch_add_explicit(&h_disarm, 1, memory_order_relaxed);
	if (msg) {
		char key[160];
		snprintf(key, sizeof(key), "C11:timer-heap:%s", msg);
		for (char *p = key; *p; p++) if (*p == ' ') *p = '-';
		vf_violation(key, "timer heap invariant broken after %s (heap %u, %u entries, %u segments): %s", what ? "arm" : "disarm", tidx, count, segments, msg);
	}
}

typedef struct tmr {
	dispatch_source_t ds;
	int clk;                 /* VF_CLK_* */
	uint64_t start;          /* decoded start value on that clock; 0 = must never fire */
	uint64_t interval;       /* ns; 0 = one-shot (DISPATCH_TIME_FOREVER interval) */
	uint64_t total;          /* running total of get_data under the current settings */
	uint64_t gen_start_total;
	_Atomic uint32_t fires, in_handler;
	_Atomic int cancelled, cancel_ran, suspended;
	int must_fire, never_fire, rearm_left, gen;
	int tiny;                /* interval argument 0 = a 1 ns repeating timer: the handler cancels it after a few invocations */
	uint64_t first_fire_stamp;
	struct ttrial *t;
	vf_rng_t rng;
	int qi;
	pthread_mutex_t cfg;     /* two reconfigurations of one timer (resumer thread, item on the target queue) must not interleave in the
	                          * harness: the recorded settings are those of the last dispatch_source_set_timer call */
	const char *cfg_path;
} tmr_t;

typedef struct ttrial {
	tmr_t *tm; int n;
	dispatch_queue_t qs[5];   /* serial, concurrent, global, workloop, serial over (serial | workloop) */
	_Atomic uint64_t resumes_pending;   /* suspends issued from handlers whose balancing resume (a dispatch_after block) has not returned yet */
	_Atomic uint64_t must_fire_done, cancel_done, after_done, fires_total, rearms, rearms_suspended, rearms_from_target, clock_switches, early;
	_Atomic uint64_t literal_now, tiny_intervals, huge_intervals, huge_leeways;
	uint64_t salt;
	vf_profile_t prof;
} ttrial_t;

static clockid_t clk_id(int k) { return k == VF_CLK_WALL ? CLOCK_REALTIME : k == VF_CLK_MONO ? CLOCK_BOOTTIME : CLOCK_MONOTONIC; }

/* program (or re-program) a timer; returns decoded start */
static void program_timer_locked(tmr_t *m, vf_rng_t *r, int allow_never);
static void program_timer(tmr_t *m, vf_rng_t *r, int allow_never, const char *path)
{
	pthread_mutex_lock(&m->cfg);
	m->cfg_path = path;
	program_timer_locked(m, r, allow_never);
	pthread_mutex_unlock(&m->cfg);
}
static void program_timer_locked(tmr_t *m, vf_rng_t *r, int allow_never)
{
	/* replacing the settings may also move the timer to another clock (a plain TIMER source allows it):
	 * the timer then changes heaps inside the library */
	if (m->gen >= 1 && vf_rnd_n(r, 3) == 0) {
		int nc = (int)vf_rnd_n(r, 3);
		if (nc != m->clk) { m->clk = nc; atomic_fetch_add_explicit(&m->t->clock_switches, 1, memory_order_relaxed); }
	}
	uint32_t c = vf_rnd_n(r, 100);
	int64_t delta;
	if (c < 8) delta = -(int64_t)vf_rnd_range(r, 1000, 2000000);          /* already past */
	else if (c < 15) delta = 0;
	else if (c < 60) delta = (int64_t)vf_rnd_range(r, 10000, 5000000);
	else if (c < 90) delta = (int64_t)vf_rnd_range(r, 5000000, 60000000);
	else delta = (int64_t)vf_rnd_range(r, 60000000, 250000000);
	delta = delta * vf_opts.scale / 100;
	uint32_t ic = vf_rnd_n(r, 10);
	uint64_t interval_arg;
	if (ic < 4) { m->interval = 0; interval_arg = DISPATCH_TIME_FOREVER; }
	else { m->interval = vf_rnd_range(r, 100000, 30000000); interval_arg = m->interval; }
	uint64_t leeway = vf_rnd_n(r, 3) == 0 ? 0 : vf_rnd_range(r, 0, 5000000);
	/* boundary values of the (interval, leeway) arguments: interval 0 is documented to mean a 1 ns repeating timer, intervals
	 * and leeways above INT64_MAX are clamped (the timer then repeats no sooner than 292 years later: one boundary) */
	m->tiny = 0;
	uint32_t bc = vf_rnd_n(r, 60);
	if (bc == 0) { m->tiny = 1; m->interval = 1; interval_arg = 0; atomic_fetch_add_explicit(&m->t->tiny_intervals, 1, memory_order_relaxed); }
	else if (bc < 4) { m->interval = INT64_MAX; interval_arg = (uint64_t)INT64_MAX + 1 + vf_rnd_n(r, 1000); atomic_fetch_add_explicit(&m->t->huge_intervals, 1, memory_order_relaxed); }
	if (vf_rnd_n(r, 12) == 0) { leeway = vf_rnd_n(r, 2) ? UINT64_MAX : (uint64_t)INT64_MAX + vf_rnd_n(r, 1000); atomic_fetch_add_explicit(&m->t->huge_leeways, 1, memory_order_relaxed); }
	dispatch_time_t when;
	if (allow_never && vf_rnd_n(r, 12) == 0) {
		m->never_fire = 1; m->must_fire = 0; m->start = 0;
		when = vf_rnd_n(r, 2) ? DISPATCH_TIME_FOREVER : vf_make_deadline(m->clk, 3600ll * 1000000000ll, 0);
	} else {
		m->never_fire = 0;
		int variant = (int)vf_rnd_n(r, 2);
		if (delta == 0 && vf_rnd_n(r, 2)) {
			/* the literal "now" constants: the library reads the clock itself, no earlier than this reading */
			m->start = vf_now_ns(clk_id(m->clk));
			when = m->clk == VF_CLK_WALL ? DISPATCH_WALLTIME_NOW : m->clk == VF_CLK_MONO ? (dispatch_time_t)(1ull << 63) : DISPATCH_TIME_NOW;
			atomic_fetch_add_explicit(&m->t->literal_now, 1, memory_order_relaxed);
		} else {
			when = vf_make_deadline(m->clk, delta, variant);
			vf_deadline_t d = vf_decode_time(when);
			if (d.kind != m->clk) vf_fail("deadline decoded to clock %d, expected %d", d.kind, m->clk);
			m->start = d.value;
		}
	}
	m->total = 0;
	m->gen++;
	dispatch_source_set_timer(m->ds, when, interval_arg, leeway);
}

static void timer_handler(void *ctx)
{
	tmr_t *m = ctx;
	ttrial_t *t = m->t;
	uint64_t now = vf_now_ns(clk_id(m->clk));
	if (atomic_exchange(&m->in_handler, 1)) vf_violation("C15:handler-reentered:timer", "timer event handler running on two threads at once");
	unsigned long data = dispatch_source_get_data(m->ds);
	uint32_t f = atomic_fetch_add(&m->fires, 1);
	atomic_fetch_add_explicit(&t->fires_total, 1, memory_order_relaxed);
	if (atomic_load(&m->cancel_ran)) vf_violation("C16:event-handler-after-cancel-handler:timer", "timer handler invoked after its cancel handler ran");
	if (m->never_fire) {
		vf_violation("C11:timer-set-to-forever-fired", "timer whose start is DISPATCH_TIME_FOREVER / one hour ahead fired (data %lu)", data);
	} else {
		if (now < m->start) {
			atomic_fetch_add(&t->early, 1);
			char key[96];
			snprintf(key, sizeof(key), "C11:timer-fired-early:%s%s", vf_clk_names[m->clk], m->gen > 1 ? ":after-set_timer" : "");
			vf_violation(key, "timer handler invoked %llu ns before its start time on the %s clock (start %llu, now %llu, interval %llu, settings generation %d set %s, %s)",
					(unsigned long long)(m->start - now), vf_clk_names[m->clk], (unsigned long long)m->start, (unsigned long long)now, (unsigned long long)m->interval, m->gen, m->cfg_path ? m->cfg_path : "?", t->prof.desc);
		}
		if (data == 0) vf_violation("C11:timer-handler-with-zero-data", "timer handler invoked with dispatch_source_get_data() == 0");
		m->total += data;
		uint64_t bound = m->interval ? (now >= m->start ? (now - m->start) / m->interval + 1 : 0) : 1;
		if (now >= m->start && m->total > bound) {
			vf_violation(m->interval ? "C11:timer-count-exceeds-interval-boundaries" : "C11:one-shot-timer-count-exceeds-one",
					"cumulative dispatch_source_get_data %llu exceeds the %llu interval boundaries passed since the start (now-start %llu ns, interval %llu ns, %s clock, generation %d)",
					(unsigned long long)m->total, (unsigned long long)bound, (unsigned long long)(now - m->start), (unsigned long long)m->interval, vf_clk_names[m->clk], m->gen);
			(void)m->cfg_path;
		}
	}
	if (f == 0) {
		m->first_fire_stamp = vf_stamp();
		if (m->must_fire) atomic_fetch_add_explicit(&t->must_fire_done, 1, memory_order_release);
	}
	/* history: re-arm from the handler, suspend (resumed by another queue), cancel */
	uint32_t c = vf_rnd_n(&m->rng, 100);
	if (m->rearm_left > 0 && c < 25 && !atomic_load(&m->cancelled)) {
		m->rearm_left--;
		atomic_fetch_add_explicit(&t->rearms, 1, memory_order_relaxed);
		program_timer(m, &m->rng, 0, "from the handler");
	} else if (c < 30 && m->interval && !atomic_load(&m->cancelled)) {
		/* suspend from the handler; resume later from a global queue. Half of the time the settings are
		 * replaced while the source is suspended (no handler invocation can start before the resume, so
		 * everything that runs afterwards has to follow the new settings only — even if the old settings
		 * expired in the meantime) */
		atomic_fetch_add_explicit(&t->resumes_pending, 1, memory_order_relaxed);
		dispatch_suspend(m->ds);
		dispatch_source_t ds = m->ds;
		int reprogram = m->rearm_left > 0 && vf_rnd_n(&m->rng, 2);
		if (reprogram) { m->rearm_left--; atomic_fetch_add_explicit(&t->rearms_suspended, 1, memory_order_relaxed); }
		uint64_t rseed = vf_rnd(&m->rng);
		dispatch_after(dispatch_time(DISPATCH_TIME_NOW, (int64_t)vf_rnd_range(&m->rng, 50000, 3000000)), dispatch_get_global_queue(0, 0), ^{
			if (reprogram) {
				while (atomic_load(&m->in_handler)) sched_yield();
				vf_rng_t r2; vf_rng_seed(&r2, rseed, 1);
				/* let the old settings expire while suspended now and then */
				if (vf_rnd_n(&r2, 2)) { struct timespec ts = { 0, (long)vf_rnd_range(&r2, 100000, 2000000) }; nanosleep(&ts, NULL); }
				program_timer(m, &r2, 0, "while suspended, by the resuming thread");
			}
			dispatch_resume(ds);
			atomic_fetch_sub_explicit(&t->resumes_pending, 1, memory_order_release);
		});
	} else if (((c < 36 && f > 2) || (m->tiny && f >= 3)) && m->interval) {
		atomic_store(&m->cancelled, 1);
		dispatch_source_cancel(m->ds);
	}
	vf_progress();
	atomic_store(&m->in_handler, 0);
}

/* settings replaced from an item on the timer's serial target queue: no handler invocation can be running or start
 * until the item returns, and later invocations follow the new settings only */
static void rearm_from_target_item(void *ctx)
{
	tmr_t *m = ctx;
	if (atomic_load(&m->cancelled) || atomic_load(&m->cancel_ran) || m->never_fire) return;
	atomic_fetch_add_explicit(&m->t->rearms_from_target, 1, memory_order_relaxed);
	program_timer(m, &m->rng, 0, "from an item on the serialising target queue");
}

static void timer_cancel_handler(void *ctx)
{
	tmr_t *m = ctx;
	if (atomic_fetch_add(&m->cancel_ran, 1)) vf_violation("C16:cancel-handler-ran-twice:timer", "timer cancel handler ran twice");
	if (atomic_load(&m->in_handler)) vf_violation("C16:cancel-handler-during-event-handler:timer", "timer cancel handler ran while the event handler was running");
	vf_progress();
	atomic_fetch_add_explicit(&m->t->cancel_done, 1, memory_order_release);
}

typedef struct { ttrial_t *t; int clk; uint64_t deadline; _Atomic uint32_t runs; } aft_t;
static void after_body(void *ctx)
{
	aft_t *a = ctx;
	uint64_t now = vf_now_ns(clk_id(a->clk));
	if (atomic_fetch_add(&a->runs, 1)) vf_violation("C11:dispatch_after-ran-twice", "dispatch_after block ran twice");
	if (now < a->deadline) {
		char key[64]; snprintf(key, sizeof(key), "C11:dispatch_after-early:%s", vf_clk_names[a->clk]);
		vf_violation(key, "dispatch_after block ran %llu ns before its deadline on the %s clock", (unsigned long long)(a->deadline - now), vf_clk_names[a->clk]);
	}
	vf_progress();
	atomic_fetch_add_explicit(&a->t->after_done, 1, memory_order_release);
}

static void run_trial(int idx)
{
	ttrial_t *t = calloc(1, sizeof(*t));
	vf_rng_t r;
	vf_rng_seed(&r, vf_opts.seed, (uint64_t)idx * 8191 + 67);
	t->salt = vf_rnd(&r) | 1;
	vf_perturb_draw(&r, &t->prof);
	t->qs[0] = dispatch_queue_create("vf.timer.serial", DISPATCH_QUEUE_SERIAL);
	t->qs[1] = dispatch_queue_create("vf.timer.conc", DISPATCH_QUEUE_CONCURRENT);
	t->qs[2] = dispatch_get_global_queue(DISPATCH_QUEUE_PRIORITY_DEFAULT, 0);
	t->qs[3] = (dispatch_queue_t)dispatch_workloop_create("vf.timer.workloop");
	{
		dispatch_queue_t base = vf_rnd_n(&r, 2) ? dispatch_queue_create("vf.timer.base", DISPATCH_QUEUE_SERIAL) : (dispatch_queue_t)dispatch_workloop_create("vf.timer.base-workloop");
		t->qs[4] = dispatch_queue_create_with_target("vf.timer.serial-over-serial", DISPATCH_QUEUE_SERIAL, base);
		dispatch_release(base);
	}
	static const int pops[] = { 1, 3, 9, 20, 40, 70, 150, 300, 500 };
	t->n = pops[vf_rnd_n(&r, 9)];
	if (vf_opts.scale < 100 && t->n > 150) t->n = 150;
	t->tm = calloc((size_t)t->n, sizeof(tmr_t));
	uint64_t must = 0;
	for (int i = 0; i < t->n; i++) {
		tmr_t *m = &t->tm[i];
		m->t = t; m->clk = (int)vf_rnd_n(&r, 3); m->qi = (int)vf_rnd_n(&r, 5);
		vf_rng_seed(&m->rng, t->salt, (uint64_t)i);
		m->ds = dispatch_source_create(DISPATCH_SOURCE_TYPE_TIMER, 0, vf_rnd_n(&r, 4) == 0 ? DISPATCH_TIMER_STRICT : 0, t->qs[m->qi]);
		if (!m->ds) vf_fail("dispatch_source_create(TIMER) failed");
		dispatch_set_context(m->ds, m);
		if (vf_rnd_n(&r, 3) == 0) {
			dispatch_source_set_event_handler(m->ds, ^{ timer_handler(m); });
			dispatch_source_set_cancel_handler(m->ds, ^{ timer_cancel_handler(m); });
		} else {
			dispatch_source_set_event_handler_f(m->ds, timer_handler);
			dispatch_source_set_cancel_handler_f(m->ds, timer_cancel_handler);
		}
		m->rearm_left = (int)vf_rnd_n(&r, 4);
		m->must_fire = 1;
		program_timer(m, &r, 1, "initial");
		m->gen = 1;
		if (m->never_fire) m->must_fire = 0;
		if (m->must_fire) must++;
	}
	/* activate in random order, some after a suspend/resume dance */
	vf_watch_begin("timer:population", 2000);
	for (int i = 0; i < t->n; i++) {
		tmr_t *m = &t->tm[i];
		if (vf_rnd_n(&r, 5) == 0) { dispatch_suspend(m->ds); dispatch_activate(m->ds); dispatch_resume(m->ds); }
		else if (vf_rnd_n(&r, 2)) dispatch_activate(m->ds);
		else dispatch_resume(m->ds);
	}
	/* dispatch_after storm on three clocks */
	int na = (int)vf_rnd_range(&r, 10, 200);
	aft_t *af = calloc((size_t)na, sizeof(aft_t));
	for (int i = 0; i < na; i++) {
		aft_t *a = &af[i];
		a->t = t; a->clk = (int)vf_rnd_n(&r, 3);
		int64_t delta = vf_rnd_n(&r, 8) == 0 ? -(int64_t)vf_rnd_n(&r, 1000000) : (int64_t)vf_rnd_range(&r, 0, 80000000) * vf_opts.scale / 100;
		dispatch_time_t when = vf_make_deadline(a->clk, delta, (int)vf_rnd_n(&r, 2));
		a->deadline = vf_decode_time(when).value;
		if (vf_rnd_n(&r, 16) == 0) {
			a->deadline = vf_now_ns(clk_id(a->clk));
			when = a->clk == VF_CLK_WALL ? DISPATCH_WALLTIME_NOW : a->clk == VF_CLK_MONO ? (dispatch_time_t)(1ull << 63) : DISPATCH_TIME_NOW;
		}
		if (vf_rnd_n(&r, 2)) dispatch_after_f(when, t->qs[vf_rnd_n(&r, 5)], a, after_body);
		else dispatch_after(when, t->qs[vf_rnd_n(&r, 5)], ^{ after_body(a); });
	}
	/* foreign history while timers fire: suspend/resume pairs and cancels on random members */
	int hist = t->n / 2 + 2;
	for (int k = 0; k < hist; k++) {
		tmr_t *m = &t->tm[vf_rnd_n(&r, (uint32_t)t->n)];
		uint32_t c = vf_rnd_n(&r, 4);
		if (c == 3) {
			if ((m->qi == 0 || m->qi >= 3) && !atomic_load(&m->cancelled)) dispatch_async_f(t->qs[m->qi], m, rearm_from_target_item);
		} else if (c == 0 && !atomic_load(&m->cancelled)) {
			dispatch_suspend(m->ds);
			vf_spin_ns(vf_rnd_n(&r, 200000));
			dispatch_resume(m->ds);
		} else if (c == 1 && !m->must_fire) {
			atomic_store(&m->cancelled, 1);
			dispatch_source_cancel(m->ds);
		}
		struct timespec ts = { 0, (long)vf_rnd_range(&r, 10000, 400000) };
		nanosleep(&ts, NULL);
	}
	vf_watch_end();
	/* every armed, unsuspended, uncancelled timer with a finite deadline must fire: latest deadline is
	 * <= 250 ms away; lateness is no violation, only never firing is (stuck witness) */
	vf_watch_begin("timer:armed-timer-must-fire", 1500);
	while (atomic_load_explicit(&t->must_fire_done, memory_order_acquire) < must) { struct timespec ts = { 0, 500000 }; nanosleep(&ts, NULL); }
	vf_watch_end();
	vf_watch_begin("timer:dispatch_after-must-run", 1500);
	while (atomic_load_explicit(&t->after_done, memory_order_acquire) < (uint64_t)na) { struct timespec ts = { 0, 500000 }; nanosleep(&ts, NULL); }
	vf_watch_end();
	/* tear down: cancel everything, cancel handlers must all run exactly once */
	vf_watch_begin("timer:cancel-handlers", 3100);
	for (int i = 0; i < t->n; i++) { atomic_store(&t->tm[i].cancelled, 1); dispatch_source_cancel(t->tm[i].ds); }
	while (atomic_load_explicit(&t->cancel_done, memory_order_acquire) < (uint64_t)t->n) { struct timespec ts = { 0, 500000 }; nanosleep(&ts, NULL); }
	vf_watch_end();
	/* a source must not be released while a suspension is outstanding (API rule): the library may run the cancel
	 * handler of a source that its own last handler invocation suspended, so wait for the balancing resumes too */
	vf_watch_begin("timer:balancing-resumes", 3100);
	while (atomic_load_explicit(&t->resumes_pending, memory_order_acquire)) { struct timespec ts = { 0, 200000 }; nanosleep(&ts, NULL); }
	vf_watch_end();
	vf_perturb_off();
	uint64_t nf = 0;
	for (int i = 0; i < t->n; i++) {
		tmr_t *m = &t->tm[i];
		if (m->never_fire && atomic_load(&m->fires)) nf++;
		dispatch_release(m->ds);
	}
	for (int i = 0; i < na; i++) if (atomic_load(&af[i].runs) != 1) vf_violation("C11:dispatch_after-count", "dispatch_after block ran %u times", atomic_load(&af[i].runs));
	vf_count("timers", (uint64_t)t->n);
	vf_count("timers_that_had_to_fire", must);
	vf_count("timer_fires", atomic_load(&t->fires_total));
	vf_count("rearms_from_handler", atomic_load(&t->rearms));
	vf_count("rearms_while_suspended", atomic_load(&t->rearms_suspended));
	vf_count("rearms_switching_clock", atomic_load(&t->clock_switches));
	vf_count("rearms_from_serial_target_item", atomic_load(&t->rearms_from_target));
	vf_count("dispatch_after_blocks", (uint64_t)na);
	vf_count("timers_started_at_literal_now", atomic_load(&t->literal_now));
	vf_count("timers_with_interval_0_meaning_1ns", atomic_load(&t->tiny_intervals));
	vf_count("timers_with_interval_above_INT64_MAX", atomic_load(&t->huge_intervals));
	vf_count("timers_with_leeway_above_INT64_MAX", atomic_load(&t->huge_leeways));
	vf_count("items", atomic_load(&t->fires_total) + (uint64_t)na);
	vf_emit("trial", "\"n\":1,\"sig\":\"tmr-%d-%d-%d-%d\",\"nontrivial\":%s,\"sample\":{\"trial\":%d,\"timers\":%d,\"had_to_fire\":%llu,\"fires\":%llu,\"rearms_from_handler\":%llu,\"dispatch_after\":%d,\"heap_max_entries\":%llu,\"perturb\":\"%s\"}",
			vf_log2_bucket((uint64_t)t->n), t->prof.kind, vf_log2_bucket(atomic_load(&t->fires_total)), vf_log2_bucket(atomic_load(&t->rearms)),
			t->n >= 9 ? "true" : "false", idx, t->n, (unsigned long long)must, (unsigned long long)atomic_load(&t->fires_total),
			(unsigned long long)atomic_load(&t->rearms), na, (unsigned long long)atomic_load(&h_maxcount), t->prof.desc);
	/* let the sources finish disposing before the queues go away */
	dispatch_barrier_sync(t->qs[0], ^{}); dispatch_barrier_sync(t->qs[1], ^{}); dispatch_barrier_sync(t->qs[4], ^{});
	dispatch_async_and_wait(t->qs[3], ^{});
	dispatch_release(t->qs[0]); dispatch_release(t->qs[1]); dispatch_release(t->qs[3]); dispatch_release(t->qs[4]);
	free(af);
	/* timer contexts may still be referenced by a late resume block: keep t->tm until the process ends (bounded leak) */
	(void)nf;
}

int main(int argc, char **argv)
{
	vf_init(argc, argv, "h_timer");
	_dispatch_verif_timer_heap_hook = heap_cb;
	for (int i = 0; i < vf_opts.trials; i++) run_trial(vf_opts.first_trial + i);
	vf_count("heap_validations", atomic_load(&h_calls));
	vf_count("heap_max_slots_seen_sum", atomic_load(&h_maxcount));
	vf_count("heap_segment_grows", atomic_load(&h_grow));
	vf_count("heap_segment_shrinks", atomic_load(&h_shrink));
	vf_count("heap_arm_at_root", atomic_load(&h_arm_at_root));
	vf_count("heap_arm_below_root", atomic_load(&h_arm_inner));
	vf_count("heap_disarms", atomic_load(&h_disarm));
	return vf_finish();
}
