/*
 * h_transform.c — C20: dispatch_data_create_with_transform round-trips and stays in bounds.
 *
 * Oracle: independent reference codecs (RFC 4648 Base32/Base32Hex/Base64, UTF-8 <-> UTF-16LE/BE)
 * written here, the round-trip relations of the property, the "NULL or the inverse accepts"
 * relation for arbitrary input, all evaluated over fragmentations of the input into
 * dispatch_data regions. Every region is its own exact-size malloc block (ASan red zones on
 * both sides); the asan flavor is the memory oracle. One process = one --mode (input class),
 * because a sanitizer report ends the process.
 *
 * Modes: base32 base32hex base64 utf8to16 utf8iso utf16even utf16odd utfany adversarial adv8any
 *        adv16odd adv16tail chain incompat exhaustive (classes are split where a known crash would otherwise
 *        end the process before the rest of the class is explored)
 * Options: --maxlen=N (largest random input), --nrand=N (random inputs per trial),
 *          --flush=N (emit the aggregated trial lines every N trials)
 *
 * What is judged (see the rule text in vf/p_C20.py):
 *  - none->baseN output == reference encoding, for every fragmentation
 *  - baseN->none of the library's own encoding == original bytes, for every fragmentation
 *  - well-formed UTF-8 -> UTF-16LE/BE -> UTF-8 == original modulo ONE leading BOM, for every
 *    fragmentation of the UTF-8 input and of the UTF-16 intermediate (the intermediate is the
 *    library's own output, re-split)
 *  - arbitrary input, every supported pair: NULL, or a result whose size is backed by memory
 *    and which the inverse pair accepts
 *  - incompatible pairs -> NULL
 * What is NOT judged: outcomes of malformed input differing between fragmentations (the
 * property's "independent of how the input is fragmented" belongs to the round-trip sentence;
 * for arbitrary input it only demands NULL-or-inverse-accepts per fragmentation). Those are
 * counted (note_fragmentation_dependent_malformed) and sampled, never reported.
 */
#include "vf_common.h"
#include <dispatch/dispatch.h>
#include <dispatch/private.h>
#include <signal.h>

/* ------------------------------------------------------------------ formats */
enum { F_NONE, F_B32, F_B32HEX, F_B64, F_UTF8, F_U16LE, F_U16BE, F_ANY, F_N };
static const char *const fname[F_N] = { "none", "base32", "base32hex", "base64", "utf8", "utf16le", "utf16be", "utf-any" };
/* name used in violation keys: both byte orders share one code path and one key */
static const char *const kname[F_N] = { "none", "base32", "base32hex", "base64", "utf8", "utf16", "utf16", "utf-any" };

static dispatch_data_format_type_t ftype(int f)
{
	switch (f) {
	case F_NONE: return DISPATCH_DATA_FORMAT_TYPE_NONE;
	case F_B32: return DISPATCH_DATA_FORMAT_TYPE_BASE32;
	case F_B32HEX: return DISPATCH_DATA_FORMAT_TYPE_BASE32HEX;
	case F_B64: return DISPATCH_DATA_FORMAT_TYPE_BASE64;
	case F_UTF8: return DISPATCH_DATA_FORMAT_TYPE_UTF8;
	case F_U16LE: return DISPATCH_DATA_FORMAT_TYPE_UTF16LE;
	case F_U16BE: return DISPATCH_DATA_FORMAT_TYPE_UTF16BE;
	default: return DISPATCH_DATA_FORMAT_TYPE_UTF_ANY;
	}
}
static bool is_utf(int f) { return f >= F_UTF8; }
static bool is_u16(int f) { return f == F_U16LE || f == F_U16BE; }
static bool is_basen(int f) { return f == F_B32 || f == F_B32HEX || f == F_B64; }
/* documented compatibility: {none, base32, base32hex, base64} among themselves, UTF types among
 * themselves, UTF_ANY only as an input */
static bool supported(int fi, int fo) { return fo != F_ANY && is_utf(fi) == is_utf(fo); }

/* ------------------------------------------------------------------ byte buffers */
typedef struct { uint8_t *p; size_t n, cap; } buf_t;
static void buf_reserve(buf_t *b, size_t add)
{
	if (b->n + add + 1 > b->cap) {
		size_t c = b->cap ? b->cap * 2 : 64;
		while (c < b->n + add + 1) c *= 2;
		b->p = realloc(b->p, c);
		if (!b->p) vf_fail("out of memory");
		b->cap = c;
	}
}
static void buf_put(buf_t *b, uint8_t c) { buf_reserve(b, 1); b->p[b->n++] = c; }
static void buf_add(buf_t *b, const void *s, size_t n) { buf_reserve(b, n); if (n) memcpy(b->p + b->n, s, n); b->n += n; }
static void buf_reset(buf_t *b) { b->n = 0; }
static void buf_free(buf_t *b) { free(b->p); b->p = NULL; b->n = b->cap = 0; }
static bool buf_eq(const buf_t *a, const uint8_t *p, size_t n) { return a->n == n && (n == 0 || memcmp(a->p, p, n) == 0); }

static const char *hexs(char *dst, size_t cap, const uint8_t *p, size_t n)
{
	size_t lim = (cap - 24) / 2, m = n < lim ? n : lim, o = 0;
	if (m > 48) m = 48;
	for (size_t i = 0; i < m; i++) o += (size_t)snprintf(dst + o, cap - o, "%02x", p[i]);
	if (m < n) o += (size_t)snprintf(dst + o, cap - o, "..(%zu bytes)", n);
	if (n == 0) snprintf(dst, cap, "(empty)");
	return dst;
}
static const char *sizes_str(char *dst, size_t cap, const size_t *sz, size_t k)
{
	size_t o = 0;
	o += (size_t)snprintf(dst + o, cap - o, "[");
	for (size_t i = 0; i < k && i < 14 && o + 16 < cap; i++) o += (size_t)snprintf(dst + o, cap - o, "%s%zu", i ? "," : "", sz[i]);
	if (k > 14) o += (size_t)snprintf(dst + o, cap - o, ",..%zu regions", k);
	snprintf(dst + o, cap - o, "]");
	return dst;
}

/* ------------------------------------------------------------------ reference codecs */
static const char A32[] = "ABCDEFGHIJKLMNOPQRSTUVWXYZ234567";
static const char A32H[] = "0123456789ABCDEFGHIJKLMNOPQRSTUV";
static const char A64[] = "ABCDEFGHIJKLMNOPQRSTUVWXYZabcdefghijklmnopqrstuvwxyz0123456789+/";
static const char *alpha_of(int f) { return f == F_B32 ? A32 : f == F_B32HEX ? A32H : A64; }
static int bits_of(int f) { return f == F_B64 ? 6 : 5; }
static int gchars_of(int f) { return f == F_B64 ? 4 : 8; }   /* characters per full group */
static int gbytes_of(int f) { return f == F_B64 ? 3 : 5; }   /* bytes per full group */

/* RFC 4648 encoder as a bit pump: append 8 bits per byte, emit `bits` at a time, zero-fill the
 * last symbol, pad with '=' to a whole group */
static void ref_basen_encode(int f, const uint8_t *in, size_t n, buf_t *out)
{
	const char *al = alpha_of(f);
	int bits = bits_of(f), g = gchars_of(f), nb = 0;
	uint64_t acc = 0;
	size_t nch = 0;
	for (size_t i = 0; i < n; i++) {
		acc = ((acc << 8) | in[i]) & 0xffffff;
		nb += 8;
		while (nb >= bits) { buf_put(out, (uint8_t)al[(acc >> (nb - bits)) & ((1u << bits) - 1)]); nb -= bits; nch++; }
	}
	if (nb > 0) { buf_put(out, (uint8_t)al[(acc << (bits - nb)) & ((1u << bits) - 1)]); nch++; }
	while (nch % (size_t)g) { buf_put(out, '='); nch++; }
}
/* strict canonical decoder (no whitespace, padding only at the end of the last group) */
static bool ref_basen_decode(int f, const uint8_t *t, size_t n, buf_t *out)
{
	const char *al = alpha_of(f);
	int bits = bits_of(f), g = gchars_of(f), nb = 0;
	uint64_t acc = 0;
	if (n % (size_t)g) return false;
	size_t ndata = n;
	while (ndata > 0 && t[ndata - 1] == '=') ndata--;
	if (n - ndata >= (size_t)g) return false;
	size_t tail = ndata % (size_t)g;   /* data characters in the last, padded group */
	if (f == F_B64 ? (tail == 1) : (tail == 1 || tail == 3 || tail == 6)) return false;
	for (size_t i = 0; i < ndata; i++) {
		const char *q = t[i] ? strchr(al, t[i]) : NULL;
		if (!q) return false;
		acc = ((acc << bits) | (uint64_t)(q - al)) & 0xffffff;
		nb += bits;
		if (nb >= 8) { buf_put(out, (uint8_t)((acc >> (nb - 8)) & 0xff)); nb -= 8; }
	}
	return true;
}

static void ref_utf8_put(buf_t *o, uint32_t c)
{
	if (c < 0x80) buf_put(o, (uint8_t)c);
	else if (c < 0x800) { buf_put(o, (uint8_t)(0xc0 | (c >> 6))); buf_put(o, (uint8_t)(0x80 | (c & 0x3f))); }
	else if (c < 0x10000) { buf_put(o, (uint8_t)(0xe0 | (c >> 12))); buf_put(o, (uint8_t)(0x80 | ((c >> 6) & 0x3f))); buf_put(o, (uint8_t)(0x80 | (c & 0x3f))); }
	else { buf_put(o, (uint8_t)(0xf0 | (c >> 18))); buf_put(o, (uint8_t)(0x80 | ((c >> 12) & 0x3f))); buf_put(o, (uint8_t)(0x80 | ((c >> 6) & 0x3f))); buf_put(o, (uint8_t)(0x80 | (c & 0x3f))); }
}
/* strict UTF-8 (Unicode table 3-7): returns number of code points or -1; cps may be NULL */
static long ref_utf8_decode(const uint8_t *s, size_t n, uint32_t *cps)
{
	long k = 0;
	for (size_t i = 0; i < n;) {
		uint8_t b = s[i];
		uint32_t c, min; int len;
		if (b < 0x80) { c = b; len = 1; min = 0; }
		else if (b >= 0xc2 && b <= 0xdf) { c = b & 0x1f; len = 2; min = 0x80; }
		else if (b >= 0xe0 && b <= 0xef) { c = b & 0x0f; len = 3; min = 0x800; }
		else if (b >= 0xf0 && b <= 0xf4) { c = b & 0x07; len = 4; min = 0x10000; }
		else return -1;
		if (i + (size_t)len > n) return -1;
		for (int j = 1; j < len; j++) { if ((s[i + (size_t)j] & 0xc0) != 0x80) return -1; c = (c << 6) | (s[i + (size_t)j] & 0x3f); }
		if (c < min || c > 0x10ffff || (c >= 0xd800 && c <= 0xdfff)) return -1;
		if (cps) cps[k] = c;
		k++; i += (size_t)len;
	}
	return k;
}
static void ref_u16_put_unit(buf_t *o, uint32_t u, int f)
{
	if (f == F_U16LE) { buf_put(o, (uint8_t)(u & 0xff)); buf_put(o, (uint8_t)(u >> 8)); }
	else { buf_put(o, (uint8_t)(u >> 8)); buf_put(o, (uint8_t)(u & 0xff)); }
}
static void ref_u16_put(buf_t *o, uint32_t c, int f)
{
	if (c < 0x10000) ref_u16_put_unit(o, c, f);
	else { c -= 0x10000; ref_u16_put_unit(o, 0xd800 + (c >> 10), f); ref_u16_put_unit(o, 0xdc00 + (c & 0x3ff), f); }
}
static uint32_t u16_unit(const uint8_t *p, int f) { return f == F_U16LE ? (uint32_t)(p[0] | (p[1] << 8)) : (uint32_t)((p[0] << 8) | p[1]); }
/* strict UTF-16 validation; on failure *why names the first defect, *unit the offending unit */
static long ref_u16_decode(const uint8_t *s, size_t n, int f, uint32_t *cps, const char **why, uint32_t *unit)
{
	long k = 0;
	if (n % 2) { if (why) *why = "odd-length"; if (unit) *unit = 0; return -1; }
	for (size_t i = 0; i < n; i += 2) {
		uint32_t u = u16_unit(s + i, f);
		if (u >= 0xd800 && u <= 0xdbff) {
			uint32_t v = i + 4 <= n ? u16_unit(s + i + 2, f) : 0;
			if (v < 0xdc00 || v > 0xdfff) { if (why) *why = "lone-high-surrogate"; if (unit) *unit = u; return -1; }
			u = 0x10000 + ((u - 0xd800) << 10) + (v - 0xdc00);
			i += 2;
		} else if (u >= 0xdc00 && u <= 0xdfff) { if (why) *why = "lone-low-surrogate"; if (unit) *unit = u; return -1; }
		if (cps) cps[k] = u;
		k++;
	}
	return k;
}

/* ------------------------------------------------------------------ current case (crash witness) */
static struct {
	const char *stage;
	int fi, fo, trial;
	const uint8_t *b; size_t n;      /* the bytes the case started from */
	const size_t *sz; size_t k;      /* region sizes of the input of the call in progress (NULL: library object) */
} g_cur;

static void dump_case(const char *field)
{
	static char line[1024], hx[160], ss[200];
	int o = snprintf(line, sizeof(line),
			"{\"type\":\"extra\",\"harness\":\"h_transform\",\"%s\":\"mode=%s trial=%d stage=%s in=%s out=%s len=%zu hex=%s regions=%s\"}\n",
			field, vf_opts.mode, g_cur.trial, g_cur.stage ? g_cur.stage : "?", fname[g_cur.fi], fname[g_cur.fo], g_cur.n,
			g_cur.b ? hexs(hx, sizeof(hx), g_cur.b, g_cur.n) : "?",
			g_cur.sz ? sizes_str(ss, sizeof(ss), g_cur.sz, g_cur.k) : (g_cur.k ? "(library result object)" : "[]"));
	if (o > 0) { ssize_t w = write(1, line, (size_t)o < sizeof(line) ? (size_t)o : sizeof(line) - 1); (void)w; }
}
#if VF_ASAN
void __asan_on_error(void);
void __asan_on_error(void) { dump_case("asan_case"); }
#else
static struct sigaction g_old_sa[65];
static void crash_witness(int sig, siginfo_t *si, void *uc)
{
	dump_case("crash_case");
	if (sig > 0 && sig < 65 && (g_old_sa[sig].sa_flags & SA_SIGINFO) && g_old_sa[sig].sa_sigaction) g_old_sa[sig].sa_sigaction(sig, si, uc);
	signal(sig, SIG_DFL);
	raise(sig);
}
#endif
static void install_witness(void)
{
#if !VF_ASAN
	static const int sigs[] = { SIGSEGV, SIGBUS, SIGABRT, SIGILL, SIGFPE };
	for (size_t i = 0; i < sizeof(sigs) / sizeof(*sigs); i++) {
		struct sigaction sa;
		memset(&sa, 0, sizeof(sa));
		sa.sa_sigaction = crash_witness;
		sa.sa_flags = SA_SIGINFO | SA_RESETHAND | SA_NODEFER;
		sigaction(sigs[i], &sa, &g_old_sa[sigs[i]]);
	}
#endif
}

/* ------------------------------------------------------------------ data objects */
/* one exact-size heap block per region; balanced concatenation (the result is a flat record list) */
static dispatch_data_t make_range(const uint8_t *b, const size_t *sz, const size_t *off, size_t lo, size_t hi)
{
	if (hi - lo == 1) {
		uint8_t *p = malloc(sz[lo]);
		if (!p) vf_fail("out of memory");
		memcpy(p, b + off[lo], sz[lo]);
		return dispatch_data_create(p, sz[lo], NULL, DISPATCH_DATA_DESTRUCTOR_FREE);
	}
	size_t mid = lo + (hi - lo) / 2;
	dispatch_data_t l = make_range(b, sz, off, lo, mid), r = make_range(b, sz, off, mid, hi);
	dispatch_data_t c = dispatch_data_create_concat(l, r);
	dispatch_release(l); dispatch_release(r);
	return c;
}
static dispatch_data_t make_data(const uint8_t *b, const size_t *sz, size_t k)
{
	if (k == 0) return dispatch_data_empty;
	size_t *off = malloc(k * sizeof(size_t)), o = 0;
	for (size_t i = 0; i < k; i++) { off[i] = o; o += sz[i]; }
	dispatch_data_t d = make_range(b, sz, off, 0, k);
	free(off);
	return d;
}

static uint64_t g_calls;
static dispatch_data_t xform(dispatch_data_t d, int fi, int fo, const char *stage, const size_t *sz, size_t k)
{
	g_cur.stage = stage; g_cur.fi = fi; g_cur.fo = fo; g_cur.sz = sz; g_cur.k = k;
	g_calls++;
	dispatch_data_t r = dispatch_data_create_with_transform(d, ftype(fi), ftype(fo));
	vf_progress();
	return r;
}
/* transform bytes b[0..n) split as sz[0..k) */
static dispatch_data_t xform_bytes(const uint8_t *b, size_t n, const size_t *sz, size_t k, int fi, int fo, const char *stage)
{
	(void)n;
	dispatch_data_t d = make_data(b, sz, k);
	dispatch_data_t r = xform(d, fi, fo, stage, sz, k);
	dispatch_release(d);
	return r;
}

/* Read a result without trusting its size fields: RK_BOGUS when the object claims more bytes
 * than any transform of an input of in_n bytes can produce (the size is then not backed by
 * memory; touching it would be the harness's own out-of-bounds read). */
enum { RK_NULL, RK_OK, RK_BOGUS };
static int read_result(dispatch_data_t r, size_t in_n, buf_t *out, size_t *claimed)
{
	buf_reset(out);
	if (claimed) *claimed = 0;
	if (!r) return RK_NULL;
	size_t bound = in_n * 8 + 64, total = dispatch_data_get_size(r);
	if (claimed) *claimed = total;
	if (total > bound) return RK_BOGUS;
	/* every legitimate zero-size object is the dispatch_data_empty singleton (create, subrange and concat all
	 * return it); another object of size 0 is a composite whose record lengths wrapped around */
	if (total == 0 && r != dispatch_data_empty) return RK_BOGUS;
	__block bool bad = false;
	__block size_t worst = 0;
	dispatch_data_apply(r, ^bool(dispatch_data_t region, size_t offset, const void *p, size_t len) {
		(void)region; (void)offset;
		if (len > bound || out->n + len > bound) { bad = true; worst = len; return false; }
		buf_add(out, p, len);
		return true;
	});
	if (bad) { if (claimed) *claimed = worst; return RK_BOGUS; }
	if (out->n != total) { if (claimed) *claimed = total; return RK_BOGUS; }
	return RK_OK;
}

/* ------------------------------------------------------------------ counters (flushed through vf_count at the end) */
#define COUNTERS(X) X(one_byte_regions) X(fragmentations_exhaustive) X(fragmentations_sampled) X(splits_inside_multibyte) \
	X(splits_inside_surrogate_pair) X(splits_inside_code_unit) X(splits_inside_padding) X(exhaustive_inputs) \
	X(cases_encode_vs_reference) X(cases_base32_roundtrip) X(cases_base32hex_roundtrip) X(cases_base64_roundtrip) \
	X(cases_utf8_wellformed) X(cases_utf16_refragmented) X(cases_utfany) X(cases_adversarial) X(cases_chain) \
	X(cases_incompatible) X(inverse_checks) X(results_null) X(results_nonnull) \
	X(note_fragmentation_dependent_malformed) X(note_utf16_differs_from_reference) X(note_lenient_decode_accepts_noncanonical) \
	X(inputs_total) X(input_bytes_total) X(inputs_1k_or_longer)
#define X(n) C_##n,
enum { COUNTERS(X) C_N };
#undef X
#define X(n) #n,
static const char *const g_cnames[C_N] = { COUNTERS(X) };
#undef X
static uint64_t g_cnt[C_N];
#define CNT(n) (g_cnt[C_##n]++)
static void flush_counters(void)
{
	for (int i = 0; i < C_N; i++) {
		if (g_cnt[i]) vf_count(g_cnames[i], g_cnt[i]);
		g_cnt[i] = 0;
	}
}

/* ------------------------------------------------------------------ trial bookkeeping */
/* "trial" lines aggregate cases by signature (pair, input class, fragmentation class, outcome class); the table is
 * flushed every --flush trials (and when it fills up), so that the number of output lines stays bounded */
#define TUPLE_SLOTS 8192   /* open addressing, power of two */
#define TUPLE_FULL 6000
static struct tuple { uint64_t key; char sig[112]; uint64_t n; bool nontrivial; char sample[400]; } g_tuples[TUPLE_SLOTS];
static int g_ntuples, g_batch_first = -1;
static uint64_t g_cases;

#define FEAT_MB    1u   /* cut inside a multi-byte UTF-8 sequence */
#define FEAT_PAIR  2u   /* cut between the two units of a surrogate pair */
#define FEAT_UNIT  4u   /* cut inside a UTF-16 code unit (odd offset) */
#define FEAT_PADG  8u   /* cut inside the final, padded base-N group */
#define FEAT_APAD 16u   /* cut after a '=' character */

static void flush_tuples(void)
{
	for (int i = 0; i < TUPLE_SLOTS; i++) {
		if (!g_tuples[i].n) continue;
		vf_emit("trial", "\"n\":%llu,\"trial\":%d,\"sig\":\"%s\",\"nontrivial\":%s,\"sample\":%s",
				(unsigned long long)g_tuples[i].n, g_batch_first, g_tuples[i].sig, g_tuples[i].nontrivial ? "true" : "false", g_tuples[i].sample);
		g_tuples[i].n = 0; g_tuples[i].key = 0;
	}
	g_ntuples = 0;
}
static void note_case(int fi, int fo, const char *icls, size_t k, unsigned feat, const char *kind, const char *outcome,
		const uint8_t *b, size_t n, const size_t *sz)
{
	int kb = k <= 1 ? 0 : k <= 4 ? (int)k - 1 : k <= 16 ? 4 : 5;
	static const char *const kbs[] = { "1", "2", "3", "4", "5-16", "17+" };
	uint64_t h = vf_hash64(VF_HASH_INIT, (uint64_t)fi | (uint64_t)fo << 8 | (uint64_t)kb << 16 | (uint64_t)feat << 24);
	h = vf_hash_str(vf_hash_str(vf_hash_str(h, icls) * 31, kind) * 31, outcome) | 1;
	g_cases++;
	size_t i = (size_t)(h >> 7) & (TUPLE_SLOTS - 1);
	while (g_tuples[i].n && g_tuples[i].key != h) i = (i + 1) & (TUPLE_SLOTS - 1);
	if (!g_tuples[i].n) {
		struct tuple *t = &g_tuples[i];
		char hx[128], ss[160];
		t->key = h;
		snprintf(t->sig, sizeof(t->sig), "%s>%s|%s|%s:r%s%s%s%s%s%s|%s", fname[fi], fname[fo], icls, kind, kbs[kb],
				feat & FEAT_MB ? "+mb" : "", feat & FEAT_PAIR ? "+pair" : "", feat & FEAT_UNIT ? "+unit" : "",
				feat & FEAT_PADG ? "+padgroup" : "", feat & FEAT_APAD ? "+afterpad" : "", outcome);
		t->nontrivial = k >= 2;
		snprintf(t->sample, sizeof(t->sample), "{\"pair\":\"%s>%s\",\"class\":\"%s\",\"input_hex\":\"%s\",\"regions\":\"%s\",\"outcome\":\"%s\"}",
				fname[fi], fname[fo], icls, hexs(hx, sizeof(hx), b, n), sz ? sizes_str(ss, sizeof(ss), sz, k) : "[]", outcome);
		g_ntuples++;
	}
	g_tuples[i].n++;
	if (g_ntuples >= TUPLE_FULL) flush_tuples();
}

/* ------------------------------------------------------------------ inputs and fragmentations */
typedef struct {
	const uint8_t *b; size_t n;
	uint8_t *cut;          /* cut[p], 0<p<n: FEAT_* bits of a region boundary before byte p (may be NULL) */
	const char *icls;      /* input class (static string) */
} input_t;

#define EXH_MAX 16         /* every split of inputs up to this many bytes ... */
#define EXH_PARTS 4        /* ... into up to this many regions is enumerated */
enum { PAR_ANY, PAR_EVEN, PAR_NEEDODD, PAR_MBISO, PAR_SINGLE };
/* boundary offsets: any / even only / at least one odd / any, but no region may start inside one multi-byte
 * UTF-8 sequence and end inside a different one (class split so that one defect cannot end every process) */

typedef void (^frag_fn)(const size_t *sz, size_t k, unsigned feat, const char *kind);

static void emit_cuts(const input_t *in, const size_t *cuts, size_t nc, const char *kind, bool exhaustive, frag_fn fn)
{
	size_t k = in->n ? nc + 1 : 0;
	size_t *sz = malloc((k + 1) * sizeof(size_t));
	unsigned feat = 0;
	size_t prev = 0;
	for (size_t i = 0; i < nc; i++) {
		sz[i] = cuts[i] - prev; prev = cuts[i];
		if (in->cut) feat |= in->cut[cuts[i]];
		if (sz[i] == 1) CNT(one_byte_regions);
	}
	if (k) sz[k - 1] = in->n - prev;
	if (exhaustive) CNT(fragmentations_exhaustive); else CNT(fragmentations_sampled);
	if (feat & FEAT_MB) CNT(splits_inside_multibyte);
	if (feat & FEAT_PAIR) CNT(splits_inside_surrogate_pair);
	if (feat & FEAT_UNIT) CNT(splits_inside_code_unit);
	if (feat & (FEAT_PADG | FEAT_APAD)) CNT(splits_inside_padding);
	fn(sz, k, feat, kind);
	free(sz);
}
static bool cuts_ok(const input_t *in, const size_t *cuts, size_t nc, int parity)
{
	bool odd = false;
	if (parity == PAR_ANY) return true;
	if (parity == PAR_SINGLE) return nc == 0;
	if (parity == PAR_MBISO) {
		for (size_t i = 0; in->cut && i < nc; i++) {
			size_t a = cuts[i], b = i + 1 < nc ? cuts[i + 1] : in->n;   /* the region [a, b) */
			if (!(in->cut[a] & FEAT_MB) || !(in->cut[b] & FEAT_MB)) continue;
			for (size_t p = a + 1; p < b; p++) if (!(in->cut[p] & FEAT_MB)) return false;   /* two different sequences */
		}
		return true;
	}
	for (size_t i = 0; i < nc; i++) if (cuts[i] & 1) odd = true;
	return (parity == PAR_EVEN && !odd) || (parity == PAR_NEEDODD && odd);
}
static int cmp_size(const void *a, const void *b) { size_t x = *(const size_t *)a, y = *(const size_t *)b; return x < y ? -1 : x > y; }
static size_t uniq_cuts(size_t *c, size_t nc, size_t n)
{
	qsort(c, nc, sizeof(size_t), cmp_size);
	size_t m = 0;
	for (size_t i = 0; i < nc; i++) if (c[i] > 0 && c[i] < n && (m == 0 || c[m - 1] != c[i])) c[m++] = c[i];
	return m;
}

/* The fragmentations tried for one input. n <= EXH_MAX: all compositions into <= EXH_PARTS parts
 * (restricted by parity) plus the all-smallest-regions split; longer: single region, smallest
 * regions, and nrand drawn splits (uniform cuts, runs of 1-3 byte regions, cuts at marked
 * positions = inside sequences / pairs / padding). */
static void for_each_frag(vf_rng_t *r, const input_t *in, int parity, int nrand, frag_fn fn)
{
	size_t n = in->n;
	size_t step = parity == PAR_EVEN ? 2 : 1;
	if (n == 0) { if (parity != PAR_NEEDODD) emit_cuts(in, NULL, 0, "exh", true, fn); return; }
	if (parity == PAR_SINGLE) { emit_cuts(in, NULL, 0, "single", false, fn); return; }
	if (n <= EXH_MAX) {
		size_t c[3];
		if (parity != PAR_NEEDODD) emit_cuts(in, c, 0, "exh", true, fn);
		for (size_t parts = 2; parts <= EXH_PARTS; parts++) {   /* fewest regions first: the first witness is a small one */
			for (c[0] = 1; c[0] < n; c[0]++) {
				if (parts == 2) { if (cuts_ok(in, c, 1, parity)) emit_cuts(in, c, 1, "exh", true, fn); continue; }
				for (c[1] = c[0] + 1; c[1] < n; c[1]++) {
					if (parts == 3) { if (cuts_ok(in, c, 2, parity)) emit_cuts(in, c, 2, "exh", true, fn); continue; }
					for (c[2] = c[1] + 1; c[2] < n; c[2]++)
						if (cuts_ok(in, c, 3, parity)) emit_cuts(in, c, 3, "exh", true, fn);
				}
			}
		}
		CNT(exhaustive_inputs);
		if (n > EXH_PARTS * step) {
			size_t all[EXH_MAX], m = 0;
			for (size_t p = step; p < n; p += step) all[m++] = p;
			if (cuts_ok(in, all, m, parity)) emit_cuts(in, all, m, "smallest", false, fn);
		}
		return;
	}
	size_t *c = malloc((n + 8) * sizeof(size_t)), m;
	if (parity != PAR_NEEDODD) emit_cuts(in, c, 0, "single", false, fn);
	if (n <= 1100) {
		m = 0;
		for (size_t p = step; p < n; p += step) c[m++] = p;
		if (cuts_ok(in, c, m, parity)) emit_cuts(in, c, m, "smallest", false, fn);
	}
	size_t nmarked = 0;
	if (in->cut) for (size_t p = 1; p < n; p++) if (in->cut[p]) nmarked++;
	for (int t = 0; t < nrand; t++) {
		const char *kind;
		m = 0;
		uint32_t pick = vf_rnd_n(r, 3);
		if (pick == 2 && !nmarked) pick = 0;
		if (pick == 0) {
			kind = "uniform";
			size_t want = vf_rnd_range(r, 1, 6);
			for (size_t i = 0; i < want; i++) c[m++] = 1 + vf_rnd_n(r, (uint32_t)(n - 1));
		} else if (pick == 1) {
			kind = "small-runs";
			size_t w0 = n > 300 ? vf_rnd_n(r, (uint32_t)(n - 256)) : 0, w1 = n > 300 ? w0 + 256 : n;
			for (size_t p = w0 + vf_rnd_range(r, 1, 3); p < w1; p += vf_rnd_range(r, 1, 3)) c[m++] = p;
		} else {
			kind = "marked";
			size_t want = vf_rnd_range(r, 1, 4);
			for (size_t i = 0; i < want; i++) {
				size_t j = vf_rnd_n(r, (uint32_t)nmarked), p;
				for (p = 1; p < n; p++) if (in->cut[p] && j-- == 0) break;
				c[m++] = p;
			}
			if (vf_rnd_n(r, 2)) c[m++] = 1 + vf_rnd_n(r, (uint32_t)(n - 1));
		}
		if (parity == PAR_EVEN) for (size_t i = 0; i < m; i++) c[i] &= ~(size_t)1;
		m = uniq_cuts(c, m, n);
		if (parity == PAR_NEEDODD && !cuts_ok(in, c, m, parity)) { c[m++] = (1 + vf_rnd_n(r, (uint32_t)(n - 1))) | 1; if (c[m - 1] >= n) c[m - 1] = 1; m = uniq_cuts(c, m, n); }
		while (parity == PAR_MBISO && m > 0 && !cuts_ok(in, c, m, parity)) {   /* drop cuts until the split is in the class */
			size_t j = vf_rnd_n(r, (uint32_t)m);
			memmove(c + j, c + j + 1, (m - j - 1) * sizeof(size_t)); m--;
		}
		if (m == 0) continue;
		emit_cuts(in, c, m, kind, false, fn);
	}
	free(c);
}

/* boundary annotations */
static uint8_t *cutmap_utf8(const uint8_t *b, size_t n)
{
	uint8_t *m = calloc(n + 1, 1);
	for (size_t p = 1; p < n; p++) if ((b[p] & 0xc0) == 0x80) m[p] = FEAT_MB;
	return m;
}
static uint8_t *cutmap_utf8_lenient(const uint8_t *b, size_t n)
{
	uint8_t *m = calloc(n + 1, 1);
	for (size_t p = 0; p < n;) {
		size_t l = b[p] < 0x80 ? 1 : (b[p] & 0xe0) == 0xc0 ? 2 : (b[p] & 0xf0) == 0xe0 ? 3 : (b[p] & 0xf8) == 0xf0 ? 4 : 1;
		for (size_t j = 1; j < l && p + j < n; j++) m[p + j] = FEAT_MB;
		if (p + l > n) m[n] = FEAT_MB;   /* truncated last sequence: the end of the input lies inside it */
		p += l;
	}
	return m;
}
static uint8_t *cutmap_u16(const uint8_t *b, size_t n, int f)
{
	uint8_t *m = calloc(n + 1, 1);
	for (size_t p = 1; p < n; p++) {
		if (p & 1) m[p] = FEAT_UNIT;
		else if (p + 2 <= n) {
			uint32_t prev = u16_unit(b + p - 2, f), cur = u16_unit(b + p, f);
			if (prev >= 0xd800 && prev <= 0xdbff && cur >= 0xdc00 && cur <= 0xdfff) m[p] = FEAT_PAIR;
		}
	}
	return m;
}
static uint8_t *cutmap_basen(const uint8_t *t, size_t n, int f)
{
	uint8_t *m = calloc(n + 1, 1);
	size_t g = (size_t)gchars_of(f);
	bool padded = n && t[n - 1] == '=';
	for (size_t p = 1; p < n; p++) {
		if (padded && n >= g && p > n - g) m[p] |= FEAT_PADG;
		if (t[p - 1] == '=') m[p] |= FEAT_APAD;
	}
	return m;
}

static void track_input(size_t n)
{
	CNT(inputs_total);
	g_cnt[C_input_bytes_total] += n;
	if (n >= 1024) CNT(inputs_1k_or_longer);
}
static const char *len_class(size_t n) { return n == 0 ? "len0" : n <= EXH_MAX ? "short" : n <= 255 ? "medium" : "long"; }

/* ================================================================== Base32 / Base32Hex / Base64 */
static const char *decode_outcome(int rk, const buf_t *got, const uint8_t *x, size_t n)
{
	if (rk == RK_NULL) return "returns-null";
	if (rk == RK_BOGUS || got->n != n) return "wrong-size";
	if (n && memcmp(got->p, x, n)) return "wrong-bytes";
	return NULL;
}

static void basen_roundtrip(vf_rng_t *r, int f, const uint8_t *x, size_t n, int nrand)
{
	buf_t ref = { 0 }, chk = { 0 }, got = { 0 }, enc = { 0 };
	buf_t *gp = &got, *rp = &ref;
	char iclsbuf[48];
	const char *icls = iclsbuf;
	track_input(n);
	ref_basen_encode(f, x, n, &ref);
	if (!ref_basen_decode(f, ref.p, ref.n, &chk) || !buf_eq(&chk, x, n)) vf_fail("reference %s codec self-check failed", fname[f]);
	snprintf(iclsbuf, sizeof(iclsbuf), "raw:%s:rem%zu", len_class(n), n % (size_t)gbytes_of(f));
	g_cur.b = x; g_cur.n = n;

	/* (a) encoding equals the reference for every fragmentation of the raw bytes */
	input_t raw = { x, n, NULL, icls };
	for_each_frag(r, &raw, PAR_ANY, nrand, ^(const size_t *sz, size_t k, unsigned feat, const char *kind) {
		size_t claimed;
		dispatch_data_t e = xform_bytes(x, n, sz, k, F_NONE, f, "encode");
		int rk = read_result(e, n, gp, &claimed);
		const char *outcome = "ok";
		CNT(cases_encode_vs_reference);
		if (rk != RK_OK || !buf_eq(gp, rp->p, rp->n)) {
			char key[160], hx[128], ss[160];
			outcome = "VIOLATION:encode";
			snprintf(key, sizeof(key), "C20:%s:encode-differs-from-reference:%s", kname[f], k <= 1 ? "single-region" : "fragmented");
			vf_violation(key, "none->%s of %s split as %s: expected \"%.*s\", got %s \"%.*s\" (size %zu)", fname[f], hexs(hx, sizeof(hx), x, n),
					sizes_str(ss, sizeof(ss), sz, k), (int)(rp->n > 96 ? 96 : rp->n), (const char *)rp->p,
					rk == RK_NULL ? "NULL" : rk == RK_BOGUS ? "an object with an impossible size" : "",
					(int)(gp->n > 96 ? 96 : gp->n), gp->p ? (const char *)gp->p : "", claimed);
		}
		note_case(F_NONE, f, icls, k, feat, kind, outcome, x, n, sz);
		if (e) dispatch_release(e);
	});

	/* (b) decoding the library's own encoding returns x for every fragmentation of the text */
	size_t one = n;
	dispatch_data_t e0 = xform_bytes(x, n, &one, n ? 1 : 0, F_NONE, f, "encode (single region, for the decode leg)");
	int rk0 = read_result(e0, n, &enc, NULL);
	if (e0) dispatch_release(e0);
	if (rk0 == RK_OK) {
		const uint8_t *t = enc.p; size_t tn = enc.n;
		uint8_t *cm = cutmap_basen(t, tn, f);
		input_t txt = { t, tn, cm, icls };
		dispatch_data_t d0 = xform_bytes(t, tn, &tn, tn ? 1 : 0, f, F_NONE, "decode (single region)");
		int rkd = read_result(d0, tn, &got, NULL);
		const char *o0 = decode_outcome(rkd, &got, x, n);
		if (d0) dispatch_release(d0);
		g_cur.b = t; g_cur.n = tn;
		for_each_frag(r, &txt, PAR_ANY, nrand, ^(const size_t *sz, size_t k, unsigned feat, const char *kind) {
			size_t claimed;
			dispatch_data_t d = xform_bytes(t, tn, sz, k, f, F_NONE, "decode");
			int rk = read_result(d, tn, gp, &claimed);
			const char *o = decode_outcome(rk, gp, x, n);
			if (f == F_B32) CNT(cases_base32_roundtrip); else if (f == F_B32HEX) CNT(cases_base32hex_roundtrip); else CNT(cases_base64_roundtrip);
			if (o) {
				char key[160], hx[128], hg[128], ss[160];
				const char *feature = (o0 && !strcmp(o0, o)) ? "any-fragmentation" : k <= 1 ? "single-region" :
						(feat & FEAT_APAD) ? "split-padding" : "split-outside-padding";
				snprintf(key, sizeof(key), "C20:%s-decode:%s:%s", kname[f], feature, o);
				vf_violation(key, "%s->none of \"%.*s\" (= encoding of %s, %zu bytes) split as %s: %s; result %s size=%zu (0x%zx) bytes=%s",
						fname[f], (int)(tn > 96 ? 96 : tn), (const char *)t, hexs(hx, sizeof(hx), x, n), n, sizes_str(ss, sizeof(ss), sz, k), o,
						rk == RK_NULL ? "NULL" : rk == RK_BOGUS ? "object whose size is not backed by memory (size 0 on a non-empty composite = region lengths wrapped around 2^64)," : "object", claimed, claimed,
						rk == RK_OK ? hexs(hg, sizeof(hg), gp->p, gp->n) : "-");
			}
			note_case(f, F_NONE, icls, k, feat, kind, o ? o : "ok", t, tn, sz);
			if (d) dispatch_release(d);
		});
		free(cm);
	}
	buf_free(&ref); buf_free(&chk); buf_free(&got); buf_free(&enc);
}

static size_t draw_len(vf_rng_t *r, size_t maxlen)
{
	uint32_t c = vf_rnd_n(r, 10);
	if (c < 5) return vf_rnd_range(r, EXH_MAX + 1, 64);
	if (c < 8) return vf_rnd_range(r, 65, (uint32_t)(maxlen / 4 > 66 ? maxlen / 4 : 66));
	return vf_rnd_range(r, (uint32_t)(maxlen / 4 > 66 ? maxlen / 4 : 66), (uint32_t)(maxlen > 67 ? maxlen : 67));
}
static void fill_pattern(vf_rng_t *r, uint8_t *x, size_t n, unsigned pat)
{
	for (size_t i = 0; i < n; i++)
		x[i] = pat == 1 ? 0x00 : pat == 2 ? 0xff : pat == 3 ? (uint8_t)(i * 37 + 1) : (uint8_t)vf_rnd(r);
}

static void run_basen(vf_rng_t *r, int f, int idx, bool do_exh, bool do_rand, size_t maxlen, int ninputs)
{
	uint8_t *x = malloc(maxlen + 64);
	if (do_exh) {
		for (size_t n = 0; n <= 20; n++) {
			fill_pattern(r, x, n, (unsigned)((size_t)idx + n) % 4);
			basen_roundtrip(r, f, x, n, 4);
		}
	}
	if (do_rand) {
		for (int i = 0; i < ninputs; i++) {
			size_t n = draw_len(r, maxlen);
			fill_pattern(r, x, n, vf_rnd_n(r, 8) == 0 ? 1 + vf_rnd_n(r, 3) : 0);
			basen_roundtrip(r, f, x, n, 6);
		}
	}
	free(x);
}

/* ================================================================== UTF text */
static const uint32_t edge_cps[] = { 0x00, 0x7f, 0x80, 0x7ff, 0x800, 0xd7ff, 0xe000, 0xfeff, 0xfffd, 0xfffe, 0xffff,
		0x10000, 0x1ffff, 0xfffff, 0x100000, 0x10ffff, 0x1f604, 0x10ffff, 0xffff, 0x10000 };
static uint32_t draw_cp(vf_rng_t *r)
{
	for (;;) {
		uint32_t c, k = vf_rnd_n(r, 10);
		if (k < 3) c = vf_rnd_n(r, 0x80);
		else if (k < 5) c = vf_rnd_range(r, 0x80, 0x7ff);
		else if (k < 7) c = vf_rnd_range(r, 0x800, 0xffff);
		else if (k < 9) c = vf_rnd_range(r, 0x10000, 0x10ffff);
		else c = edge_cps[vf_rnd_n(r, sizeof(edge_cps) / sizeof(*edge_cps))];
		if (c < 0xd800 || c > 0xdfff) return c;
	}
}
/* well-formed text of about target bytes; class string records BOM and planes present */
static void gen_text(vf_rng_t *r, size_t target, buf_t *u, char *icls, size_t icap)
{
	bool bom = vf_rnd_n(r, 4) == 0, p1 = false, p2 = false, p3 = false, p4 = false, zw = false;
	buf_reset(u);
	if (bom && target >= 3) ref_utf8_put(u, 0xfeff); else bom = false;
	uint32_t flavour = vf_rnd_n(r, 4);   /* 0 mixed, 1 mostly 4-byte (pairs), 2 mostly 3-byte, 3 mixed */
	while (u->n < target) {
		uint32_t c = draw_cp(r);
		if (flavour == 1 && vf_rnd_n(r, 3)) c = vf_rnd_range(r, 0x10000, 0x10ffff);
		if (flavour == 2 && vf_rnd_n(r, 3)) { c = vf_rnd_range(r, 0x800, 0xffff); if (c >= 0xd800 && c <= 0xdfff) c = 0xfeff; }
		size_t l = c < 0x80 ? 1 : c < 0x800 ? 2 : c < 0x10000 ? 3 : 4;
		if (u->n + l > target) { if (l == 1) break; continue; }
		if (c == 0xfeff) zw = true;
		if (l == 1) p1 = true; else if (l == 2) p2 = true; else if (l == 3) p3 = true; else p4 = true;
		ref_utf8_put(u, c);
	}
	snprintf(icls, icap, "text:%s:%s:%s%s%s%s%s", len_class(u->n), bom ? "bom" : "nobom", p1 ? "a" : "", p2 ? "2" : "", p3 ? "3" : "", p4 ? "4" : "", zw ? "z" : "");
}
static const struct { const char *name; uint32_t cp[4]; int n; } fixed_texts[] = {
	{ "fixed:ascii", { 0x41 }, 1 }, { "fixed:2byte", { 0xe9 }, 1 }, { "fixed:3byte", { 0x20ac }, 1 }, { "fixed:4byte", { 0x1f604 }, 1 },
	{ "fixed:mixed", { 0x41, 0x1f604, 0x42 }, 3 }, { "fixed:around-surrogates", { 0xd7ff, 0xe000 }, 2 },
	{ "fixed:ffff-10000", { 0xffff, 0x10000 }, 2 }, { "fixed:10ffff", { 0x10ffff, 0x7f }, 2 },
	{ "fixed:bom+ascii", { 0xfeff, 0x41 }, 2 }, { "fixed:trailing-feff", { 0x41, 0x42, 0xfeff }, 3 },
	{ "fixed:two-pairs", { 0x1f604, 0x1f60a }, 2 }, { "fixed:bom+feff+ascii", { 0xfeff, 0xfeff, 0x41 }, 3 },
	{ "fixed:7ff-800-80", { 0x7ff, 0x800, 0x80 }, 3 }, { "fixed:inner-feff", { 0x41, 0xfeff, 0x42 }, 3 },
	{ "fixed:empty", { 0 }, 0 }, { "fixed:bom-only", { 0xfeff }, 1 }, { "fixed:bom+pair+2byte", { 0xfeff, 0x1f604, 0xe9 }, 3 },
	{ "fixed:three-pairs", { 0x10000, 0x10ffff, 0x1f60a }, 3 }, { "fixed:fffe-first", { 0xfffe, 0x41 }, 2 },
	{ "fixed:nul", { 0x00, 0x41 }, 2 },
};
#define N_FIXED_TEXTS (sizeof(fixed_texts) / sizeof(*fixed_texts))

static void canon8(const uint8_t **p, size_t *n) { if (*n >= 3 && !memcmp(*p, "\xef\xbb\xbf", 3)) { *p += 3; *n -= 3; } }
/* NULL when got == orig apart from one leading BOM on either side; else a short diagnosis */
static const char *text_diff(const uint8_t *orig, size_t on, const uint8_t *got, size_t gn)
{
	/* "apart from a leading byte-order mark": one BOM may be present or absent on either side. When the text
	 * itself starts with U+FEFF right after the BOM, stripping both sides blindly would misjudge the correct
	 * answer (original minus its BOM), so every combination is accepted and only then a diagnosis is made. */
	if (on == gn && (on == 0 || !memcmp(orig, got, on))) return NULL;
	{
		const uint8_t *o2 = orig, *g2 = got; size_t on2 = on, gn2 = gn;
		canon8(&o2, &on2); canon8(&g2, &gn2);
		if (on2 == gn && (gn == 0 || !memcmp(o2, got, gn))) return NULL;       /* result == original minus BOM */
		if (gn2 == on && (on == 0 || !memcmp(g2, orig, on))) return NULL;      /* result minus BOM == original */
		if (on2 == gn2 && (on2 == 0 || !memcmp(o2, g2, on2))) return NULL;     /* equal after removing one BOM on both sides */
	}
	canon8(&orig, &on); canon8(&got, &gn);
	const char *res = "wrong-text";
	uint32_t *a = malloc((on + 1) * sizeof(uint32_t)), *b = malloc((gn + 1) * sizeof(uint32_t));
	long an = ref_utf8_decode(orig, on, a), bn = ref_utf8_decode(got, gn, b);
	if (bn < 0) res = "result-not-wellformed";
	else if (an >= 0) {
		long i = 0, j = 0;
		while (i < an && a[i] == 0xfeff) i++;
		while (j < bn && b[j] == 0xfeff) j++;
		if (an - i == bn - j && !memcmp(a + i, b + j, (size_t)(an - i) * sizeof(uint32_t))) {
			/* same text after the leading U+FEFF run: more than the one tolerated BOM was removed (or added) at the start */
			res = "U+FEFF-dropped-at-start";
		} else if (bn == an - 1) {
			long k = 0;
			while (k < bn && a[k] == b[k]) k++;
			if (a[k] == 0xfeff && (k == bn || !memcmp(a + k + 1, b + k, (size_t)(bn - k) * sizeof(uint32_t)))) res = "U+FEFF-dropped";
		}
	}
	free(a); free(b);
	return res;
}

/* one forward/backward evaluation: UTF-8 bytes split as sz -> UTF-16 -> (library object) -> UTF-8.
 * returns NULL when the property's relation holds, else a short outcome */
static const char *fwd_back_outcome(const uint8_t *u, size_t n, const size_t *sz, size_t k, int fin, int f16, int fback,
		buf_t *xp, buf_t *yp, int *prk, int *prk2, const buf_t *refx)
{
	size_t c1 = 0, c2 = 0;
	const char *o = NULL;
	dispatch_data_t x = xform_bytes(u, n, sz, k, fin, f16, "utf8->utf16"), y = NULL;
	int rk = read_result(x, n, xp, &c1), rk2 = RK_NULL;
	if (rk == RK_NULL) o = "returns-null";
	else if (rk == RK_BOGUS) o = "result-size-out-of-bounds";
	else {
		if (refx && !buf_eq(xp, refx->p, refx->n)) CNT(note_utf16_differs_from_reference);
		y = xform(x, fback, F_UTF8, "utf16->utf8 (inverse, applied to the library's result object)", NULL, 1);
		rk2 = read_result(y, xp->n, yp, &c2);
		CNT(inverse_checks);
		if (rk2 == RK_NULL) o = "inverse-rejects";
		else if (rk2 == RK_BOGUS) o = "inverse-result-size-out-of-bounds";
		else o = text_diff(u, n, yp->p, yp->n);
	}
	if (y && y != x) dispatch_release(y);
	if (x) dispatch_release(x);
	*prk = rk; *prk2 = rk2;
	return o;
}
static bool same_outcome(const char *a, const char *b) { return (!a && !b) || (a && b && !strcmp(a, b)); }

/* well-formed UTF-8 u, fragmented -> UTF-16 (f16) -> back to UTF-8 (on the library's own object) */
static void utf8_forward_back(vf_rng_t *r, const uint8_t *u, size_t n, const char *icls, int f16, bool any, int parity, int nrand)
{
	buf_t xb = { 0 }, yb = { 0 }, refx = { 0 }, x2 = { 0 }, y2 = { 0 };
	buf_t *xp = &xb, *yp = &yb, *rx = &refx, *x2p = &x2, *y2p = &y2;
	int fin = any ? F_ANY : F_UTF8, fback = any ? F_ANY : f16;
	uint8_t *cm = cutmap_utf8(u, n);
	input_t in = { u, n, cm, icls };
	track_input(n);
	g_cur.b = u; g_cur.n = n;
	{	/* reference UTF-16 with BOM, for the note counter only */
		uint32_t *cps = malloc((n + 1) * sizeof(uint32_t));
		long k = ref_utf8_decode(u, n, cps);
		if (k < 0) vf_fail("generator produced ill-formed UTF-8");
		if (n) ref_u16_put(&refx, 0xfeff, f16);
		for (long i = (k && cps[0] == 0xfeff) ? 1 : 0; i < k; i++) ref_u16_put(&refx, cps[i], f16);
		free(cps);
	}
	size_t whole = n;
	int rk, rk2;
	const char *o0 = fwd_back_outcome(u, n, &whole, n ? 1 : 0, fin, f16, fback, &xb, &yb, &rk, &rk2, NULL);   /* single-region baseline */
	for_each_frag(r, &in, parity, nrand, ^(const size_t *sz, size_t k, unsigned feat, const char *kind) {
		int rk, rk2;
		const char *o = fwd_back_outcome(u, n, sz, k, fin, f16, fback, xp, yp, &rk, &rk2, rx);
		if (any) CNT(cases_utfany); else CNT(cases_utf8_wellformed);
		if (o) {
			char key[160], hx[128], h1[128], h2[128], ss[160];
			bool isdiff = rk == RK_OK && rk2 == RK_OK, anyspecific = false;
			if (any) {   /* is this specific to UTF_ANY detection, or the same failure as with the explicit type? */
				int a, b;
				/* only when the explicit type passes: outcomes that depend on out-of-bounds bytes are not comparable */
				anyspecific = fwd_back_outcome(u, n, sz, k, F_UTF8, f16, f16, x2p, y2p, &a, &b, NULL) == NULL;
				g_cur.fi = fin;
			}
			const char *feature = same_outcome(o0, o) ? "any-fragmentation" : k <= 1 ? "single-region" :
					(feat & FEAT_MB) ? "split-inside-multibyte" : "split-at-character-boundary";
			if (any && n < 2 && rk == RK_NULL) snprintf(key, sizeof(key), "C20:utf-any:input-shorter-than-2-bytes:returns-null");
			else snprintf(key, sizeof(key), "C20:%s-to-utf16:wellformed:%s%s:%s", anyspecific ? "utf-any" : "utf8", isdiff ? "roundtrip-mismatch:" : "", o, feature);
			vf_violation(key, "well-formed UTF-8 %s (%s) split as %s, %s->%s: %s; utf16 result=%s, back to utf8=%s (expected the input apart from a leading BOM)",
					hexs(hx, sizeof(hx), u, n), icls, sizes_str(ss, sizeof(ss), sz, k), fname[fin], fname[f16], o,
					rk == RK_NULL ? "NULL" : rk == RK_BOGUS ? "(bad size)" : hexs(h1, sizeof(h1), xp->p, xp->n),
					rk != RK_OK ? "-" : rk2 == RK_NULL ? "NULL" : rk2 == RK_BOGUS ? "(bad size)" : hexs(h2, sizeof(h2), yp->p, yp->n));
		}
		note_case(fin, f16, icls, k, feat, kind, o ? o : "ok", u, n, sz);
	});
	free(cm);
	buf_free(&xb); buf_free(&yb); buf_free(&refx); buf_free(&x2); buf_free(&y2);
}

static const char *to_utf8_outcome(const uint8_t *x, size_t xn, const size_t *sz, size_t k, int fin, const uint8_t *u, size_t n, buf_t *yp, int *prk)
{
	size_t c1 = 0;
	dispatch_data_t y = xform_bytes(x, xn, sz, k, fin, F_UTF8, "utf16->utf8");
	int rk = read_result(y, xn, yp, &c1);
	const char *o = rk == RK_NULL ? "returns-null" : rk == RK_BOGUS ? "result-size-out-of-bounds" : text_diff(u, n, yp->p, yp->n);
	if (y) dispatch_release(y);
	*prk = rk;
	return o;
}

/* the library's UTF-16 rendering of well-formed text, re-split (parity selects aligned / odd splits), -> UTF-8 */
static void utf16_refrag(vf_rng_t *r, const uint8_t *u, size_t n, const char *icls, int f16, bool any, int parity, int nrand)
{
	buf_t xb = { 0 }, yb = { 0 }, y2 = { 0 };
	buf_t *yp = &yb, *y2p = &y2;
	size_t whole = n;
	int fin = any ? F_ANY : f16, rk0;
	track_input(n);
	g_cur.b = u; g_cur.n = n;
	dispatch_data_t x0 = xform_bytes(u, n, &whole, n ? 1 : 0, F_UTF8, f16, "utf8->utf16 (single region, to obtain the UTF-16 input)");
	rk0 = read_result(x0, n, &xb, NULL);
	if (x0) dispatch_release(x0);
	if (rk0 != RK_OK || xb.n < 2) { buf_free(&xb); return; }   /* judged in mode utf8to16 */
	const uint8_t *x = xb.p; size_t xn = xb.n;
	uint8_t *cm = cutmap_u16(x, xn, f16);
	input_t in = { x, xn, cm, icls };
	g_cur.b = x; g_cur.n = xn;
	const char *o0 = to_utf8_outcome(x, xn, &xn, 1, fin, u, n, &yb, &rk0);
	for_each_frag(r, &in, parity, nrand, ^(const size_t *sz, size_t k, unsigned feat, const char *kind) {
		int rk;
		const char *o = to_utf8_outcome(x, xn, sz, k, fin, u, n, yp, &rk);
		if (any) CNT(cases_utfany); else CNT(cases_utf16_refragmented);
		if (o) {
			char key[160], hx[128], h1[128], h2[128], ss[160];
			bool anyspecific = false;
			if (any) { int a; anyspecific = to_utf8_outcome(x, xn, sz, k, f16, u, n, y2p, &a) == NULL; g_cur.fi = fin; }
			const char *feature = same_outcome(o0, o) ? "any-fragmentation" : k <= 1 ? "single-region" :
					(feat & FEAT_UNIT) ? "split-inside-code-unit" : (feat & FEAT_PAIR) ? "split-inside-surrogate-pair" : "aligned-splits";
			snprintf(key, sizeof(key), "C20:%s-to-utf8:wellformed:%s%s:%s", anyspecific ? "utf-any" : "utf16", rk == RK_OK ? "roundtrip-mismatch:" : "", o, feature);
			vf_violation(key, "%s text %s (the library's %s rendering of well-formed UTF-8 %s, %s) split as %s, %s->utf8: %s; result=%s (expected the UTF-8 original apart from a leading BOM)",
					fname[f16], hexs(hx, sizeof(hx), x, xn), fname[f16], hexs(h1, sizeof(h1), u, n), icls, sizes_str(ss, sizeof(ss), sz, k), fname[fin], o,
					rk == RK_NULL ? "NULL" : rk == RK_BOGUS ? "(bad size)" : hexs(h2, sizeof(h2), yp->p, yp->n));
		}
		note_case(fin, F_UTF8, icls, k, feat, kind, o ? o : "ok", x, xn, sz);
	});
	free(cm);
	buf_free(&xb); buf_free(&yb); buf_free(&y2);
}

/* which: 0 = utf8to16 (any split), 1 = utf16even, 2 = utf16odd, 3 = utfany, 4 = utf8iso (no region that starts inside one
 * multi-byte sequence and ends inside another one) */
static void run_utf(vf_rng_t *r, int which, int idx, bool do_exh, bool do_rand, size_t maxlen, int ninputs)
{
	buf_t u = { 0 };
	char icls[64];
	for (int pass = 0; pass < 3; pass++) {
		int count = pass == 0 ? (do_exh && idx % 4 == 0 ? (int)N_FIXED_TEXTS : 0) : pass == 1 ? (do_exh ? 10 : 0) : (do_rand ? ninputs : 0);
		for (int i = 0; i < count; i++) {
			if (pass == 0) {
				buf_reset(&u);
				for (int j = 0; j < fixed_texts[i].n; j++) ref_utf8_put(&u, fixed_texts[i].cp[j]);
				snprintf(icls, sizeof(icls), "%s", fixed_texts[i].name);
			} else if (pass == 1) gen_text(r, which == 1 || which == 2 ? vf_rnd_range(r, 1, 10) : vf_rnd_range(r, 1, EXH_MAX), &u, icls, sizeof(icls));
			else gen_text(r, draw_len(r, maxlen), &u, icls, sizeof(icls));
			int nr = pass == 2 ? 6 : 4;
			buf_reserve(&u, 1);
			for (int f16 = F_U16LE; f16 <= F_U16BE; f16++) {
				if (which == 0) utf8_forward_back(r, u.p, u.n, icls, f16, false, PAR_ANY, nr);
				else if (which == 4) utf8_forward_back(r, u.p, u.n, icls, f16, false, PAR_MBISO, nr);
				else if (which == 1) utf16_refrag(r, u.p, u.n, icls, f16, false, PAR_EVEN, nr);
				else if (which == 2) { utf16_refrag(r, u.p, u.n, icls, f16, false, PAR_NEEDODD, nr); utf16_refrag(r, u.p, u.n, icls, f16, true, PAR_NEEDODD, nr); }
				else { utf8_forward_back(r, u.p, u.n, icls, f16, true, PAR_MBISO, nr); utf16_refrag(r, u.p, u.n, icls, f16, true, PAR_EVEN, nr); }
			}
		}
	}
	buf_free(&u);
}

/* ================================================================== arbitrary / adversarial input */
typedef struct { uint8_t *b; size_t n; const char *cls; int fmt; } adv_t;
static adv_t *g_adv;
static size_t g_nadv, g_capadv;
static void adv_add(const void *b, size_t n, const char *cls, int fmt)
{
	if (g_nadv == g_capadv) { g_capadv = g_capadv ? g_capadv * 2 : 256; g_adv = realloc(g_adv, g_capadv * sizeof(adv_t)); }
	adv_t *a = &g_adv[g_nadv++];
	a->b = malloc(n + 1); if (n) memcpy(a->b, b, n);
	a->n = n; a->cls = cls; a->fmt = fmt;
}
static void adv_clear(void) { for (size_t i = 0; i < g_nadv; i++) free(g_adv[i].b); g_nadv = 0; }
/* bare, with an ASCII prefix, with an ASCII suffix */
static void adv_add3(const void *b, size_t n, const char *cls, int fmt, int unit)
{
	uint8_t tmp[64];
	adv_add(b, n, cls, fmt);
	if (n + 4 > sizeof(tmp)) return;
	size_t o = 0;
	if (unit == 1) tmp[o++] = 'A'; else if (fmt == F_U16LE) { tmp[o++] = 'A'; tmp[o++] = 0; } else { tmp[o++] = 0; tmp[o++] = 'A'; }
	memcpy(tmp + o, b, n);
	adv_add(tmp, n + o, cls, fmt);
	memcpy(tmp, b, n); o = n;
	if (unit == 1) tmp[o++] = 'B'; else if (fmt == F_U16LE) { tmp[o++] = 'B'; tmp[o++] = 0; } else { tmp[o++] = 0; tmp[o++] = 'B'; }
	adv_add(tmp, o, cls, fmt);
}

static void gen_adv_utf8(vf_rng_t *r, bool do_rand, size_t maxlen)
{
	static const struct { const char *cls; uint8_t b[8]; int n; } fx[] = {
		{ "u8:truncated", { 0xc3 }, 1 }, { "u8:truncated", { 0xe2, 0x82 }, 2 }, { "u8:truncated", { 0xf0, 0x9f, 0x98 }, 3 }, { "u8:truncated", { 0xf0 }, 1 },
		{ "u8:lone-continuation", { 0x80 }, 1 }, { "u8:lone-continuation", { 0xbf, 0xbf }, 2 },
		{ "u8:surrogate-encoded", { 0xed, 0xa0, 0x80 }, 3 }, { "u8:surrogate-encoded", { 0xed, 0xaf, 0xbf }, 3 }, { "u8:surrogate-encoded", { 0xed, 0xb0, 0x80 }, 3 },
		{ "u8:surrogate-encoded", { 0xed, 0xbf, 0xbe }, 3 }, { "u8:surrogate-encoded", { 0xed, 0xbf, 0xbf }, 3 },
		{ "u8:surrogate-encoded", { 0xed, 0xa0, 0xbd, 0xed, 0xb8, 0x84 }, 6 },
		{ "u8:overlong", { 0xc0, 0x80 }, 2 }, { "u8:overlong", { 0xc1, 0xbf }, 2 }, { "u8:overlong", { 0xe0, 0x80, 0x80 }, 3 }, { "u8:overlong", { 0xe0, 0x9f, 0xbf }, 3 },
		{ "u8:overlong", { 0xf0, 0x80, 0x80, 0x80 }, 4 }, { "u8:overlong", { 0xf0, 0x8f, 0xbf, 0xbf }, 4 }, { "u8:overlong", { 0xf0, 0x8d, 0xbf, 0xbf }, 4 },
		{ "u8:overlong", { 0xf0, 0x8d, 0xa0, 0x80 }, 4 },
		{ "u8:above-10ffff", { 0xf4, 0x90, 0x80, 0x80 }, 4 }, { "u8:above-10ffff", { 0xf7, 0xbf, 0xbf, 0xbf }, 4 },
		{ "u8:invalid-lead", { 0xf8, 0x88, 0x80, 0x80, 0x80 }, 5 }, { "u8:invalid-lead", { 0xfc, 0x84, 0x80, 0x80, 0x80, 0x80 }, 6 }, { "u8:invalid-lead", { 0xfe }, 1 },
		{ "u8:invalid-lead", { 0xff, 0xfe }, 2 }, { "u8:invalid-lead", { 0xfe, 0xff }, 2 },
		{ "u8:bad-continuation", { 0xc3, 0x41 }, 2 }, { "u8:bad-continuation", { 0xe2, 0x82, 0x41 }, 3 }, { "u8:bad-continuation", { 0xe2, 0x41, 0x82 }, 3 },
		{ "u8:bad-continuation", { 0xf0, 0x9f, 0x41, 0x84 }, 4 }, { "u8:bad-continuation", { 0xef, 0xbf, 0xff }, 3 }, { "u8:bad-continuation", { 0xed, 0xff, 0xbf }, 3 },
		{ "u8:bom-variants", { 0xef, 0xbb, 0xbf }, 3 }, { "u8:bom-variants", { 0xef, 0xbb }, 2 }, { "u8:bom-variants", { 0xef, 0xbb, 0xbf, 0xef, 0xbb, 0xbf }, 6 },
	};
	for (size_t i = 0; i < sizeof(fx) / sizeof(*fx); i++) adv_add3(fx[i].b, (size_t)fx[i].n, fx[i].cls, F_UTF8, 1);
	adv_add("", 0, "u8:empty", F_UTF8);
	uint8_t tmp[32];
	for (int i = 0; i < 12; i++) {
		size_t n = vf_rnd_range(r, 1, 14);
		for (size_t j = 0; j < n; j++) tmp[j] = vf_rnd_n(r, 3) ? (uint8_t)(0x80 | vf_rnd_n(r, 0x80)) : (uint8_t)vf_rnd(r);
		adv_add(tmp, n, "u8:random", F_UTF8);
	}
	buf_t u = { 0 }; char ic[64];
	for (int i = 0; i < (do_rand ? 16 : 8); i++) {
		gen_text(r, i < 8 ? vf_rnd_range(r, 2, EXH_MAX) : draw_len(r, maxlen), &u, ic, sizeof(ic));
		if (!u.n) continue;
		size_t p = vf_rnd_n(r, (uint32_t)u.n);
		uint32_t how = vf_rnd_n(r, 4);
		if (how == 0) u.p[p] ^= (uint8_t)(1u << vf_rnd_n(r, 8));
		else if (how == 1) u.p[p] = (uint8_t)vf_rnd(r);
		else if (how == 2) u.n = p ? p : 1;                                  /* truncate */
		else { u.p[p] = 0xed; if (p + 2 < u.n) { u.p[p + 1] = 0xbf; u.p[p + 2] = (uint8_t)(0xbc + vf_rnd_n(r, 4)); } }
		adv_add(u.p, u.n, "u8:mutated-text", F_UTF8);
	}
	buf_free(&u);
}

static void gen_adv_u16(vf_rng_t *r, int f, bool do_rand, size_t maxlen)
{
	static const struct { const char *cls; uint16_t u[4]; int n; } fx[] = {
		{ "u16:lone-high", { 0x41, 0xd83d }, 2 }, { "u16:lone-high", { 0xd83d, 0x41 }, 2 }, { "u16:lone-high", { 0xdbff }, 1 }, { "u16:lone-high", { 0xd83d, 0xd83d, 0xde04 }, 3 },
		{ "u16:lone-low", { 0xdc00 }, 1 }, { "u16:lone-low", { 0x41, 0xde04, 0x42 }, 3 }, { "u16:lone-low", { 0xdfff }, 1 }, { "u16:lone-low", { 0xd83d, 0xde04, 0xde04 }, 3 },
		{ "u16:unordered-surrogates", { 0xde04, 0xd83d }, 2 }, { "u16:unordered-surrogates", { 0xdc00, 0xd800, 0x41 }, 3 },
		{ "u16:wrong-endian-bom", { 0xfffe, 0x41 }, 2 }, { "u16:wrong-endian-bom", { 0xfffe }, 1 },
		{ "u16:bom-inside", { 0x41, 0xfeff, 0x42 }, 3 }, { "u16:bom-inside", { 0xfeff, 0xfeff, 0x41 }, 3 }, { "u16:bom-inside", { 0x41, 0xfffe }, 2 },
		{ "u16:edge-pairs", { 0xd800, 0xdc00 }, 2 }, { "u16:edge-pairs", { 0xdbff, 0xdfff }, 2 }, { "u16:edge-pairs", { 0xd800, 0xdfff, 0xdbff, 0xdc00 }, 4 },
		{ "u16:edge-pairs", { 0xd7ff, 0xe000, 0xffff }, 3 },
	};
	buf_t t = { 0 };
	for (size_t i = 0; i < sizeof(fx) / sizeof(*fx); i++) {
		for (int bom = 0; bom < 2; bom++) {
			buf_reset(&t);
			if (bom) ref_u16_put_unit(&t, 0xfeff, f);
			for (int j = 0; j < fx[i].n; j++) ref_u16_put_unit(&t, fx[i].u[j], f);
			if (bom) adv_add(t.p, t.n, fx[i].cls, f); else adv_add3(t.p, t.n, fx[i].cls, f, 2);
		}
	}
	adv_add("", 0, "u16:empty", f);
	adv_add("A", 1, "u16:odd-length", f);
	for (int i = 0; i < 6; i++) {   /* valid text plus one dangling byte */
		buf_reset(&t);
		if (i & 1) ref_u16_put_unit(&t, 0xfeff, f);
		for (int j = 0; j <= i / 2; j++) ref_u16_put(&t, draw_cp(r), f);
		buf_put(&t, i == 4 ? 0xd8 : (uint8_t)vf_rnd(r));
		adv_add(t.p, t.n, "u16:odd-length", f);
	}
	for (int i = 0; i < 10; i++) {
		buf_reset(&t);
		size_t n = vf_rnd_range(r, 1, 7);
		for (size_t j = 0; j < n; j++) ref_u16_put_unit(&t, vf_rnd_n(r, 3) ? 0xd800 + vf_rnd_n(r, 0x800) : vf_rnd_n(r, 0x10000), f);
		adv_add(t.p, t.n, "u16:random", f);
	}
	for (int i = 0; i < (do_rand ? 12 : 6); i++) {   /* valid text, one unit replaced or removed */
		buf_reset(&t);
		size_t target = i < 6 ? vf_rnd_range(r, 2, EXH_MAX / 2) : draw_len(r, maxlen) / 2;
		if (vf_rnd_n(r, 2)) ref_u16_put_unit(&t, 0xfeff, f);
		while (t.n / 2 < target) ref_u16_put(&t, vf_rnd_n(r, 2) ? vf_rnd_range(r, 0x10000, 0x10ffff) : draw_cp(r), f);
		size_t p = 2 * vf_rnd_n(r, (uint32_t)(t.n / 2));
		uint32_t how = vf_rnd_n(r, 3);
		if (how == 0) { buf_t q = { 0 }; ref_u16_put_unit(&q, 0xd800 + vf_rnd_n(r, 0x800), f); memcpy(t.p + p, q.p, 2); buf_free(&q); }
		else if (how == 1) { memmove(t.p + p, t.p + p + 2, t.n - p - 2); t.n -= 2; }
		else t.n = p + 1;
		if (t.n) adv_add(t.p, t.n, "u16:mutated-text", f);
	}
	buf_free(&t);
}

static void gen_adv_basen(vf_rng_t *r, int f, bool do_rand, size_t maxlen)
{
	buf_t e = { 0 }, t = { 0 };
	uint8_t x[16];
	static const char ws[] = { ' ', '\n', '\t' };
	for (size_t n = 1; n <= 9; n++) adv_add("=========", n, "bn:pads-only", f);
	adv_add("", 0, "bn:empty", f);
	adv_add(" \n\t ", 4, "bn:ws-only", f);
	static const uint8_t bad[] = { 'a', 'z', '-', '_', '@', 0x80, 0xff, 0x00, '\r', '1', '8', '9', '0', '*', '~', 0x7f, '[' };
	for (size_t n = 1; n <= (size_t)gbytes_of(f) + 2; n++) {
		for (size_t i = 0; i < n; i++) x[i] = (uint8_t)vf_rnd(r);
		buf_reset(&e); ref_basen_encode(f, x, n, &e);
		for (size_t p = 0; p <= e.n; p++) {
			buf_reset(&t); buf_add(&t, e.p, p); buf_put(&t, '='); buf_add(&t, e.p + p, e.n - p);
			adv_add(t.p, t.n, "bn:pad-inserted", f);
			buf_reset(&t); buf_add(&t, e.p, p); buf_put(&t, (uint8_t)ws[vf_rnd_n(r, 3)]); buf_add(&t, e.p + p, e.n - p);
			adv_add(t.p, t.n, "bn:ws-inserted", f);
			if (p < e.n) {
				buf_reset(&t); buf_add(&t, e.p, e.n); t.p[p] = '=';
				adv_add(t.p, t.n, "bn:pad-replaces", f);
				buf_reset(&t); buf_add(&t, e.p, e.n); t.p[p] = bad[vf_rnd_n(r, sizeof(bad))];
				adv_add(t.p, t.n, "bn:invalid-char", f);
				if (p) adv_add(e.p, p, "bn:truncated", f);
			}
		}
		buf_reset(&t); buf_add(&t, e.p, e.n); buf_add(&t, e.p, e.n);
		adv_add(t.p, t.n, "bn:data-after-padding", f);
		buf_reset(&t); buf_add(&t, e.p, e.n); buf_add(&t, "\n \t\n", 1 + vf_rnd_n(r, 4));
		adv_add(t.p, t.n, "bn:ws-after-text", f);
	}
	for (int i = 0; i < 8; i++) {
		buf_reset(&t);
		size_t n = vf_rnd_range(r, 1, EXH_MAX);
		const char *al = alpha_of(f);
		for (size_t j = 0; j < n; j++) buf_put(&t, vf_rnd_n(r, 6) == 0 ? '=' : vf_rnd_n(r, 8) == 0 ? (uint8_t)vf_rnd_range(r, 0x20, 0x7e) : (uint8_t)al[vf_rnd_n(r, 1u << bits_of(f))]);
		adv_add(t.p, t.n, "bn:random", f);
	}
	for (int i = 0; i < (do_rand ? 6 : 2); i++) {   /* line-wrapped encodings as produced by other tools */
		uint8_t *big = malloc(maxlen + 8);
		size_t n = i < 2 ? vf_rnd_range(r, 20, 60) : draw_len(r, maxlen), w = 8 * vf_rnd_range(r, 1, 9);
		for (size_t j = 0; j < n; j++) big[j] = (uint8_t)vf_rnd(r);
		buf_reset(&e); ref_basen_encode(f, big, n, &e);
		buf_reset(&t);
		for (size_t j = 0; j < e.n; j++) { buf_put(&t, e.p[j]); if ((j + 1) % w == 0) buf_put(&t, '\n'); }
		if (vf_rnd_n(r, 2)) buf_put(&t, '\n');
		adv_add(t.p, t.n, "bn:line-wrapped", f);
		free(big);
	}
	buf_free(&e); buf_free(&t);
}

static int detect_any(const uint8_t *b, size_t n)
{
	if (n >= 2 && b[0] == 0xff && b[1] == 0xfe) return F_U16LE;
	if (n >= 2 && b[0] == 0xfe && b[1] == 0xff) return F_U16BE;
	return F_UTF8;
}

static int g_fragdep_printed;
/* arbitrary input a, pair fi->fo: every fragmentation must give NULL, or an object whose size is
 * backed by memory and which the inverse pair fo->fi accepts */
static void adv_pair(vf_rng_t *r, const adv_t *a, int fi, int fo, int parity, int nrand, bool chain)
{
	buf_t got = { 0 }, inv = { 0 };
	buf_t *gp = &got, *ip = &inv;
	const uint8_t *b = a->b; size_t n = a->n;
	const char *icls = a->cls;
	int fback = fi == F_ANY ? detect_any(b, n) : fi;
	int kfi = fback;   /* keys name the detected type: UTF_ANY only selects it */
	uint8_t *cm = a->fmt == F_UTF8 ? cutmap_utf8_lenient(b, n) : is_u16(a->fmt) ? cutmap_u16(b, n, a->fmt) : cutmap_basen(b, n, a->fmt);
	input_t in = { b, n, cm, icls };
	bool haspad = is_basen(fi) && n && memchr(b, '=', n);
	g_cur.b = b; g_cur.n = n;
	__block bool have0 = false, bogus0 = false, dep = false;
	__block uint64_t h0 = 0;
	frag_fn one = ^(const size_t *sz, size_t k, unsigned feat, const char *kind) {
		size_t c1 = 0, c2 = 0;
		const char *outcome;
		dispatch_data_t res = xform_bytes(b, n, sz, k, fi, fo, "forward (arbitrary input)"), back = NULL;
		int rk = read_result(res, n, gp, &c1);
		uint64_t h = rk == RK_NULL ? 0 : rk == RK_BOGUS ? 1 : VF_HASH_INIT;
		if (rk == RK_OK) for (size_t i = 0; i < gp->n; i++) h = (h ^ gp->p[i]) * 0x100000001b3ull;
		if (!have0) { have0 = true; h0 = h; bogus0 = rk == RK_BOGUS; if (!kind) goto out; }
		if (h != h0) dep = true;
		if (chain) CNT(cases_chain); else CNT(cases_adversarial);
		if (rk == RK_NULL) { outcome = "null"; CNT(results_null); }
		else if (rk == RK_BOGUS) {
			char key[160], hx[128], ss[160];
			outcome = "VIOLATION:size";
			if (fo == F_NONE) snprintf(key, sizeof(key), "C20:%s-decode:result-size-out-of-bounds:%s:%s", kname[kfi],
					haspad ? "input-with-padding" : "arbitrary-input", bogus0 ? "any-fragmentation" : "fragmented");
			else snprintf(key, sizeof(key), "C20:%s-to-%s:result-size-out-of-bounds:%s:%s", kname[kfi], kname[fo],
					haspad ? "input-with-padding" : "arbitrary-input", bogus0 ? "any-fragmentation" : "fragmented");
			vf_violation(key, "%s->%s of %s (%s) split as %s returned an object that claims %zu (0x%zx) bytes for %zu input bytes: its size is not backed by memory, any reader (e.g. the inverse transform) runs out of bounds",
					fname[fi], fname[fo], hexs(hx, sizeof(hx), b, n), icls, sizes_str(ss, sizeof(ss), sz, k), c1, c1, n);
		} else {
			CNT(results_nonnull);
			if (is_basen(fi) && fo == F_NONE) {   /* note only: the library's lenient decoder vs the strict reference */
				buf_t s = { 0 };
				if (!ref_basen_decode(fi, b, n, &s)) CNT(note_lenient_decode_accepts_noncanonical);
				buf_free(&s);
			}
			back = xform(res, fo, fback, "inverse (applied to the library's result object)", NULL, 1);
			int rk2 = read_result(back, gp->n, ip, &c2);
			CNT(inverse_checks);
			if (rk2 == RK_NULL) {
				char key[160], hx[128], h1[128], ss[160];
				const char *why = "valid"; uint32_t unit = 0;
				outcome = "VIOLATION:inverse-rejects";
				if (is_u16(fo)) { if (ref_u16_decode(gp->p, gp->n, fo, NULL, &why, &unit) >= 0) why = "valid"; }
				else if (fo == F_UTF8) why = ref_utf8_decode(gp->p, gp->n, NULL) >= 0 ? "wellformed" : "ill-formed";
				else if (is_basen(fo)) { buf_t s = { 0 }; why = ref_basen_decode(fo, gp->p, gp->n, &s) ? "canonical" : "non-canonical"; buf_free(&s); }
				if (is_u16(fo) && unit == 0xdfff && !strcmp(why, "lone-low-surrogate"))
					snprintf(key, sizeof(key), "C20:%s-to-utf16:accepts-U+DFFF:inverse-rejects", kname[kfi]);
				else snprintf(key, sizeof(key), "C20:%s-to-%s:inverse-rejects:output-%s", kname[kfi], kname[fo], why);
				vf_violation(key, "%s->%s of %s (%s) split as %s returned %s (reference validator: %s, unit U+%04X), but the inverse %s->%s of that result returns NULL",
						fname[fi], fname[fo], hexs(hx, sizeof(hx), b, n), icls, sizes_str(ss, sizeof(ss), sz, k), hexs(h1, sizeof(h1), gp->p, gp->n),
						why, unit, fname[fo], fname[fback]);
			} else if (rk2 == RK_BOGUS) {
				char key[160], hx[128], ss[160];
				outcome = "VIOLATION:inverse-size";
				snprintf(key, sizeof(key), "C20:%s-to-%s:inverse-result-size-out-of-bounds", kname[fo], kname[fback]);
				vf_violation(key, "inverse %s->%s of the result of %s->%s of %s split as %s claims %zu bytes", fname[fo], fname[fback], fname[fi], fname[fo],
						hexs(hx, sizeof(hx), b, n), sizes_str(ss, sizeof(ss), sz, k), c2);
			} else outcome = "accepted";
		}
		note_case(fi, fo, icls, k, feat, kind, outcome, b, n, sz);
	out:
		if (back && back != res) dispatch_release(back);   /* a zero-size input is returned as is, not retained */
		if (res) dispatch_release(res);
	};
	size_t whole = n;
	one(&whole, n ? 1 : 0, 0, NULL);
	for_each_frag(r, &in, parity, nrand, one);
	if (dep) {
		CNT(note_fragmentation_dependent_malformed);
		if (g_fragdep_printed++ < 3) {
			char hx[128];
			vf_emit("extra", "\"note_fragmentation_dependent_malformed\":\"%s>%s %s %s (not judged: the property only demands NULL-or-inverse-accepts per fragmentation for arbitrary input)\"",
					fname[fi], fname[fo], icls, hexs(hx, sizeof(hx), b, n));
		}
	}
	free(cm);
	buf_free(&got); buf_free(&inv);
}

/* which: 0 = adversarial (UTF-8 splits of class MBISO, aligned UTF-16 splits, baseN -> none), 1 = adv16odd (UTF-16 input,
 * odd splits), 2 = chain (baseN -> baseN, adversarial and valid text), 3 = adv8any (UTF-8 input, any split) */
static void run_adversarial(vf_rng_t *r, int which, bool do_rand, size_t maxlen)
{
	static const int basen[] = { F_B32, F_B32HEX, F_B64 };
	adv_clear();
	if (which == 0 || which == 3) gen_adv_utf8(r, do_rand, maxlen);
	if (which <= 1 || which == 4) { gen_adv_u16(r, F_U16LE, do_rand, maxlen); gen_adv_u16(r, F_U16BE, do_rand, maxlen); }
	if (which == 2) {   /* valid encodings first: the decoder of the first format feeds the encoder of the second */
		buf_t e = { 0 }; uint8_t x[64];
		for (int i = 0; i < 3; i++) for (size_t n = 1; n <= 12; n++) {
			for (size_t j = 0; j < n; j++) x[j] = (uint8_t)vf_rnd(r);
			buf_reset(&e); ref_basen_encode(basen[i], x, n, &e);
			adv_add(e.p, e.n, "bn:valid", basen[i]);
		}
		buf_free(&e);
	}
	if (which == 0 || which == 2) for (int i = 0; i < 3; i++) gen_adv_basen(r, basen[i], do_rand, maxlen);
	for (size_t i = 0; i < g_nadv; i++) {
		const adv_t *a = &g_adv[i];
		int nr = 5;
		track_input(a->n);
		if (a->fmt == F_UTF8) {
			int par = which == 3 ? PAR_ANY : PAR_MBISO;
			adv_pair(r, a, F_UTF8, F_U16LE, par, nr, false);
			adv_pair(r, a, F_UTF8, F_U16BE, par, nr, false);
			adv_pair(r, a, F_UTF8, F_UTF8, par, nr, false);
			adv_pair(r, a, F_ANY, F_U16LE, is_u16(detect_any(a->b, a->n)) ? PAR_EVEN : par, nr, false);
		} else if (is_u16(a->fmt)) {
			/* an odd-sized region anywhere (also the last one of an odd-length input) belongs to the crash-prone class */
			int par = which == 1 ? ((a->n & 1) ? PAR_ANY : PAR_NEEDODD) : which == 4 ? PAR_SINGLE : PAR_EVEN;
			if (which == 0 && (a->n & 1)) continue;   /* odd total length: explored in adv16odd / adv16tail */
			if (which == 4 && !(a->n & 1)) continue;
			int other = a->fmt == F_U16LE ? F_U16BE : F_U16LE;
			adv_pair(r, a, a->fmt, F_UTF8, par, nr, false);
			adv_pair(r, a, a->fmt, other, par, nr, false);
			adv_pair(r, a, a->fmt, a->fmt, par, nr, false);
			adv_pair(r, a, F_ANY, F_UTF8, par, nr, false);
		} else if (which == 0) {
			adv_pair(r, a, a->fmt, F_NONE, PAR_ANY, nr, false);
			if (i % 16 == 0) adv_pair(r, a, F_NONE, F_NONE, PAR_ANY, 2, false);   /* the identity pair is a supported pair too */
		} else {
			for (int j = 0; j < 3; j++) adv_pair(r, a, a->fmt, basen[j], PAR_ANY, nr, true);
		}
	}
	adv_clear();
}

/* ================================================================== incompatible pairs */
static void run_incompat(vf_rng_t *r)
{
	buf_t s = { 0 };
	for (int fi = 0; fi < F_N; fi++) {
		for (int variant = 0; variant < 3; variant++) {
			uint8_t x[12];
			size_t xn = vf_rnd_range(r, 1, 10);
			for (size_t i = 0; i < xn; i++) x[i] = (uint8_t)vf_rnd(r);
			buf_reset(&s);
			if (fi == F_NONE) buf_add(&s, x, xn);
			else if (is_basen(fi)) ref_basen_encode(fi, x, xn, &s);
			else {
				int enc = fi == F_ANY ? (variant == 0 ? F_UTF8 : variant == 1 ? F_U16LE : F_U16BE) : fi;
				if (is_u16(enc)) ref_u16_put(&s, 0xfeff, enc);
				for (int i = 0; i < 3; i++) { uint32_t c = draw_cp(r); if (enc == F_UTF8) ref_utf8_put(&s, c); else ref_u16_put(&s, c, enc); }
			}
			const uint8_t *b = s.p; size_t n = s.n;
			const char *icls = "valid-for-input-format";
			input_t in = { b, n, NULL, icls };
			g_cur.b = b; g_cur.n = n;
			track_input(n);
			for (int fo = 0; fo < F_N; fo++) {
				if (supported(fi, fo)) continue;
				for_each_frag(r, &in, (is_u16(fi) || fi == F_ANY) ? PAR_EVEN : PAR_ANY, 3, ^(const size_t *sz, size_t k, unsigned feat, const char *kind) {
					dispatch_data_t res = xform_bytes(b, n, sz, k, fi, fo, "incompatible pair");
					CNT(cases_incompatible);
					if (res) {
						char key[160], hx[128], ss[160];
						snprintf(key, sizeof(key), "C20:incompatible-pair-accepted:%s-to-%s", fname[fi], fname[fo]);
						vf_violation(key, "%s->%s is documented as not combinable, but %s split as %s was transformed into a %zu byte object instead of NULL",
								fname[fi], fname[fo], hexs(hx, sizeof(hx), b, n), sizes_str(ss, sizeof(ss), sz, k), dispatch_data_get_size(res));
						dispatch_release(res);
					}
					note_case(fi, fo, icls, k, feat, kind, res ? "VIOLATION:accepted" : "null", b, n, sz);
				});
			}
		}
	}
	buf_free(&s);
}

/* ================================================================== main */
int main(int argc, char **argv)
{
	vf_init(argc, argv, "h_transform");
	install_witness();
	const char *mode = vf_opts.mode;
	bool thorough = !strcmp(vf_opts.tier, "thorough");
	size_t maxlen = (size_t)vf_opt_long("maxlen", thorough ? 4096 : 600);
	int ninputs = (int)(vf_opt_long("nrand", 10) * vf_opts.scale / 100);
	int flush_every = (int)vf_opt_long("flush", thorough ? 100 : 10);
	if (flush_every < 1) flush_every = 1;
	if (maxlen < 80) maxlen = 80;
	if (ninputs < 1) ninputs = 1;
	for (int tr = 0; tr < vf_opts.trials; tr++) {
		int idx = vf_opts.first_trial + tr;
		vf_rng_t r;
		vf_rng_seed(&r, vf_opts.seed, (uint64_t)idx * 7919 + vf_hash_str(VF_HASH_INIT, mode) % 1000);
		g_cur.trial = idx;
		if (g_batch_first < 0) g_batch_first = idx;
		vf_watch_begin("transform", 0);
		if (!strcmp(mode, "base32")) run_basen(&r, F_B32, idx, true, true, maxlen, ninputs);
		else if (!strcmp(mode, "base32hex")) run_basen(&r, F_B32HEX, idx, true, true, maxlen, ninputs);
		else if (!strcmp(mode, "base64")) run_basen(&r, F_B64, idx, true, true, maxlen, ninputs);
		else if (!strcmp(mode, "utf8to16")) run_utf(&r, 0, idx, true, true, maxlen, ninputs);
		else if (!strcmp(mode, "utf8iso")) run_utf(&r, 4, idx, true, true, maxlen, ninputs);
		else if (!strcmp(mode, "adv8any")) run_adversarial(&r, 3, true, maxlen);
		else if (!strcmp(mode, "adv16tail")) run_adversarial(&r, 4, true, maxlen);
		else if (!strcmp(mode, "utf16even")) run_utf(&r, 1, idx, true, true, maxlen, ninputs);
		else if (!strcmp(mode, "utf16odd")) run_utf(&r, 2, idx, true, true, maxlen, ninputs);
		else if (!strcmp(mode, "utfany")) run_utf(&r, 3, idx, true, true, maxlen, ninputs);
		else if (!strcmp(mode, "adversarial")) run_adversarial(&r, 0, true, maxlen);
		else if (!strcmp(mode, "adv16odd")) run_adversarial(&r, 1, true, maxlen);
		else if (!strcmp(mode, "chain")) run_adversarial(&r, 2, true, maxlen);
		else if (!strcmp(mode, "incompat")) run_incompat(&r);
		else if (!strcmp(mode, "exhaustive")) {   /* only the exhaustively enumerated sub-space, non-crashing classes */
			run_basen(&r, F_B32, idx, true, false, maxlen, 0);
			run_basen(&r, F_B32HEX, idx, true, false, maxlen, 0);
			run_basen(&r, F_B64, idx, true, false, maxlen, 0);
			run_utf(&r, 4, idx, true, false, maxlen, 0);
			run_utf(&r, 1, idx, true, false, maxlen, 0);
			run_utf(&r, 3, idx, true, false, maxlen, 0);
			run_adversarial(&r, 0, false, maxlen);
			run_incompat(&r);
		} else vf_fail("unknown --mode=%s", mode);
		vf_watch_end();
		vf_count("cases", g_cases); g_cases = 0;
		vf_count("transforms_called", g_calls); g_calls = 0;
		flush_counters();
		if ((tr + 1) % flush_every == 0 || tr + 1 == vf_opts.trials) { flush_tuples(); g_batch_first = -1; }
	}
	return vf_finish();
}
