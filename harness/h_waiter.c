/*
 * h_waiter.c — directed schedule for "the library is done with a waiter's sync context
 * when the synchronous call returns" (C01: every synchronous call returns, C05: the
 * waiter hand-off, C17: memory safety).
 *
 * dispatch_sync / dispatch_barrier_sync / dispatch_async_and_wait keep their bookkeeping
 * (struct dispatch_sync_context_s) on the caller's stack. A waiter T of a queue Q that
 * targets a busy bottom B (a workloop or a serial queue) is *redirected* to B when Q is
 * handed to it. The redirecting thread A is not always the owner of B: a thread that
 * completes a dispatch_async_and_wait(Q) whose body ran remotely on B's drainer D unlocks
 * Q while D still owns B. D can then pop T's context, hand B to T, and T returns while A
 * is still inside the push function.
 *
 * Schedule (two failpoints through hook H1):
 *   D   is stalled right after it ran A's body, still owning B: in the drain's unlock (workloop) or, through
 *       hook H3, before the drain loop re-reads the list tail (serial queue);
 *   A   wakes, completes Q, redirects T's context to B and is stalled inside the push,
 *       right after the context became visible to D;
 *   D   is released, finds T's context, hands B over; T runs/returns;
 *   T   paints a canary over the stack region its sync context occupied and tells the
 *       controller, which releases A;
 *   A   finishes the push function; T verifies the canary.
 * Oracles: the canary is intact (plain build: any store to the dead context is seen);
 * ASan with detect_stack_use_after_return (ASan build: any load or store is seen).
 */
#include "vf_common.h"
#include <dispatch/dispatch.h>
#include <dispatch/private.h>
#include <sched.h>

enum { TK_SYNC, TK_BARRIER_SYNC, TK_ASYNC_AND_WAIT, TK_SYNC_BLOCK, TK_NKINDS };
static const char *tk_names[] = { "dispatch_sync_f", "dispatch_barrier_sync_f", "dispatch_async_and_wait_f", "dispatch_sync(block)" };

typedef struct {
	dispatch_queue_t base, q;
	int base_is_wl, tkind, depth;
	_Atomic int b1_started, b1_release, b2_ran;
	_Atomic int a_body_tid, a_tid, a_done, a_calling;
	_Atomic int t_body_ran, t_calling, t_painted, t_tid;
	_Atomic int canary_bad; int bad_off; unsigned bad_val;
	_Atomic int verified;
} sc_t;

static void nap_us(long us) { struct timespec ts = { 0, us * 1000 }; nanosleep(&ts, NULL); }

static void b1_body(void *ctx)
{
	sc_t *s = ctx;
	atomic_store(&s->b1_started, 1);
	while (!atomic_load(&s->b1_release)) nap_us(50);
	vf_progress();
}
static void b2_body(void *ctx) { sc_t *s = ctx; atomic_store(&s->b2_ran, 1); vf_progress(); }

/* runs on B's drainer D: D arms its own failpoint before the compare-and-swap of its unlock */
static void a_body(void *ctx)
{
	sc_t *s = ctx;
	atomic_store(&s->a_body_tid, vf_gettid());
	if (s->base_is_wl) {
		/* before the compare-and-swap of the unlock: A's push marks the workloop dirty, the unlock fails and D drains again */
		vf_stall_arm("_dispatch_queue_drain_try_unlock", 3, 0, 3000ull * 1000 * 1000);
	} else {
		/* hook H3: before the drain loop re-reads the tail of the list it has just emptied */
		vf_stall_arm("_dispatch_lane_drain", 5, 0, 3000ull * 1000 * 1000);
	}
	vf_progress();
}
static void t_body(void *ctx) { sc_t *s = ctx; atomic_store(&s->t_body_ran, 1); vf_progress(); }

static void *a_main(void *arg)
{
	sc_t *s = arg;
	atomic_store(&s->a_tid, vf_gettid());
	if (s->base_is_wl) {
		/* after the compare-and-swap on the workloop state that follows a push onto an empty bucket */
		vf_stall2_arm("_dispatch_workloop_push_waiter", 3, 1, 3000ull * 1000 * 1000);
	} else {
		/* after the store that links T's context into the base queue. Every push does two stores (do_next = NULL
		 * before the tail exchange, then the link): skip A's own context, T's context pushed onto the middle
		 * queue (depth 1), and the first store of the push onto the base */
		vf_stall2_arm("_dispatch_queue_push_item", 1, 1, 3000ull * 1000 * 1000);
		vf_stall2_skip(2 * (1 + s->depth) + 1);
	}
	atomic_store(&s->a_calling, 1);
	dispatch_async_and_wait_f(s->q, s, a_body);
	vf_stall_disarm();
	atomic_store(&s->a_done, 1);
	return NULL;
}

#define CANARY_N 6144
__attribute__((noinline)) static void t_paint_and_verify(sc_t *s)
{
	volatile unsigned char canary[CANARY_N];
	for (int i = 0; i < CANARY_N; i++) canary[i] = 0xff;
	atomic_store(&s->t_painted, 1);
	uint64_t t0 = vf_now_ns(CLOCK_MONOTONIC);
	while (!atomic_load(&s->a_done) && vf_now_ns(CLOCK_MONOTONIC) - t0 < 8000000000ull) nap_us(50);
	nap_us(200);
	for (int i = 0; i < CANARY_N; i++) {
		if (canary[i] != 0xff) {
			s->bad_off = i; s->bad_val = canary[i];
			atomic_store(&s->canary_bad, 1);
			break;
		}
	}
	atomic_store(&s->verified, 1);
}

__attribute__((noinline)) static void t_call(sc_t *s)
{
	/* keeps the library's frames (and the sync context in them) below the top of the canary painted later */
	volatile unsigned char pad[512];
	pad[0] = 1; pad[511] = 1;
	switch (s->tkind) {
	case TK_SYNC: dispatch_sync_f(s->q, s, t_body); break;
	case TK_BARRIER_SYNC: dispatch_barrier_sync_f(s->q, s, t_body); break;
	case TK_ASYNC_AND_WAIT: dispatch_async_and_wait_f(s->q, s, t_body); break;
	default: dispatch_sync(s->q, ^{ t_body(s); }); break;
	}
	pad[1] = 2;   /* no tail call: this frame stays below the caller's while the library runs */
}

static void *t_main(void *arg)
{
	sc_t *s = arg;
	atomic_store(&s->t_tid, vf_gettid());
	atomic_store(&s->t_calling, 1);
	t_call(s);
	if (!atomic_load(&s->t_body_ran)) vf_violation("C05:sync-returned-early", "%s returned before its work item ran (redirected waiter)", tk_names[s->tkind]);
	t_paint_and_verify(s);
	return NULL;
}

static int thread_asleep(int tid)
{
	char p[64], buf[256];
	snprintf(p, sizeof(p), "/proc/self/task/%d/stat", tid);
	FILE *f = fopen(p, "r");
	if (!f) return 0;
	size_t n = fread(buf, 1, sizeof(buf) - 1, f);
	fclose(f);
	buf[n] = 0;
	char *c = strrchr(buf, ')');
	return c && c[1] == ' ' && c[2] == 'S';
}

static int wait_flag(_Atomic int *f, uint64_t max_ms)
{
	uint64_t t0 = vf_now_ns(CLOCK_MONOTONIC);
	while (!atomic_load(f)) {
		if (vf_now_ns(CLOCK_MONOTONIC) - t0 > max_ms * 1000000ull) return 0;
		nap_us(20);
	}
	return 1;
}
static int wait_asleep(_Atomic int *tidp, uint64_t max_ms)
{
	uint64_t t0 = vf_now_ns(CLOCK_MONOTONIC);
	int streak = 0;
	while (streak < 3) {
		if (vf_now_ns(CLOCK_MONOTONIC) - t0 > max_ms * 1000000ull) return 0;
		int tid = atomic_load(tidp);
		if (tid && thread_asleep(tid)) streak++; else streak = 0;
		nap_us(300);
	}
	return 1;
}

static void run_trial(int idx)
{
	sc_t *s = calloc(1, sizeof(*s));
	s->base_is_wl = !(idx & 1);
	s->tkind = (idx >> 1) % TK_NKINDS;
	s->depth = (idx >> 3) & 1;      /* 0: Q -> base, 1: Q -> inner serial queue -> base */
	vf_perturb_off();
	vf_stall_reset();
	if (s->base_is_wl) {
		dispatch_workloop_t wl = dispatch_workloop_create_inactive("vf.waiter.workloop");
		dispatch_activate(wl);
		s->base = (dispatch_queue_t)wl;
	} else {
		s->base = dispatch_queue_create("vf.waiter.serial-base", DISPATCH_QUEUE_SERIAL);
	}
	dispatch_queue_t mid = NULL;
	if (s->depth) mid = dispatch_queue_create_with_target("vf.waiter.mid", DISPATCH_QUEUE_SERIAL, s->base);
	s->q = dispatch_queue_create_with_target("vf.waiter.q", DISPATCH_QUEUE_SERIAL, mid ? mid : s->base);

	vf_watch_begin("waiter:redirect", 0);
	/* B1 keeps the base busy; B2 keeps its list non-empty when A pushes its own context */
	dispatch_async_f(s->base, s, b1_body);
	int ok = wait_flag(&s->b1_started, 5000);
	dispatch_async_f(s->base, s, b2_body);
	pthread_t ta, tt;
	pthread_create(&ta, NULL, a_main, s);
	/* A owns Q and sleeps on the base */
	ok = ok && wait_flag(&s->a_calling, 5000) && wait_asleep(&s->a_tid, 5000);
	int early2 = vf_stall2_reached();            /* must not have fired on A's own push */
	pthread_create(&tt, NULL, t_main, s);
	/* T is queued on Q (owned by A) and sleeps */
	ok = ok && wait_flag(&s->t_calling, 5000) && wait_asleep(&s->t_tid, 5000);
	atomic_store(&s->b1_release, 1);
	/* D runs B2 and A's body, then stalls in its unlock; A redirects T's context and stalls in the push */
	uint64_t t0 = vf_now_ns(CLOCK_MONOTONIC);
	while (!(vf_stall_reached() && vf_stall2_reached()) && vf_now_ns(CLOCK_MONOTONIC) - t0 < 2500000000ull) nap_us(50);
	int d_stalled = vf_stall_reached(), a_stalled = vf_stall2_reached() && !early2;
	int remote = atomic_load(&s->a_body_tid) && atomic_load(&s->a_body_tid) != atomic_load(&s->a_tid);
	vf_stall_release();                          /* D goes on, finds T's context, hands the base over */
	int painted = wait_flag(&s->t_painted, 6000);
	int a_still_inside = !atomic_load(&s->a_done);
	vf_stall2_release();                         /* A finishes the push function */
	pthread_join(ta, NULL);
	pthread_join(tt, NULL);
	vf_watch_end();
	int engaged = ok && d_stalled && a_stalled && remote && painted && a_still_inside;
	if (atomic_load(&s->canary_bad)) {
		vf_violation(s->base_is_wl ? "C05:waiter-stack-written-after-return:redirected-to-workloop" : "C05:waiter-stack-written-after-return:redirected-to-serial-queue",
				"%s on a queue targeting a %s returned, and afterwards the thread that redirected its sync context wrote to the caller's stack: "
				"canary byte %d below the caller's frame changed from 0xff to %#x (A completed dispatch_async_and_wait on the same queue while the %s's drainer handed it to the waiter)",
				tk_names[s->tkind], s->base_is_wl ? "workloop" : "serial queue", s->bad_off, s->bad_val, s->base_is_wl ? "workloop" : "queue");
	}
	if (!atomic_load(&s->t_body_ran) || !atomic_load(&s->b2_ran)) vf_violation("C01:never-ran", "redirected waiter scenario: an item did not run");
	vf_count("waiter_trials", 1);
	if (engaged) vf_count("waiter_schedule_reached", 1);
	vf_count("items", 4);
	vf_emit("trial", "\"n\":1,\"sig\":\"wt-%d-%d-%d-%d\",\"nontrivial\":%s,\"sample\":{\"trial\":%d,\"shape\":\"redirected-waiter\",\"base\":\"%s\",\"depth\":%d,\"T\":\"%s\","
			"\"drainer_stalled_before_unlock\":%d,\"redirector_stalled_inside_push\":%d,\"A_body_ran_remotely\":%d,\"T_returned_while_A_inside_push\":%d,\"canary_intact\":%d}",
			s->base_is_wl, s->tkind, s->depth, engaged, engaged ? "true" : "false", idx, s->base_is_wl ? "workloop" : "serial", s->depth + 1, tk_names[s->tkind],
			d_stalled, a_stalled, remote, painted && a_still_inside, !atomic_load(&s->canary_bad));
	dispatch_release(s->q);
	if (mid) dispatch_release(mid);
	dispatch_release(s->base);
	free(s);
}

int main(int argc, char **argv)
{
	vf_init(argc, argv, "h_waiter");
	for (int i = 0; i < vf_opts.trials; i++) run_trial(vf_opts.first_trial + i);
	return vf_finish();
}
