/* vf_common.c — see vf_common.h */
#include "vf_common.h"
#include <stdarg.h>
#include <signal.h>
#include <dirent.h>
#include <sched.h>
#include <execinfo.h>
#include <dlfcn.h>
#include <sys/syscall.h>
#include <sys/time.h>
#include <sys/resource.h>
#include <sys/wait.h>
#include <sys/prctl.h>

extern void (*volatile _dispatch_verif_atomic_hook)(int phase, int op,
		const volatile void *addr, const char *func, int line);

#if VF_TSAN
extern void __tsan_acquire(void *addr);
extern void __tsan_release(void *addr);
#endif

_Atomic uint64_t vf_stamp_ctr;
_Atomic uint64_t vf_progress_ctr;
vf_opts_t vf_opts;

static const char *g_harness = "?";
static char **g_argv; static int g_argc;
static pthread_mutex_t g_out_mtx = PTHREAD_MUTEX_INITIALIZER;
static _Atomic int g_violations;
static struct timespec g_t0;

/* ------------------------------------------------------------------ misc */
uint64_t vf_now_ns(clockid_t clk)
{
	struct timespec ts;
	clock_gettime(clk, &ts);
	return (uint64_t)ts.tv_sec * 1000000000ull + (uint64_t)ts.tv_nsec;
}

void vf_spin_ns(uint64_t ns)
{
	uint64_t t0 = vf_now_ns(CLOCK_MONOTONIC);
	while (vf_now_ns(CLOCK_MONOTONIC) - t0 < ns) {
		__asm__ __volatile__("pause");
	}
}

int vf_gettid(void)
{
	static __thread int tid;
	if (!tid) tid = (int)syscall(SYS_gettid);
	return tid;
}

int vf_log2_bucket(uint64_t v)
{
	int b = 0;
	while (v) { b++; v >>= 1; }
	return b;
}

void vf_rng_seed(vf_rng_t *r, uint64_t seed, uint64_t stream)
{
	/* splitmix64 over (seed, stream) */
	uint64_t x = seed * 0x9e3779b97f4a7c15ull + stream * 0xbf58476d1ce4e5b9ull + 0x1234567;
	for (int i = 0; i < 4; i++) {
		x += 0x9e3779b97f4a7c15ull;
		uint64_t z = x;
		z = (z ^ (z >> 30)) * 0xbf58476d1ce4e5b9ull;
		z = (z ^ (z >> 27)) * 0x94d049bb133111ebull;
		r->s[i] = z ^ (z >> 31);
	}
	if (!(r->s[0] | r->s[1] | r->s[2] | r->s[3])) r->s[0] = 1;
}

/* --------------------------------------------------------------- options */
const char *vf_opt(const char *name, const char *dflt)
{
	size_t n = strlen(name);
	for (int i = 1; i < g_argc; i++) {
		const char *a = g_argv[i];
		if (a[0] == '-' && a[1] == '-' && !strncmp(a + 2, name, n) && a[2 + n] == '=') {
			return a + 3 + n;
		}
	}
	return dflt;
}

long vf_opt_long(const char *name, long dflt)
{
	const char *v = vf_opt(name, NULL);
	return v ? strtol(v, NULL, 0) : dflt;
}

/* ------------------------------------------------------------ JSON output */
static void json_escape(FILE *f, const char *s)
{
	for (; *s; s++) {
		unsigned char c = (unsigned char)*s;
		if (c == '"' || c == '\\') { fputc('\\', f); fputc(c, f); }
		else if (c == '\n') fputs("\\n", f);
		else if (c < 0x20) fprintf(f, "\\u%04x", c);
		else fputc(c, f);
	}
}

void vf_emit(const char *type, const char *fmt, ...)
{
	va_list ap;
	pthread_mutex_lock(&g_out_mtx);
	fprintf(stdout, "{\"type\":\"%s\",\"harness\":\"%s\"", type, g_harness);
	if (fmt && *fmt) {
		fputc(',', stdout);
		va_start(ap, fmt);
		vfprintf(stdout, fmt, ap);
		va_end(ap);
	}
	fputs("}\n", stdout);
	fflush(stdout);
	pthread_mutex_unlock(&g_out_mtx);
}

#define VF_MAX_VKEYS 64
static struct { char key[160]; int n; } g_vkeys[VF_MAX_VKEYS];
static int g_nvkeys;

void vf_violation(const char *key, const char *fmt, ...)
{
	char detail[2048];
	va_list ap;
	va_start(ap, fmt);
	vsnprintf(detail, sizeof(detail), fmt, ap);
	va_end(ap);
	atomic_fetch_add(&g_violations, 1);
	pthread_mutex_lock(&g_out_mtx);
	int i, printed = 0;
	for (i = 0; i < g_nvkeys; i++) if (!strcmp(g_vkeys[i].key, key)) break;
	if (i == g_nvkeys && g_nvkeys < VF_MAX_VKEYS) {
		snprintf(g_vkeys[i].key, sizeof(g_vkeys[i].key), "%s", key);
		g_vkeys[i].n = 0;
		g_nvkeys++;
	}
	if (i < VF_MAX_VKEYS) printed = g_vkeys[i].n++;
	if (printed < 5) { /* at most 5 witnesses per key and process */
		fprintf(stdout, "{\"type\":\"violation\",\"harness\":\"%s\",\"key\":\"", g_harness);
		json_escape(stdout, key);
		fputs("\",\"detail\":\"", stdout);
		json_escape(stdout, detail);
		fputs("\",\"argv\":\"", stdout);
		for (int a = 0; a < g_argc; a++) { if (a) fputc(' ', stdout); json_escape(stdout, g_argv[a]); }
		fprintf(stdout, "\"}\n");
		fflush(stdout);
	}
	pthread_mutex_unlock(&g_out_mtx);
}

int vf_violations(void) { return atomic_load(&g_violations); }

void vf_fail(const char *fmt, ...)
{
	char detail[1024];
	va_list ap;
	va_start(ap, fmt);
	vsnprintf(detail, sizeof(detail), fmt, ap);
	va_end(ap);
	pthread_mutex_lock(&g_out_mtx);
	fprintf(stdout, "{\"type\":\"harness_failure\",\"harness\":\"%s\",\"detail\":\"", g_harness);
	json_escape(stdout, detail);
	fputs("\"}\n", stdout);
	fflush(stdout);
	pthread_mutex_unlock(&g_out_mtx);
	_exit(2);
}

/* named counters */
#define VF_MAX_CTRS 256
static struct { char name[64]; _Atomic uint64_t v; } g_ctrs[VF_MAX_CTRS];
static _Atomic int g_nctrs;
static pthread_mutex_t g_ctr_mtx = PTHREAD_MUTEX_INITIALIZER;

static int ctr_find(const char *name, bool create)
{
	int n = atomic_load(&g_nctrs);
	for (int i = 0; i < n; i++) if (!strcmp(g_ctrs[i].name, name)) return i;
	if (!create) return -1;
	pthread_mutex_lock(&g_ctr_mtx);
	n = atomic_load(&g_nctrs);
	int i;
	for (i = 0; i < n; i++) if (!strcmp(g_ctrs[i].name, name)) break;
	if (i == n) {
		if (n == VF_MAX_CTRS) { pthread_mutex_unlock(&g_ctr_mtx); return -1; }
		snprintf(g_ctrs[i].name, sizeof(g_ctrs[i].name), "%s", name);
		atomic_store(&g_nctrs, n + 1);
	}
	pthread_mutex_unlock(&g_ctr_mtx);
	return i;
}

void vf_count(const char *name, uint64_t add)
{
	int i = ctr_find(name, true);
	if (i >= 0) atomic_fetch_add_explicit(&g_ctrs[i].v, add, memory_order_relaxed);
}

uint64_t vf_count_get(const char *name)
{
	int i = ctr_find(name, false);
	return i >= 0 ? atomic_load(&g_ctrs[i].v) : 0;
}

/* ------------------------------------------------- site coverage + perturb */
#define VF_SITE_TAB 1024
typedef struct vf_site { const char *func; int line; int op; uint32_t hash; uint64_t hits; int is_wait; } vf_site_t;
typedef struct vf_site_tab {
	struct vf_site_tab *next;
	uint64_t total;                 /* library atomics executed by this thread (written by the owner only) */
	vf_site_t e[VF_SITE_TAB];
} vf_site_tab_t;
static vf_site_tab_t *_Atomic g_site_tabs;
static int g_futexstorm_hz;
static _Atomic uintptr_t g_fx_ring[64];
static _Atomic unsigned g_fx_n;
static _Atomic uint64_t g_fx_sent;

typedef struct {
	vf_site_tab_t *tab;
	vf_rng_t rng;
	int rng_epoch;
	int in_hook;
	uint64_t accesses;
	int is_victim;
	const char *stall_func; int stall_op, stall_phase, stall_skip; uint64_t stall_max_ns;
	const char *stall2_func; int stall2_op, stall2_phase, stall2_skip; uint64_t stall2_max_ns;
} vf_tls_t;
static __thread vf_tls_t tl;

static vf_profile_t g_prof;          /* written only while no client activity */
static _Atomic int g_prof_epoch;
static _Atomic uint64_t g_injected;
static _Atomic int g_victim_tid;

static _Atomic int g_stall_reached, g_stall_release;
void vf_stall_arm(const char *func, int op, int phase, uint64_t max_ns);
static _Atomic int g_stall2_reached, g_stall2_release;
void vf_stall_reset(void) { atomic_store(&g_stall_reached, 0); atomic_store(&g_stall_release, 0); atomic_store(&g_stall2_reached, 0); atomic_store(&g_stall2_release, 0); }
bool vf_stall2_reached(void) { return atomic_load(&g_stall2_reached) != 0; }
void vf_stall2_release(void) { atomic_store(&g_stall2_release, 1); }
bool vf_stall_reached(void) { return atomic_load(&g_stall_reached) != 0; }
void vf_stall_release(void) { atomic_store(&g_stall_release, 1); }

static uint32_t site_hash(const char *func, int line, int op)
{
	uint64_t h = vf_hash_str(VF_HASH_INIT, func);
	h = vf_hash64(h, (uint64_t)line * 8 + (uint64_t)op);
	return (uint32_t)(h ^ (h >> 32));
}

static vf_site_t *site_lookup(const char *func, int line, int op)
{
	if (!tl.tab) {
		vf_site_tab_t *t = calloc(1, sizeof(*t));
		if (!t) return NULL;
		vf_site_tab_t *head = atomic_load(&g_site_tabs);
		do { t->next = head; } while (!atomic_compare_exchange_weak(&g_site_tabs, &head, t));
		tl.tab = t;
	}
	uintptr_t k = ((uintptr_t)func >> 2) * 31 + (uintptr_t)line * 7 + (uintptr_t)op;
	for (unsigned i = 0; i < VF_SITE_TAB; i++) {
		vf_site_t *s = &tl.tab->e[(k + i) & (VF_SITE_TAB - 1)];
		if (s->func == func && s->line == line && s->op == op) return s;
		if (!s->func) {
			s->line = line; s->op = op; s->hash = site_hash(func, line, op);
			s->hits = 0;
			s->is_wait = strstr(func, "wait") != NULL;
			/* publish func last: readers (merge) only look at entries with func set */
			__atomic_store_n(&s->func, func, __ATOMIC_RELEASE);
			return s;
		}
	}
	return NULL;
}

static void vf_do_delay(vf_rng_t *r, int strong)
{
	atomic_fetch_add_explicit(&g_injected, 1, memory_order_relaxed);
	if (strong) {
		struct timespec ts = { 0, (long)vf_rnd_range(r, 50, 500) * 1000 };
		nanosleep(&ts, NULL);
		return;
	}
	uint32_t c = vf_rnd_n(r, 8);
	if (c < 6) {
		sched_yield();
	} else {
		struct timespec ts = { 0, (long)vf_rnd_range(r, 1, 200) * 1000 };
		nanosleep(&ts, NULL);
	}
}

/* Debugging aid (VF_TRACE=1): per-thread rings of the library atomics seen by H1;
 * on a fatal signal the entries that touch the faulting thread's stack are printed. */
#define VF_TR_N 65536
typedef struct { uint64_t seq; const volatile void *addr; const char *func; uint64_t val; int line; short op, phase; int tid; } vf_tr_ent_t;
typedef struct vf_tr_ring { vf_tr_ent_t e[VF_TR_N]; unsigned n; struct vf_tr_ring *next; int tid; } vf_tr_ring_t;
static int g_trace;
static vf_tr_ring_t *_Atomic g_tr_rings;
static __thread vf_tr_ring_t *tl_ring;
static _Atomic uint64_t g_tr_seq;

static void vf_trace_rec(int phase, int op, const volatile void *addr, const char *func, int line)
{
	vf_tr_ring_t *r = tl_ring;
	if (!r) {
		r = calloc(1, sizeof(*r));
		r->tid = vf_gettid();
		r->next = atomic_load(&g_tr_rings);
		while (!atomic_compare_exchange_weak(&g_tr_rings, &r->next, r)) { }
		tl_ring = r;
	}
	vf_tr_ent_t *e = &r->e[r->n++ % VF_TR_N];
	e->seq = atomic_fetch_add(&g_tr_seq, 1); e->addr = addr; e->func = func; e->line = line; e->op = (short)op; e->phase = (short)phase; e->tid = r->tid;
	e->val = ((uintptr_t)addr & 7) ? (((uintptr_t)addr & 3) ? 0 : *(const volatile uint32_t *)addr) : *(const volatile uint64_t *)addr;
}

static void vf_trace_dump(int sig, siginfo_t *si, void *uc)
{
	(void)si; (void)uc;
	char lo_marker; uintptr_t sp = (uintptr_t)&lo_marker;
	uintptr_t lo = sp - (64 << 10), hi = sp + (64 << 10);
	fprintf(stderr, "VF_TRACE: signal %d on tid %d, sp=%p; atomics on [%p,%p):\n", sig, vf_gettid(), (void *)sp, (void *)lo, (void *)hi);
	for (vf_tr_ring_t *r = atomic_load(&g_tr_rings); r; r = r->next) {
		unsigned n = r->n < VF_TR_N ? r->n : VF_TR_N;
		for (unsigned i = 0; i < n; i++) {
			vf_tr_ent_t *e = &r->e[i];
			if ((uintptr_t)e->addr >= lo && (uintptr_t)e->addr < hi)
				fprintf(stderr, "VF_TRACE %llu tid=%d %s:%d op=%d phase=%d addr=%p val=%#llx\n", (unsigned long long)e->seq, e->tid, e->func, e->line, e->op, e->phase, (void *)e->addr, (unsigned long long)e->val);
		}
	}
	/* a trap in a dispose path: the crashing thread's last "release" names the object; print every recorded atomic on that
	 * object (reference counts, state word, list pointers) from all threads */
	if (tl_ring) {
		unsigned n = tl_ring->n < VF_TR_N ? tl_ring->n : VF_TR_N;
		const vf_tr_ent_t *last = NULL;
		for (unsigned i = 0; i < n; i++) { const vf_tr_ent_t *e = &tl_ring->e[i]; if (strstr(e->func, "release") && (!last || e->seq > last->seq)) last = e; }
		if (last) {
			uintptr_t base = ((uintptr_t)last->addr & ~(uintptr_t)15), olo = base - 16, ohi = base + 0x90;
			fprintf(stderr, "VF_TRACE: object of the last release on this thread (%s, %p): atomics on [%p,%p):\n", last->func, (void *)last->addr, (void *)olo, (void *)ohi);
			for (vf_tr_ring_t *r = atomic_load(&g_tr_rings); r; r = r->next) {
				unsigned m = r->n < VF_TR_N ? r->n : VF_TR_N;
				for (unsigned i = 0; i < m; i++) {
					vf_tr_ent_t *e = &r->e[i];
					if ((uintptr_t)e->addr >= olo && (uintptr_t)e->addr < ohi)
						fprintf(stderr, "VF_TRACE_OBJ %llu tid=%d %s:%d op=%d phase=%d addr=%p val=%#llx\n", (unsigned long long)e->seq, e->tid, e->func, e->line, e->op, e->phase, (void *)e->addr, (unsigned long long)e->val);
				}
			}
		}
	}
	fflush(stderr);
	signal(sig, SIG_DFL);
	raise(sig);
}

/* addresses of interest (VF_TRACE): dumped, ordered by sequence number, when a violation is reported */
static const volatile void *g_tr_watch[32]; static int g_tr_nwatch;
void vf_trace_watch(const volatile void *addr) { if (g_tr_nwatch < 32) g_tr_watch[g_tr_nwatch++] = addr; }
void vf_trace_watch_reset(void) { g_tr_nwatch = 0; }
static int tr_cmp(const void *a, const void *b) { const vf_tr_ent_t *x = *(vf_tr_ent_t *const *)a, *y = *(vf_tr_ent_t *const *)b; return x->seq < y->seq ? -1 : x->seq > y->seq; }
void vf_trace_dump_watched(void)
{
	if (!g_trace || !g_tr_nwatch) return;
	size_t cap = 0, n = 0;
	for (vf_tr_ring_t *r = atomic_load(&g_tr_rings); r; r = r->next) cap += VF_TR_N;
	vf_tr_ent_t **v = malloc(sizeof(*v) * (cap + 1));
	for (vf_tr_ring_t *r = atomic_load(&g_tr_rings); r; r = r->next) {
		unsigned m = r->n < VF_TR_N ? r->n : VF_TR_N;
		for (unsigned i = 0; i < m; i++) for (int w = 0; w < g_tr_nwatch; w++) if (r->e[i].addr == g_tr_watch[w]) { v[n++] = &r->e[i]; break; }
	}
	qsort(v, n, sizeof(*v), tr_cmp);
	for (size_t i = 0; i < n; i++) fprintf(stderr, "VF_TRACE %llu tid=%d %s:%d op=%d phase=%d addr=%p val=%#llx\n", (unsigned long long)v[i]->seq, v[i]->tid, v[i]->func, v[i]->line, v[i]->op, v[i]->phase, (void *)v[i]->addr, (unsigned long long)v[i]->val);
	fflush(stderr);
	free(v);
}

static void vf_atomic_hook(int phase, int op, const volatile void *addr,
		const char *func, int line)
{
	if (tl.in_hook) return;
	tl.in_hook = 1;
	if (g_trace) vf_trace_rec(phase, op, addr, func, line);
#if VF_TSAN
	/* TSO promotion (DESIGN §6.2): every library atomic is at least
	 * release (store side) / acquire (load side) on the 8-byte cell. */
	void *cell = (void *)((uintptr_t)addr & ~(uintptr_t)7);
	if (phase == 0 && op != 0 && op < 5) __tsan_release(cell);
	if (phase == 1 && op != 1 && op < 5) __tsan_acquire(cell);   /* op 5: a named point, no access */
#else
	(void)addr;
#endif
	if (tl.stall_func && phase == tl.stall_phase && op == tl.stall_op && !strcmp(func, tl.stall_func) && tl.stall_skip-- <= 0) {
		uint64_t t0 = vf_now_ns(CLOCK_MONOTONIC), max_ns = tl.stall_max_ns;
		tl.stall_func = NULL;
		atomic_store(&g_stall_reached, 1);
		while (!atomic_load(&g_stall_release) && vf_now_ns(CLOCK_MONOTONIC) - t0 < max_ns) {
			struct timespec ts = { 0, 50000 };
			nanosleep(&ts, NULL);
		}
	}
	if (tl.stall2_func && phase == tl.stall2_phase && op == tl.stall2_op && !strcmp(func, tl.stall2_func) && tl.stall2_skip-- <= 0) {
		uint64_t t0 = vf_now_ns(CLOCK_MONOTONIC), max_ns = tl.stall2_max_ns;
		tl.stall2_func = NULL;
		atomic_store(&g_stall2_reached, 1);
		while (!atomic_load(&g_stall2_release) && vf_now_ns(CLOCK_MONOTONIC) - t0 < max_ns) {
			struct timespec ts = { 0, 50000 };
			nanosleep(&ts, NULL);
		}
	}
	vf_site_t *s = NULL;
	if (phase == 0) {
		s = site_lookup(func, line, op);
		if (s) s->hits++;
		if (tl.tab) tl.tab->total++;
		/* --futexstorm: remember the words the library's wait loops look at */
		if (g_futexstorm_hz && s && s->is_wait && op == 0) atomic_store_explicit(&g_fx_ring[atomic_fetch_add_explicit(&g_fx_n, 1, memory_order_relaxed) & 63], (uintptr_t)addr, memory_order_relaxed);
	}
	const vf_profile_t *p = &g_prof;
	if (p->kind != VF_P_OFF) {
		int ep = atomic_load_explicit(&g_prof_epoch, memory_order_relaxed);
		if (tl.rng_epoch != ep || !tl.rng.s[0]) {
			vf_rng_seed(&tl.rng, vf_opts.seed ^ ((uint64_t)ep << 20), (uint64_t)vf_gettid());
			tl.rng_epoch = ep;
		}
		switch (p->kind) {
		case VF_P_UNIFORM:
			if (vf_rnd_n(&tl.rng, p->den) == 0) vf_do_delay(&tl.rng, 0);
			break;
		case VF_P_PHASE:
			if (phase == p->phase && vf_rnd_n(&tl.rng, p->den) == 0) vf_do_delay(&tl.rng, 0);
			break;
		case VF_P_HOT: {
			if (!s) s = site_lookup(func, line, op);
			if (s) {
				for (int i = 0; i < p->nhot; i++) {
					if (p->hot_hash[i] == s->hash) {
						if (vf_rnd_n(&tl.rng, p->hot_den) == 0) vf_do_delay(&tl.rng, 1);
						break;
					}
				}
			}
			/* light background noise so that other threads move too */
			if (vf_rnd_n(&tl.rng, 256) == 0) sched_yield();
			break;
		}
		case VF_P_VICTIM:
			if (tl.is_victim || atomic_load_explicit(&g_victim_tid, memory_order_relaxed) == vf_gettid()) {
				if (++tl.accesses % p->victim_every == 0) vf_do_delay(&tl.rng, 1);
			} else if (atomic_load_explicit(&g_victim_tid, memory_order_relaxed) == 0) {
				/* first library thread to get here after install becomes the victim */
				int z = 0;
				atomic_compare_exchange_strong(&g_victim_tid, &z, vf_gettid());
			}
			break;
		default: break;
		}
	}
	tl.in_hook = 0;
}

void vf_stall_arm(const char *func, int op, int phase, uint64_t max_ns)
{
	tl.stall_op = op; tl.stall_phase = phase; tl.stall_max_ns = max_ns; tl.stall_skip = 0;
	tl.stall_func = func;
}
void vf_stall_disarm(void) { tl.stall_func = NULL; tl.stall2_func = NULL; }
void vf_stall_skip(int n) { tl.stall_skip = n; }
void vf_stall2_skip(int n) { tl.stall2_skip = n; }
void vf_stall2_arm(const char *func, int op, int phase, uint64_t max_ns)
{
	tl.stall2_op = op; tl.stall2_phase = phase; tl.stall2_max_ns = max_ns; tl.stall2_skip = 0;
	tl.stall2_func = func;
}

void vf_perturb_i_am_victim(void) { tl.is_victim = 1; }
uint64_t vf_perturb_injected(void) { return atomic_load(&g_injected); }

/* merged view of the sites */
typedef struct { const char *func; int line; int op; uint32_t hash; uint64_t hits; } vf_msite_t;
static int merge_sites(vf_msite_t *out, int max)
{
	int n = 0;
	for (vf_site_tab_t *t = atomic_load(&g_site_tabs); t; t = t->next) {
		for (unsigned i = 0; i < VF_SITE_TAB; i++) {
			const char *f = __atomic_load_n(&t->e[i].func, __ATOMIC_ACQUIRE);
			if (!f) continue;
			int j;
			for (j = 0; j < n; j++) {
				if (out[j].hash == t->e[i].hash && out[j].line == t->e[i].line &&
						out[j].op == t->e[i].op && !strcmp(out[j].func, f)) break;
			}
			if (j == n) {
				if (n == max) continue;
				out[n].func = f; out[n].line = t->e[i].line; out[n].op = t->e[i].op;
				out[n].hash = t->e[i].hash; out[n].hits = 0;
				n++;
			}
			out[j].hits += t->e[i].hits; /* racy read of a statistic: fine */
		}
	}
	return n;
}

#define VF_MAX_MSITES 4096
static vf_msite_t g_msites[VF_MAX_MSITES];
static pthread_mutex_t g_msite_mtx = PTHREAD_MUTEX_INITIALIZER;

uint64_t vf_site_hits(const char *func)
{
	uint64_t h = 0;
	pthread_mutex_lock(&g_msite_mtx);
	int n = merge_sites(g_msites, VF_MAX_MSITES);
	for (int i = 0; i < n; i++) if (!strcmp(g_msites[i].func, func)) h += g_msites[i].hits;
	pthread_mutex_unlock(&g_msite_mtx);
	return h;
}

int vf_sites_distinct(void)
{
	pthread_mutex_lock(&g_msite_mtx);
	int n = merge_sites(g_msites, VF_MAX_MSITES);
	pthread_mutex_unlock(&g_msite_mtx);
	return n;
}

/* per-trial signature: set of (func,op) whose hit count grew since reset */
static struct { uint32_t hash; uint64_t hits; } g_snap[VF_MAX_MSITES];
static int g_nsnap;

void vf_sites_reset_trial(void)
{
	pthread_mutex_lock(&g_msite_mtx);
	int n = merge_sites(g_msites, VF_MAX_MSITES);
	for (int i = 0; i < n; i++) { g_snap[i].hash = g_msites[i].hash; g_snap[i].hits = g_msites[i].hits; }
	g_nsnap = n;
	pthread_mutex_unlock(&g_msite_mtx);
}

uint64_t vf_sites_trial_signature(void)
{
	uint64_t sig = 0;
	pthread_mutex_lock(&g_msite_mtx);
	int n = merge_sites(g_msites, VF_MAX_MSITES);
	for (int i = 0; i < n; i++) {
		uint64_t before = 0;
		for (int j = 0; j < g_nsnap; j++) if (g_snap[j].hash == g_msites[i].hash) { before = g_snap[j].hits; break; }
		if (g_msites[i].hits > before) {
			/* order independent combination of (func,op) */
			uint64_t h = vf_hash_str(VF_HASH_INIT, g_msites[i].func);
			h = vf_hash64(h, (uint64_t)g_msites[i].op);
			sig ^= h * 0x9e3779b97f4a7c15ull;
		}
	}
	pthread_mutex_unlock(&g_msite_mtx);
	return sig;
}

void vf_sites_emit_json(FILE *f)
{
	pthread_mutex_lock(&g_msite_mtx);
	int n = merge_sites(g_msites, VF_MAX_MSITES);
	/* aggregate by func:op */
	fprintf(f, "\"nsites\":%d,\"siteops\":{", n);
	int first = 1;
	for (int i = 0; i < n; i++) {
		int dup = 0;
		for (int j = 0; j < i; j++) {
			if (g_msites[j].op == g_msites[i].op && !strcmp(g_msites[j].func, g_msites[i].func)) { dup = 1; break; }
		}
		if (dup) continue;
		uint64_t h = 0;
		for (int j = i; j < n; j++) {
			if (g_msites[j].op == g_msites[i].op && !strcmp(g_msites[j].func, g_msites[i].func)) h += g_msites[j].hits;
		}
		fprintf(f, "%s\"%s:%d\":%llu", first ? "" : ",", g_msites[i].func, g_msites[i].op, (unsigned long long)h);
		first = 0;
	}
	fputs("}", f);
	pthread_mutex_unlock(&g_msite_mtx);
}

void vf_perturb_install(const vf_profile_t *p)
{
	g_prof = *p;
	atomic_store(&g_victim_tid, 0);
	atomic_fetch_add(&g_prof_epoch, 1);
	_dispatch_verif_atomic_hook = vf_atomic_hook;
}

void vf_perturb_off(void)
{
	g_prof.kind = VF_P_OFF;
	atomic_fetch_add(&g_prof_epoch, 1);
}

void vf_perturb_draw(vf_rng_t *r, vf_profile_t *p)
{
	memset(p, 0, sizeof(*p));
	p->phase = -1;
	const char *want = vf_opts.perturb ? vf_opts.perturb : "auto";
	int kind;
	if (!strcmp(want, "off")) kind = VF_P_OFF;
	else if (!strcmp(want, "uniform")) kind = VF_P_UNIFORM;
	else if (!strcmp(want, "hot")) kind = VF_P_HOT;
	else if (!strcmp(want, "phase")) kind = VF_P_PHASE;
	else if (!strcmp(want, "victim")) kind = VF_P_VICTIM;
	else {
		/* auto: 1/8 off, 3/8 uniform, 2/8 hot, 1/8 phase, 1/8 victim */
		uint32_t c = vf_rnd_n(r, 8);
		kind = c < 1 ? VF_P_OFF : c < 4 ? VF_P_UNIFORM : c < 6 ? VF_P_HOT : c < 7 ? VF_P_PHASE : VF_P_VICTIM;
	}
	p->kind = kind;
	static const uint32_t dens[] = { 16, 32, 64, 128, 256, 512 };
	switch (kind) {
	case VF_P_OFF:
		snprintf(p->desc, sizeof(p->desc), "off");
		break;
	case VF_P_UNIFORM:
		p->den = dens[vf_rnd_n(r, 6)];
		snprintf(p->desc, sizeof(p->desc), "uniform(1/%u)", p->den);
		break;
	case VF_P_PHASE:
		p->den = dens[vf_rnd_n(r, 4)];
		p->phase = (int)vf_rnd_n(r, 2);
		snprintf(p->desc, sizeof(p->desc), "phase%d(1/%u)", p->phase, p->den);
		break;
	case VF_P_VICTIM:
		p->victim_every = vf_rnd_range(r, 3, 40);
		snprintf(p->desc, sizeof(p->desc), "victim(every %u)", p->victim_every);
		break;
	case VF_P_HOT: {
		pthread_mutex_lock(&g_msite_mtx);
		int n = merge_sites(g_msites, VF_MAX_MSITES);
		if (n < 8) {
			pthread_mutex_unlock(&g_msite_mtx);
			p->kind = VF_P_UNIFORM; p->den = 32;
			snprintf(p->desc, sizeof(p->desc), "uniform(1/32)");
			break;
		}
		p->nhot = (int)vf_rnd_range(r, 1, 4);
		p->hot_den = vf_rnd_range(r, 2, 8);
		/* --hot-func=<substring>: the hot sites are the atomics of the functions whose name contains it (a widened window
		 * at a chosen place instead of a drawn one) */
		const char *hf = vf_opt("hot-func", NULL);
		int forced[8], nforced = 0;
		if (hf) {
			for (int k = 0; k < n && nforced < 8; k++) if (strstr(g_msites[k].func, hf)) forced[nforced++] = k;
			if (nforced) { p->nhot = nforced; p->hot_den = 2; }
		}
		int off = snprintf(p->desc, sizeof(p->desc), "hot(1/%u", p->hot_den);
		for (int i = 0; i < p->nhot; i++) {
			int k = nforced ? forced[i] : (int)vf_rnd_n(r, (uint32_t)n);
			p->hot_hash[i] = g_msites[k].hash;
			if (off < (int)sizeof(p->desc) - 1) {
				off += snprintf(p->desc + off, sizeof(p->desc) - (size_t)off, ",%.24s:%d", g_msites[k].func, g_msites[k].op);
				if (off >= (int)sizeof(p->desc)) off = (int)sizeof(p->desc) - 1;
			}
		}
		if (off < (int)sizeof(p->desc) - 1) snprintf(p->desc + off, sizeof(p->desc) - (size_t)off, ")");
		pthread_mutex_unlock(&g_msite_mtx);
		break;
	}
	}
	vf_perturb_install(p);
}

/* -------------------------------------------------------------- watchdog */
static struct {
	_Atomic int armed;
	_Atomic uint64_t epoch;
	char ctx[128];
	unsigned idle_ok_ms;
	int samples;                /* consecutive all-asleep, library-idle samples (0.5 s apart) that make a stuck witness */
	pthread_mutex_t mtx;
} g_wd = { .mtx = PTHREAD_MUTEX_INITIALIZER, .samples = 20 };
static pthread_t g_wd_thread;
static int g_wd_tid;

typedef struct { int tid; char state; char comm[32]; char wchan[64]; } vf_tstat_t;

static int sample_threads(vf_tstat_t *out, int max)
{
	DIR *d = opendir("/proc/self/task");
	if (!d) return -1;
	struct dirent *de;
	int n = 0;
	while ((de = readdir(d)) && n < max) {
		if (de->d_name[0] == '.') continue;
		int tid = atoi(de->d_name);
		char path[96], buf[512];
		snprintf(path, sizeof(path), "/proc/self/task/%d/stat", tid);
		FILE *f = fopen(path, "r");
		if (!f) continue;
		size_t len = fread(buf, 1, sizeof(buf) - 1, f);
		fclose(f);
		buf[len] = 0;
		char *rp = strrchr(buf, ')');
		char *lp = strchr(buf, '(');
		if (!rp || !lp || !rp[1] || !rp[2]) continue;
		out[n].tid = tid;
		out[n].state = rp[2];
		size_t cl = (size_t)(rp - lp - 1);
		if (cl >= sizeof(out[n].comm)) cl = sizeof(out[n].comm) - 1;
		memcpy(out[n].comm, lp + 1, cl); out[n].comm[cl] = 0;
		out[n].wchan[0] = 0;
		snprintf(path, sizeof(path), "/proc/self/task/%d/wchan", tid);
		f = fopen(path, "r");
		if (f) {
			len = fread(out[n].wchan, 1, sizeof(out[n].wchan) - 1, f);
			out[n].wchan[len] = 0;
			fclose(f);
		}
		n++;
	}
	closedir(d);
	return n;
}

static uint64_t process_cpu_ns(void)
{
	struct timespec ts;
	clock_gettime(CLOCK_PROCESS_CPUTIME_ID, &ts);
	return (uint64_t)ts.tv_sec * 1000000000ull + (uint64_t)ts.tv_nsec;
}

static _Atomic int g_sig_stop;
static void dump_stuck(const char *kind, const char *ctx, vf_tstat_t *ts, int n)
{
	char detail[1800];
	int off = snprintf(detail, sizeof(detail), "%s: no logical progress; threads:", kind);
	for (int i = 0; i < n && off < (int)sizeof(detail) - 80; i++) {
		if (ts[i].tid == g_wd_tid) continue;
		off += snprintf(detail + off, sizeof(detail) - (size_t)off, " [%d %s %c %s]",
				ts[i].tid, ts[i].comm, ts[i].state, ts[i].wchan);
	}
	char key[160];
	snprintf(key, sizeof(key), "%s:%s", kind, ctx);
	vf_violation(key, "%s", detail);
	atomic_store(&g_sig_stop, 1);   /* the witness is complete: no more signals (the gdb dump below must not be interrupted) */
	if (getenv("VF_HANG_PAUSE")) { fprintf(stderr, "VF_HANG_PAUSE: pid %d paused for a debugger\n", (int)getpid()); uint64_t until = vf_now_ns(CLOCK_MONOTONIC) + (uint64_t)atoi(getenv("VF_HANG_PAUSE")) * 1000000000ull; while (vf_now_ns(CLOCK_MONOTONIC) < until) { struct timespec ts = { 0, 100000000 }; nanosleep(&ts, NULL); } }
	/* best effort: record where every thread sleeps */
	const char *dir = getenv("VF_REPLAY_DIR");
	if (dir && !getenv("VF_NO_GDB")) {
		char cmd[512];
		prctl(PR_SET_PTRACER, PR_SET_PTRACER_ANY, 0, 0, 0);
		snprintf(cmd, sizeof(cmd),
				"timeout 60 gdb -batch -p %d -ex 'thread apply all bt 12' > %s/stuck-%s-%d.gdb.txt 2>&1",
				(int)getpid(), dir, g_harness, (int)getpid());
		int rc = system(cmd);
		(void)rc;
	}
}

/* library atomics executed so far by all threads (racy reads of per-thread counters: a lower bound is enough) */
static uint64_t library_activity(void)
{
	uint64_t sum = 0;
	for (vf_site_tab_t *t = atomic_load(&g_site_tabs); t; t = t->next) sum += *(volatile uint64_t *)&t->total;
	return sum;
}

static void *watchdog_main(void *arg)
{
	(void)arg;
	g_wd_tid = vf_gettid();
	prctl(PR_SET_NAME, "vf-watchdog", 0, 0, 0);
	uint64_t last_prog = 0, last_epoch = 0, cpu_at_last_prog = process_cpu_ns();
	uint64_t idle_since_ns = 0, last_act = 0;
	int asleep_samples = 0;
	static vf_tstat_t ts[512];
	static struct { int tid; int r_seen; } rtab[512];
	int nr = 0;
	/* the watchdog takes no signals: an interrupted sleep would shorten the sampling period and turn a
	 * few milliseconds in which every thread happens to sleep into a stuck witness (--sigstorm) */
	sigset_t all; sigfillset(&all); pthread_sigmask(SIG_BLOCK, &all, NULL);
	for (;;) {
		/* one sample per 0.5 s of monotonic time, whatever wakes the sleep up */
		uint64_t wake = vf_now_ns(CLOCK_MONOTONIC) + 500ull * 1000 * 1000;
		while (vf_now_ns(CLOCK_MONOTONIC) < wake) {
			uint64_t left = wake - vf_now_ns(CLOCK_MONOTONIC);
			struct timespec sl = { 0, (long)(left < 500000000ull ? left : 500000000ull) };
			nanosleep(&sl, NULL);
		}
		if (!atomic_load(&g_wd.armed)) { asleep_samples = 0; idle_since_ns = 0; continue; }
		uint64_t ep = atomic_load(&g_wd.epoch);
		uint64_t prog = atomic_load(&vf_progress_ctr);
		uint64_t now = vf_now_ns(CLOCK_MONOTONIC);
		if (ep != last_epoch || prog != last_prog) {
			last_epoch = ep; last_prog = prog;
			cpu_at_last_prog = process_cpu_ns();
			asleep_samples = 0; nr = 0; idle_since_ns = now;
			continue;
		}
		if (!idle_since_ns) idle_since_ns = now;
		pthread_mutex_lock(&g_wd.mtx);
		unsigned idle_ok = g_wd.idle_ok_ms;
		int need_samples = g_wd.samples;
		char ctx[128];
		snprintf(ctx, sizeof(ctx), "%s", g_wd.ctx);
		pthread_mutex_unlock(&g_wd.mtx);
		if ((now - idle_since_ns) / 1000000 < idle_ok) { asleep_samples = 0; nr = 0; continue; }
		/* livelock: CPU burnt without progress */
		if (process_cpu_ns() - cpu_at_last_prog > 30ull * 1000000000ull) {
			int n = sample_threads(ts, 512);
			dump_stuck("livelock", ctx, ts, n < 0 ? 0 : n);
			vf_finish();
			_exit(3);
		}
		/* "every thread asleep" is a sample of one instant: a single thread working its way through a backlog with injected
		 * sleeps (e.g. hundreds of queued retargets applied one queue hop at a time) is asleep at most instants too. A process
		 * that is really stuck executes no library atomics beyond housekeeping (the 1 Hz pool monitor, idle workers timing
		 * out); one that executed more than that since the last sample is not asleep. (A process that stays active without
		 * ever completing an item is for the livelock rule above, or the job timeout.) */
		uint64_t act = library_activity();
		if (getenv("VF_WD_DEBUG")) fprintf(stderr, "vf-watchdog: no progress, library atomics since last sample: %llu, asleep samples %d\n", (unsigned long long)(act - last_act), asleep_samples);
		if (act - last_act > 400) { last_act = act; asleep_samples = 0; nr = 0; continue; }
		last_act = act;
		int n = sample_threads(ts, 512);
		if (n < 0) continue;
		int all_asleep = 1;
		for (int i = 0; i < n; i++) {
			if (ts[i].tid == g_wd_tid) continue;
			if (ts[i].state == 'S') continue;
			if (ts[i].state == 'R' || ts[i].state == 'D') {
				/* tolerate one isolated non-sleeping sample per thread */
				int j;
				for (j = 0; j < nr; j++) if (rtab[j].tid == ts[i].tid) break;
				if (j == nr && nr < 512) { rtab[nr].tid = ts[i].tid; rtab[nr].r_seen = 0; nr++; }
				if (j < 512 && rtab[j].r_seen++ == 0) continue;
			}
			all_asleep = 0;
		}
		if (!all_asleep) { asleep_samples = 0; nr = 0; continue; }
		if (++asleep_samples >= need_samples) {
			dump_stuck("stuck", ctx, ts, n);
			vf_finish();
			_exit(3);
		}
	}
	return NULL;
}

void vf_watch_begin(const char *ctx, unsigned idle_ok_ms) { vf_watch_begin_n(ctx, idle_ok_ms, 20); }

/* Several threads of one harness may each watch a phase of their own (h_source cancel drivers): the watchdog stays armed
 * while any of them is inside a begin/end pair (a global flag let the last driver that finished disarm it under a driver
 * that was stuck in a library call). begin is idempotent per thread, so a context can be renamed without an end. */
static __thread int tl_wd_armed;
void vf_watch_begin_n(const char *ctx, unsigned idle_ok_ms, int samples)
{
	pthread_mutex_lock(&g_wd.mtx);
	snprintf(g_wd.ctx, sizeof(g_wd.ctx), "%s", ctx);
	g_wd.idle_ok_ms = idle_ok_ms;
	g_wd.samples = samples;
	pthread_mutex_unlock(&g_wd.mtx);
	atomic_fetch_add(&g_wd.epoch, 1);
	if (!tl_wd_armed) { tl_wd_armed = 1; atomic_fetch_add(&g_wd.armed, 1); }
}

void vf_watch_end(void)
{
	if (tl_wd_armed) { tl_wd_armed = 0; atomic_fetch_sub(&g_wd.armed, 1); }
	atomic_fetch_add(&g_wd.epoch, 1);
}

void vf_wait_counter_impl(_Atomic uint64_t *ctr, uint64_t target, const char *ctx)
{
	vf_watch_begin(ctx, 0);
	unsigned spins = 0;
	while (atomic_load_explicit(ctr, memory_order_acquire) < target) {
		if (++spins < 50) sched_yield();
		else { struct timespec ts = { 0, 200000 }; nanosleep(&ts, NULL); }
	}
	vf_watch_end();
}

/* -------------------------------------------------------- crash reporting */
#if !VF_ASAN && !VF_TSAN
static void crash_handler(int sig, siginfo_t *si, void *uc)
{
	(void)uc; (void)si;
	/* not async-signal-safe in the strict sense; this is a dying process and the
	 * output is only a diagnostic — the driver also sees the signal status */
	void *bt[48];
	int n = backtrace(bt, 48);
	char buf[4096];
	int off = snprintf(buf, sizeof(buf), "{\"type\":\"crash\",\"harness\":\"%s\",\"signal\":%d,\"frames\":[", g_harness, sig);
	int first = 1;
	for (int i = 0; i < n && off < (int)sizeof(buf) - 200; i++) {
		Dl_info di;
		if (dladdr(bt[i], &di) && di.dli_fname) {
			const char *base = strrchr(di.dli_fname, '/');
			base = base ? base + 1 : di.dli_fname;
			off += snprintf(buf + off, sizeof(buf) - (size_t)off, "%s{\"obj\":\"%s\",\"off\":\"0x%lx\",\"sym\":\"%s\"}",
					first ? "" : ",", base,
					(unsigned long)((uintptr_t)bt[i] - (uintptr_t)di.dli_fbase),
					di.dli_sname ? di.dli_sname : "");
			first = 0;
		}
	}
	off += snprintf(buf + off, sizeof(buf) - (size_t)off, "],\"argv\":\"");
	for (int a = 0; a < g_argc && off < (int)sizeof(buf) - 100; a++) {
		off += snprintf(buf + off, sizeof(buf) - (size_t)off, "%s%s", a ? " " : "", g_argv[a]);
	}
	off += snprintf(buf + off, sizeof(buf) - (size_t)off, "\"}\n");
	ssize_t w = write(1, buf, (size_t)off);
	(void)w;
	signal(sig, SIG_DFL);
	raise(sig);
}
#endif

/* ------------------------------------------------------------------ init */
/* ------------------------------------------------------------ signal storm
 * --sigstorm=<Hz>: a thread delivers SIGUSR1 or SIGPROF (no-op handlers installed WITHOUT SA_RESTART) to random
 * threads of the process, workers of the library included: every blocking system call of the library
 * (sem_timedwait, futex, epoll_wait, read, write) then also returns EINTR at arbitrary points. An
 * interrupted wait is neither a time-out nor a wake-up. */
static _Atomic uint64_t g_sig_sent;
static int g_sigstorm_hz;
static void vf_sig_noop(int s) { (void)s; }
static void *sigstorm_main(void *arg)
{
	(void)arg;
	int self = vf_gettid(), pid = (int)getpid();
	vf_rng_t r; vf_rng_seed(&r, vf_opts.seed, 0x516);
	int tids[512], n = 0; uint64_t refreshed = 0;
	for (;;) {
		if (atomic_load(&g_sig_stop)) { struct timespec zz = { 0, 50000000 }; nanosleep(&zz, NULL); continue; }
		uint64_t now = vf_now_ns(CLOCK_MONOTONIC);
		if (!n || now - refreshed > 20000000ull) {
			n = 0; refreshed = now;
			DIR *d = opendir("/proc/self/task");
			if (d) {
				struct dirent *e;
				while ((e = readdir(d)) && n < 512) { int t = atoi(e->d_name); if (t > 0 && t != self && t != g_wd_tid) tids[n++] = t; }
				closedir(d);
			}
		}
		/* SIGUSR1 reaches the harness's own threads only: the library blocks it on its workers and on the manager thread
		 * (_dispatch_sigmask). SIGPROF is the one asynchronous signal it leaves unblocked there, for sampling profilers:
		 * that is the signal that interrupts sem_timedwait in idle workers, epoll_wait in the manager, read/write in dispatch
		 * I/O and the futex waits of items that block on worker threads. */
		if (n) { syscall(SYS_tgkill, pid, tids[vf_rnd_n(&r, (uint32_t)n)], vf_rnd_n(&r, 3) ? SIGPROF : SIGUSR1); atomic_fetch_add(&g_sig_sent, 1); }
		long period = 1000000000l / g_sigstorm_hz;
		struct timespec ts = { 0, (long)vf_rnd_n(&r, (uint32_t)(2 * period)) + 1 };
		if (ts.tv_nsec >= 1000000000l) ts.tv_nsec = 999999999l;
		nanosleep(&ts, NULL);
	}
	return NULL;
}
uint64_t vf_signals_sent(void) { return atomic_load(&g_sig_sent); }

/* ------------------------------------------------------------ stray futex wake-ups
 * --futexstorm=<Hz>: a thread issues FUTEX_WAKE on the words the library's wait loops were last seen
 * reading (thread events of sync waiters, group generations, once gates). futex(2): "a return value
 * of 0 can mean a spurious wake-up"; a stale wake from an earlier hand-off on a reused stack word
 * is the natural source. A woken waiter that does not re-check its condition returns early. */
#include <linux/futex.h>
static void *futexstorm_main(void *arg)
{
	(void)arg;
	vf_rng_t r; vf_rng_seed(&r, vf_opts.seed, 0xf07e);
	for (;;) {
		if (!atomic_load(&g_sig_stop)) {
			uintptr_t a = atomic_load_explicit(&g_fx_ring[vf_rnd_n(&r, 64)], memory_order_relaxed);
			if (a) {
				syscall(SYS_futex, (void *)(a & ~(uintptr_t)3), FUTEX_WAKE | FUTEX_PRIVATE_FLAG, 0x7fffffff, NULL, NULL, 0);
				syscall(SYS_futex, (void *)((a & ~(uintptr_t)7) + 4), FUTEX_WAKE | FUTEX_PRIVATE_FLAG, 0x7fffffff, NULL, NULL, 0);
				atomic_fetch_add(&g_fx_sent, 1);
			}
		}
		long period = 1000000000l / g_futexstorm_hz;
		struct timespec ts = { 0, (long)vf_rnd_n(&r, (uint32_t)(2 * period)) + 1 };
		if (ts.tv_nsec >= 1000000000l) ts.tv_nsec = 999999999l;
		nanosleep(&ts, NULL);
	}
	return NULL;
}

void vf_init(int argc, char **argv, const char *harness)
{
	g_harness = harness;
	g_argc = argc; g_argv = argv;
	clock_gettime(CLOCK_MONOTONIC, &g_t0);
	setvbuf(stdout, NULL, _IOLBF, 0);
	const char *envseed = getenv("VERIF_SEED");
	vf_opts.seed = (uint64_t)strtoull(vf_opt("seed", envseed ? envseed : "1"), NULL, 0);
	vf_opts.trials = (int)vf_opt_long("trials", 1);
	vf_opts.first_trial = (int)vf_opt_long("first", 0);
	vf_opts.scale = (int)vf_opt_long("scale", 100);
	vf_opts.mode = vf_opt("mode", "default");
	vf_opts.perturb = vf_opt("perturb", "auto");
	vf_opts.verbose = (int)vf_opt_long("verbose", 0);
	vf_opts.tier = vf_opt("tier", "quick");
	cpu_set_t cs;
	vf_opts.ncpu = sched_getaffinity(0, sizeof(cs), &cs) == 0 ? CPU_COUNT(&cs) : 1;
	signal(SIGPIPE, SIG_IGN);
#if !VF_ASAN && !VF_TSAN
	struct sigaction sa;
	memset(&sa, 0, sizeof(sa));
	sa.sa_sigaction = crash_handler;
	sa.sa_flags = SA_SIGINFO | SA_RESETHAND | SA_NODEFER;
	sigaction(SIGSEGV, &sa, NULL);
	sigaction(SIGBUS, &sa, NULL);
	sigaction(SIGILL, &sa, NULL);
	sigaction(SIGABRT, &sa, NULL);
	sigaction(SIGFPE, &sa, NULL);
	sigaction(SIGTRAP, &sa, NULL);
#endif
	if (getenv("VF_TRACE")) {
		struct sigaction sa; memset(&sa, 0, sizeof(sa));
		sa.sa_sigaction = vf_trace_dump; sa.sa_flags = SA_SIGINFO;
		sigaction(SIGILL, &sa, NULL); sigaction(SIGSEGV, &sa, NULL); sigaction(SIGABRT, &sa, NULL);
		g_trace = 1;
	}
	g_sigstorm_hz = (int)vf_opt_long("sigstorm", 0);
	if (g_sigstorm_hz > 0) {
		struct sigaction sa; memset(&sa, 0, sizeof(sa));
		sa.sa_handler = vf_sig_noop;   /* no SA_RESTART */
		sigaction(SIGUSR1, &sa, NULL);
		sigaction(SIGPROF, &sa, NULL);
		pthread_t st;
		if (pthread_create(&st, NULL, sigstorm_main, NULL)) vf_fail("cannot start the signal thread");
	}
	g_futexstorm_hz = (int)vf_opt_long("futexstorm", 0);
	if (g_futexstorm_hz > 0) {
		pthread_t ft;
		if (pthread_create(&ft, NULL, futexstorm_main, NULL)) vf_fail("cannot start the futex thread");
	}
	/* observation (and TSO annotation) is always on; delays only per profile */
	g_prof.kind = VF_P_OFF;
	_dispatch_verif_atomic_hook = vf_atomic_hook;
	if (pthread_create(&g_wd_thread, NULL, watchdog_main, NULL)) {
		vf_fail("cannot start watchdog");
	}
}

int vf_finish(void)
{
	struct timespec t1;
	clock_gettime(CLOCK_MONOTONIC, &t1);
	double wall = (double)(t1.tv_sec - g_t0.tv_sec) + (double)(t1.tv_nsec - g_t0.tv_nsec) / 1e9;
	pthread_mutex_lock(&g_out_mtx);
	fprintf(stdout, "{\"type\":\"summary\",\"harness\":\"%s\",\"mode\":\"%s\",\"seed\":%llu,\"ncpu\":%d,\"wall_s\":%.3f,"
			"\"violations\":%d,\"injected\":%llu,\"stamps\":%llu,\"counters\":{",
			g_harness, vf_opts.mode, (unsigned long long)vf_opts.seed, vf_opts.ncpu, wall,
			atomic_load(&g_violations), (unsigned long long)atomic_load(&g_injected),
			(unsigned long long)atomic_load(&vf_stamp_ctr));
	int n = atomic_load(&g_nctrs);
	for (int i = 0; i < n; i++) {
		fprintf(stdout, "%s\"%s\":%llu", i ? "," : "", g_ctrs[i].name, (unsigned long long)atomic_load(&g_ctrs[i].v));
	}
	if (g_sigstorm_hz > 0) fprintf(stdout, "%s\"signals_delivered\":%llu", n ? "," : "", (unsigned long long)atomic_load(&g_sig_sent));
	if (g_futexstorm_hz > 0) fprintf(stdout, "%s\"stray_futex_wakes\":%llu", (n || g_sigstorm_hz > 0) ? "," : "", (unsigned long long)atomic_load(&g_fx_sent));
	fputs("},", stdout);
	vf_sites_emit_json(stdout);
	fputs("}\n", stdout);
	fflush(stdout);
	pthread_mutex_unlock(&g_out_mtx);
	return atomic_load(&g_violations) ? 1 : 0;
}
