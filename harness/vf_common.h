/*
 * vf_common.h — shared monitor infrastructure for the libdispatch harnesses.
 *
 * Stamps, PRNG, schedule perturbation through hook H1, atomic-site coverage,
 * stuck/livelock watchdog, JSON result protocol. See DESIGN.md §2.3, §3.1, §4.2.
 */
#ifndef VF_COMMON_H
#define VF_COMMON_H

#define _GNU_SOURCE 1
#include <stdint.h>
#include <stddef.h>
#include <stdbool.h>
#include <stdio.h>
#include <stdlib.h>
#include <string.h>
#include <stdatomic.h>
#include <pthread.h>
#include <unistd.h>
#include <errno.h>
#include <time.h>

/* vf_common.c itself is compiled without -fsanitize=thread (its stamps and counters must not add
 * happens-before edges), so the flavor define decides, not the compiler feature test */
#if defined(VF_FLAVOR_TSAN)
#define VF_TSAN 1
#endif
#if defined(__has_feature)
#if __has_feature(thread_sanitizer) && !defined(VF_TSAN)
#define VF_TSAN 1
#endif
#if __has_feature(address_sanitizer)
#define VF_ASAN 1
#endif
#endif
#ifndef VF_TSAN
#define VF_TSAN 0
#endif
#ifndef VF_ASAN
#define VF_ASAN 0
#endif

/* ---- x86-TSO modelling for plain loads in public headers (TSan flavor) ----------------------
 * The inline fast path of dispatch_once (dispatch/once.h) reads the predicate with a plain load
 * and a compiler barrier; on x86 that load is an acquire. vf_tso_acquire tells TSan so, exactly
 * like the promotion of the library's own atomics (DESIGN 6.2). No-op in the other flavors. */
#if VF_TSAN
extern void __tsan_acquire(void *addr);
#define vf_tso_acquire(p) __tsan_acquire((void *)((uintptr_t)(p) & ~(uintptr_t)7))
#else
#define vf_tso_acquire(p) ((void)(p))
#endif

/* ---- stamps -------------------------------------------------------------
 * One process-wide counter. A relaxed RMW is a locked instruction on x86 (total
 * order, full barrier) yet creates no happens-before edge in TSan's model, so
 * the stamp itself never hides a race from the tsan flavor. */
extern _Atomic uint64_t vf_stamp_ctr;
static inline uint64_t vf_stamp(void)
{
	return atomic_fetch_add_explicit(&vf_stamp_ctr, 1, memory_order_relaxed) + 1;
}

/* ---- PRNG (xoshiro256**) ------------------------------------------------ */
typedef struct { uint64_t s[4]; } vf_rng_t;
void vf_rng_seed(vf_rng_t *r, uint64_t seed, uint64_t stream);
static inline uint64_t vf_rotl(uint64_t x, int k) { return (x << k) | (x >> (64 - k)); }
static inline uint64_t vf_rnd(vf_rng_t *r)
{
	uint64_t *s = r->s, result = vf_rotl(s[1] * 5, 7) * 9, t = s[1] << 17;
	s[2] ^= s[0]; s[3] ^= s[1]; s[1] ^= s[2]; s[0] ^= s[3]; s[2] ^= t;
	s[3] = vf_rotl(s[3], 45);
	return result;
}
static inline uint32_t vf_rnd_n(vf_rng_t *r, uint32_t n) /* [0,n) */
{
	return n ? (uint32_t)((vf_rnd(r) >> 32) * (uint64_t)n >> 32) : 0;
}
static inline uint32_t vf_rnd_range(vf_rng_t *r, uint32_t lo, uint32_t hi) /* [lo,hi] */
{
	return lo + vf_rnd_n(r, hi - lo + 1);
}
static inline bool vf_rnd_p(vf_rng_t *r, uint32_t num, uint32_t den)
{
	return vf_rnd_n(r, den) < num;
}

/* ---- global options (parsed from argv by vf_init) ------------------------ */
typedef struct {
	uint64_t seed;
	int trials;          /* number of trials for this process */
	int first_trial;     /* index of the first trial (trial index feeds the PRNG) */
	int scale;           /* workload scale in percent (100 = nominal) */
	const char *mode;    /* harness specific sub-mode */
	const char *perturb; /* auto|off|uniform|hot|phase|victim */
	int verbose;
	int ncpu;            /* CPUs in the affinity mask */
	const char *tier;
} vf_opts_t;
extern vf_opts_t vf_opts;

void vf_init(int argc, char **argv, const char *harness);
const char *vf_opt(const char *name, const char *dflt); /* --name=value extras */
long vf_opt_long(const char *name, long dflt);

/* ---- perturbation (hook H1) ---------------------------------------------- */
enum { VF_P_OFF = 0, VF_P_UNIFORM, VF_P_HOT, VF_P_PHASE, VF_P_VICTIM, VF_P_NKINDS };
typedef struct {
	int kind;
	uint32_t den;        /* uniform/phase: inject with probability 1/den */
	int phase;           /* phase profile: 0 or 1; else -1 */
	int nhot;
	uint32_t hot_hash[8];
	uint32_t hot_den;    /* hot sites stall with probability 1/hot_den */
	uint32_t victim_every;
	char desc[96];
} vf_profile_t;

/* Draw a profile from r (honours vf_opts.perturb) and install it. */
void vf_perturb_draw(vf_rng_t *r, vf_profile_t *out);
void vf_perturb_install(const vf_profile_t *p);
void vf_perturb_off(void);
/* Sites seen so far can be chosen as hot sites. */
uint64_t vf_perturb_injected(void);
/* mark calling thread as the 'victim' for VF_P_VICTIM */
void vf_perturb_i_am_victim(void);

/* Directed stall (a failpoint at one library atomic): the calling thread arms a stall
 * for itself; the next time it passes the (func, op, phase) site it sets the
 * "reached" flag and waits until vf_stall_release() or max_ns, once. */
void vf_stall_arm(const char *func, int op, int phase, uint64_t max_ns);
void vf_stall_disarm(void);
bool vf_stall_reached(void);
void vf_stall_release(void);
void vf_stall_reset(void);
/* a second, independent failpoint (slot 1) with the same semantics */
void vf_stall2_arm(const char *func, int op, int phase, uint64_t max_ns);
/* after arming: let the first n matches of this thread pass */
void vf_stall_skip(int n);
/* VF_TRACE=1 debugging aid: remember addresses, dump the recorded library atomics on them */
void vf_trace_watch(const volatile void *addr);
void vf_trace_watch_reset(void);
void vf_trace_dump_watched(void);
void vf_stall2_skip(int n);
bool vf_stall2_reached(void);
void vf_stall2_release(void);

/* coverage: hits of hooked atomics, by function */
uint64_t vf_site_hits(const char *func);      /* sum over all lines, phase 0 only */
int vf_sites_distinct(void);
void vf_sites_reset_trial(void);               /* start a per-trial bitmap */
uint64_t vf_sites_trial_signature(void);       /* hash of the set of functions reached since reset */
void vf_sites_emit_json(FILE *f);              /* "sites":{func:hits,...} */

/* ---- progress / watchdog --------------------------------------------------- */
extern _Atomic uint64_t vf_progress_ctr;
static inline void vf_progress(void)
{
	atomic_fetch_add_explicit(&vf_progress_ctr, 1, memory_order_relaxed);
}
/* Arm the watchdog: from now until vf_watch_end the process is expected to make
 * logical progress. ctx names the scenario for the violation key. idle_ok_ms is
 * a period of legitimate inactivity (e.g. waiting for a timer deadline). */
void vf_watch_begin(const char *ctx, unsigned idle_ok_ms);
/* same with a shorter (or longer) run of consecutive idle samples than the default 20 (= 10 s): for workloads in which nothing
 * legitimately sleeps, so that a stall the library repairs by itself after a few seconds (idle-worker time-out) is still seen */
void vf_watch_begin_n(const char *ctx, unsigned idle_ok_ms, int samples);
void vf_watch_end(void);
/* Poll-wait until *ctr >= target, with the watchdog armed. */
void vf_wait_counter_impl(_Atomic uint64_t *ctr, uint64_t target, const char *ctx);
/* The polling loop lives in vf_common.c, which is not TSan-instrumented: the acquire load that pairs with the
 * release increments of the counted events has to happen in the (instrumented) caller, otherwise TSan reports
 * every read of the checker at quiescence as a race with the events it waited for. */
static inline void vf_wait_counter(_Atomic uint64_t *ctr, uint64_t target, const char *ctx)
{
	vf_wait_counter_impl(ctr, target, ctx);
	(void)atomic_load_explicit(ctr, memory_order_acquire);
}

/* ---- results ------------------------------------------------------------- */
/* Report a violation. key is a stable identifier (no addresses, no counts). */
void vf_violation(const char *key, const char *fmt, ...) __attribute__((format(printf, 2, 3)));
int vf_violations(void);
/* Harness failure (not a property verdict): prints and exits 2. */
void vf_fail(const char *fmt, ...) __attribute__((format(printf, 1, 2), noreturn));
/* Raw JSON line: vf_emit("trial", "\"sig\":\"%s\",\"n\":%d", ...) */
void vf_emit(const char *type, const char *fmt, ...) __attribute__((format(printf, 2, 3)));
/* Named global counters summed into the summary line. */
void vf_count(const char *name, uint64_t add);
uint64_t vf_count_get(const char *name);
/* Emit the final summary line and return the process exit code. */
int vf_finish(void);
/* --sigstorm=<Hz>: number of SIGUSR1 delivered so far to random threads (EINTR everywhere) */
uint64_t vf_signals_sent(void);

/* trial signature helper: FNV-1a */
static inline uint64_t vf_hash64(uint64_t h, uint64_t v)
{
	for (int i = 0; i < 8; i++) { h ^= (v >> (i * 8)) & 0xff; h *= 0x100000001b3ull; }
	return h;
}
#define VF_HASH_INIT 0xcbf29ce484222325ull
static inline uint64_t vf_hash_str(uint64_t h, const char *s)
{
	while (*s) { h ^= (unsigned char)*s++; h *= 0x100000001b3ull; }
	return h;
}

/* QoS class identifiers as documented in <dispatch/queue.h>; Linux has no <sys/qos.h> */
#ifndef QOS_CLASS_DEFAULT
#define QOS_CLASS_USER_INTERACTIVE 0x21
#define QOS_CLASS_USER_INITIATED   0x19
#define QOS_CLASS_DEFAULT          0x15
#define QOS_CLASS_UTILITY          0x11
#define QOS_CLASS_BACKGROUND       0x09
#define QOS_CLASS_MAINTENANCE      0x05
#define QOS_CLASS_UNSPECIFIED      0x00
#endif

/* misc */
uint64_t vf_now_ns(clockid_t clk);
void vf_spin_ns(uint64_t ns);     /* busy work for about ns nanoseconds */
int vf_gettid(void);
int vf_log2_bucket(uint64_t v);

#endif
