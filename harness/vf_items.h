/*
 * vf_items.h — work-item records and the interval checker (DESIGN §4.1).
 * Header-only; included by the queue-family harnesses.
 *
 * Stamp facts used (one global counter, every stamp unique):
 *   end(A) < start(B)  =>  A's body was over before B's body began
 *   start(B) < end(A) && start(A) < end(B)  =>  a real moment with both bodies running
 *   ret(X) < call(Y)   =>  X's API call had returned before Y's API call began
 */
#ifndef VF_ITEMS_H
#define VF_ITEMS_H
#include "vf_common.h"

enum {
	VF_K_ASYNC = 0, VF_K_SYNC, VF_K_BARRIER_ASYNC, VF_K_BARRIER_SYNC, VF_K_ASYNC_AND_WAIT,
	VF_K_GROUP_ASYNC, VF_K_BARRIER_ASYNC_AND_WAIT, VF_K_APPLY_ITER, VF_K_BLOCKOBJ, VF_K_NKINDS
};
static const char *const vf_kind_names[] = { "async", "sync", "barrier_async", "barrier_sync",
	"async_and_wait", "group_async", "barrier_async_and_wait", "apply_iter", "block_object" };

enum { VF_Q_SERIAL = 1, VF_Q_CONCURRENT = 2, VF_Q_GLOBAL = 3, VF_Q_WORKLOOP = 4, VF_Q_MAIN = 5 };

typedef struct vf_item {
	uint64_t call, ret;      /* stamps around the submitting API call (submitter) */
	uint64_t start, end;     /* stamps inside the body */
	uint32_t id;
	uint16_t queue;          /* index of the queue submitted to */
	uint16_t domain;         /* exclusion domain (index+1 of the serial bottom), 0 = none */
	uint16_t submitter;      /* client id; 0xffff = submitted from an item */
	uint8_t kind;
	uint8_t is_barrier;      /* barrier semantics on a concurrent queue */
	uint8_t is_sync;         /* API call waits for completion */
	uint8_t submitted;
	uint8_t fform;
	_Atomic uint32_t runs;
	int tid_start;
	/* C05: plain memory handed through the API */
	uint64_t payload[4];
	uint64_t payload_sum;
	uint64_t result[2];
	void *ctx;               /* back pointer to the trial */
	void *aux;
} vf_item_t;

static inline void vf_item_fill_payload(vf_item_t *it, uint64_t salt)
{
	uint64_t s = 0;
	for (int i = 0; i < 4; i++) {
		it->payload[i] = vf_hash64(VF_HASH_INIT ^ salt, (uint64_t)it->id * 4 + (uint64_t)i);
		s += it->payload[i];
	}
	it->payload_sum = s;
}
static inline bool vf_item_payload_ok(const vf_item_t *it)
{
	uint64_t s = 0;
	for (int i = 0; i < 4; i++) s += it->payload[i];
	return s == it->payload_sum && it->payload_sum != 0;
}
static inline void vf_item_fill_result(vf_item_t *it)
{
	it->result[0] = it->payload_sum ^ 0x5555aaaa5555aaaaull;
	it->result[1] = ~it->result[0] + it->id;
}
static inline bool vf_item_result_ok(const vf_item_t *it)
{
	return it->result[0] == (it->payload_sum ^ 0x5555aaaa5555aaaaull) &&
			it->result[1] == ~it->result[0] + it->id;
}

/* ---- sorting helpers ---- */
typedef struct { uint64_t key; vf_item_t *it; } vf_ref_t;
static int vf_ref_cmp(const void *a, const void *b)
{
	uint64_t x = ((const vf_ref_t *)a)->key, y = ((const vf_ref_t *)b)->key;
	return x < y ? -1 : x > y;
}

typedef struct {
	uint64_t overlaps_allowed;   /* reader/reader overlaps seen (liveness of the detector) */
	uint64_t ordered_pairs;      /* (A,B) pairs constrained by a real-time order rule: count of B's with a predecessor */
	uint64_t cross_thread;       /* consecutive items of a domain that ran on different threads */
} vf_ivstats_t;

/* Exclusion inside one domain: no two bodies may overlap.
 * refs: scratch array of n entries. Returns number of violations found. */
static inline int vf_check_exclusion(vf_item_t **its, int n, vf_ref_t *refs, const char *key,
		const char *what, vf_ivstats_t *st)
{
	int m = 0, bad = 0;
	for (int i = 0; i < n; i++) {
		if (!its[i]->start || !its[i]->end) continue; /* never ran: exactly-once reports it */
		refs[m].key = its[i]->start; refs[m].it = its[i]; m++;
	}
	qsort(refs, (size_t)m, sizeof(*refs), vf_ref_cmp);
	vf_item_t *maxend = NULL;
	for (int i = 0; i < m; i++) {
		vf_item_t *b = refs[i].it;
		if (maxend && b->start < maxend->end) {
			if (bad++ < 3) {
				vf_violation(key, "%s: item %u (%s on q%u, thread %d, body [%llu,%llu]) started while item %u (%s on q%u, thread %d, body [%llu,%llu]) was still running",
						what, b->id, vf_kind_names[b->kind], b->queue, b->tid_start,
						(unsigned long long)b->start, (unsigned long long)b->end,
						maxend->id, vf_kind_names[maxend->kind], maxend->queue, maxend->tid_start,
						(unsigned long long)maxend->start, (unsigned long long)maxend->end);
			}
		}
		if (st && i && refs[i - 1].it->tid_start != b->tid_start) st->cross_thread++;
		if (!maxend || b->end > maxend->end) maxend = b;
	}
	return bad;
}

/* Per-queue rules.
 * serial queue: ret(A) < call(B)  =>  end(A) < start(B)           (C02 FIFO)
 * concurrent queue: a barrier overlaps nothing; ret(A) < call(B) and (A or B is a barrier)
 *                   =>  end(A) < start(B)                          (C04)
 */
static inline int vf_check_queue_rules(vf_item_t **its, int n, vf_ref_t *refs, vf_ref_t *refs2,
		int qkind, const char *key_overlap, const char *key_order, const char *what, vf_ivstats_t *st)
{
	int bad = 0;
	bool serial = (qkind == VF_Q_SERIAL || qkind == VF_Q_WORKLOOP || qkind == VF_Q_MAIN);
	/* overlap rule for barriers on concurrent queues */
	if (qkind == VF_Q_CONCURRENT) {
		int m = 0;
		for (int i = 0; i < n; i++) {
			if (!its[i]->start || !its[i]->end) continue;
			refs[m].key = its[i]->start; refs[m].it = its[i]; m++;
		}
		qsort(refs, (size_t)m, sizeof(*refs), vf_ref_cmp);
		vf_item_t *max_all = NULL, *max_bar = NULL;
		for (int i = 0; i < m; i++) {
			vf_item_t *b = refs[i].it;
			vf_item_t *w = NULL;
			if (b->is_barrier) { if (max_all && b->start < max_all->end) w = max_all; }
			else {
				if (max_bar && b->start < max_bar->end) w = max_bar;
				else if (max_all && b->start < max_all->end && st) st->overlaps_allowed++;
			}
			if (w && bad++ < 3) {
				vf_violation(key_overlap, "%s: %s item %u (thread %d, body [%llu,%llu]) overlaps %s item %u (thread %d, body [%llu,%llu])",
						what, vf_kind_names[b->kind], b->id, b->tid_start,
						(unsigned long long)b->start, (unsigned long long)b->end,
						vf_kind_names[w->kind], w->id, w->tid_start,
						(unsigned long long)w->start, (unsigned long long)w->end);
			}
			if (!max_all || b->end > max_all->end) max_all = b;
			if (b->is_barrier && (!max_bar || b->end > max_bar->end)) max_bar = b;
		}
	}
	if (!serial && qkind != VF_Q_CONCURRENT) return bad;
	/* real-time order rule: sweep B by call, A by ret */
	int na = 0, nb = 0;
	for (int i = 0; i < n; i++) {
		if (!its[i]->submitted || !its[i]->ret || !its[i]->end) continue;
		refs[na].key = its[i]->ret; refs[na].it = its[i]; na++;
	}
	for (int i = 0; i < n; i++) {
		if (!its[i]->submitted || !its[i]->call || !its[i]->start) continue;
		refs2[nb].key = its[i]->call; refs2[nb].it = its[i]; nb++;
	}
	qsort(refs, (size_t)na, sizeof(*refs), vf_ref_cmp);
	qsort(refs2, (size_t)nb, sizeof(*refs2), vf_ref_cmp);
	vf_item_t *max_all = NULL, *max_bar = NULL;
	int ia = 0;
	for (int ib = 0; ib < nb; ib++) {
		vf_item_t *b = refs2[ib].it;
		while (ia < na && refs[ia].key < b->call) {
			vf_item_t *a = refs[ia].it;
			if (!max_all || a->end > max_all->end) max_all = a;
			if (a->is_barrier && (!max_bar || a->end > max_bar->end)) max_bar = a;
			ia++;
		}
		vf_item_t *w = (serial || b->is_barrier) ? max_all : max_bar;
		if (w && st) st->ordered_pairs++;
		if (w && w != b && b->start < w->end) {
			if (bad++ < 3) {
				vf_violation(key_order, "%s: %s item %u (call %llu, body [%llu,%llu]) started before %s item %u finished (its submission returned at %llu, body [%llu,%llu])",
						what, vf_kind_names[b->kind], b->id, (unsigned long long)b->call,
						(unsigned long long)b->start, (unsigned long long)b->end,
						vf_kind_names[w->kind], w->id, (unsigned long long)w->ret,
						(unsigned long long)w->start, (unsigned long long)w->end);
			}
		}
	}
	return bad;
}

#endif
