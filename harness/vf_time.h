/* vf_time.h — decode dispatch_time_t by its documented encoding (DESIGN §4.3).
 * top bits 00: uptime (CLOCK_MONOTONIC on Linux), 10: monotonic (CLOCK_BOOTTIME),
 * 11: wall clock, value = -(time) nanoseconds since the epoch. */
#ifndef VF_TIME_H
#define VF_TIME_H
#include "vf_common.h"
#include <dispatch/dispatch.h>

enum { VF_CLK_UPTIME = 0, VF_CLK_MONO = 1, VF_CLK_WALL = 2 };
typedef struct { int kind; clockid_t clk; uint64_t value; } vf_deadline_t;
static const char *const vf_clk_names[] = { "uptime", "monotonic", "wall" };

static inline vf_deadline_t vf_decode_time(dispatch_time_t t)
{
	vf_deadline_t d;
	if ((int64_t)t < 0) {
		if (t & (1ull << 62)) { d.kind = VF_CLK_WALL; d.clk = CLOCK_REALTIME; d.value = (uint64_t)-(int64_t)t; }
		else { d.kind = VF_CLK_MONO; d.clk = CLOCK_BOOTTIME; d.value = t & ~(1ull << 63); }
	} else { d.kind = VF_CLK_UPTIME; d.clk = CLOCK_MONOTONIC; d.value = t; }
	return d;
}
/* Build a finite deadline delta_ns from now on the given clock through the public API. */
static inline dispatch_time_t vf_make_deadline(int kind, int64_t delta_ns, int variant)
{
	switch (kind) {
	case VF_CLK_WALL:
		return variant ? dispatch_walltime(NULL, delta_ns) : dispatch_time(DISPATCH_WALLTIME_NOW, delta_ns);
	case VF_CLK_MONO:
		return dispatch_time((dispatch_time_t)(1ull << 63) /* DISPATCH_MONOTONICTIME_NOW */, delta_ns);
	default:
		return dispatch_time(DISPATCH_TIME_NOW, delta_ns);
	}
}
#endif
