#!/bin/sh
# Rebuild /repo/_build with the verification guard OFF (no -DDISPATCH_VERIF) and run the pinned suite.
set -e
cmake --build /repo/_build >/dev/null
exec ctest --test-dir /repo/_build -j8 --timeout 900 "$@"
