#!/bin/sh
# usage: confirm_seeded.sh <worktree>  — confirms a seeded change: ctest passes with it, demo fails with it, demo passes without it
wt=$1; cd $wt || exit 2
git apply --check -R out/patch.diff 2>/dev/null || git apply out/patch.diff
cmake --build _build >/dev/null 2>&1 || { echo "BUILD FAILED with change"; exit 1; }
ct=$(ctest --test-dir _build -j8 --timeout 900 2>&1 | grep -E "tests passed|tests failed" | head -1)
echo "ctest with change: $ct"
timeout 300 sh out/run_demo.sh >/tmp/demo_with.log 2>&1; w=$?
echo "demo with change: exit $w: $(tail -2 /tmp/demo_with.log | tr '\n' ' ' | cut -c1-200)"
git apply -R out/patch.diff && cmake --build _build >/dev/null 2>&1
timeout 300 sh out/run_demo.sh >/tmp/demo_without.log 2>&1; wo=$?
echo "demo without change: exit $wo: $(tail -1 /tmp/demo_without.log | cut -c1-160)"
git apply out/patch.diff && cmake --build _build >/dev/null 2>&1
echo "RESULT with=$w without=$wo"
