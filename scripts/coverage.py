#!/usr/bin/env python3
"""Reach map: which libdispatch source lines / functions do the registered workloads execute?

Builds /repo's working tree with clang source coverage (flavor "cov"), runs every distinct harness
process of every property's job list once (flavor replaced), merges the profiles and writes
  coverage/summary.json       per-file line / function / region coverage of src/
  coverage/unreached.txt      functions of src/ that no workload executed
This is not a check (no verdict): it is the evidence for "what the monitors could not have seen".
usage: scripts/coverage.py [--tier quick|thorough] [--seed N] [--keep]
"""
import argparse
import json
import os
import shutil
import subprocess
import sys
import tempfile
from concurrent.futures import ThreadPoolExecutor

sys.path.insert(0, os.path.dirname(os.path.dirname(os.path.abspath(__file__))))
from vf import build, driver, props  # noqa: E402


def main():
    ap = argparse.ArgumentParser()
    ap.add_argument("--tier", default="quick")
    ap.add_argument("--seed", type=int, default=1)
    ap.add_argument("--jobs", type=int, default=16)
    ap.add_argument("--props", default=None)
    ap.add_argument("--keep", action="store_true", help="keep build/cov/all.profdata (llvm-cov-14 show build/cov/lib/libdispatch.so -instr-profile=...)")
    a = ap.parse_args()
    out = os.path.join(build.VERIF, "coverage")
    os.makedirs(out, exist_ok=True)
    raw = tempfile.mkdtemp(prefix="vfcov-", dir=build.BUILD if os.path.isdir(build.BUILD) else None)
    seen = {}
    per_prop = {}
    for p in sorted(props.PROPS):
        if a.props and p not in a.props.split(","):
            continue
        spec = props.PROPS[p](a.tier)
        for j in spec[0]:
            if j.wrapper:
                continue
            key = (j.harness, tuple(j.args), tuple(sorted(j.env.items())))
            per_prop.setdefault(p, set()).add(key)
            if key in seen:
                continue
            env = dict(j.env)
            env["LLVM_PROFILE_FILE"] = os.path.join(raw, "%p-%m.profraw")
            seen[key] = driver.Job("cov", j.harness, j.args, ncpu=j.ncpu, timeout=max(j.timeout, 300) * 3, env=env,
                                   extra_src=j.extra_src, tag=j.tag)
    jobs = list(seen.values())
    build.build_flavor("cov")
    bins = {}
    for h, ex in sorted(set((j.harness, j.extra_src) for j in jobs)):
        bins[h] = build.build_harness("cov", h, ex)
    print("running %d distinct harness processes under coverage" % len(jobs), flush=True)
    with ThreadPoolExecutor(max_workers=a.jobs) as ex:
        list(ex.map(lambda j: driver.run_job(j, a.seed, bins[j.harness]), jobs))
    bad = [j for j in jobs if j.rc != 0 or j.timed_out]
    for j in bad:
        print("note: %s %s rc=%s timed_out=%s" % (j.harness, " ".join(j.args), j.rc, j.timed_out))
    lib = os.path.join(build.libdir("cov"), "libdispatch.so")
    raws = [os.path.join(raw, f) for f in os.listdir(raw) if f.endswith(".profraw")]
    prof = os.path.join(raw, "all.profdata")
    lst = os.path.join(raw, "list.txt")
    open(lst, "w").write("\n".join(raws) + "\n")
    subprocess.check_call(["llvm-profdata-14", "merge", "-sparse", "-f", lst, "-o", prof])
    exp = subprocess.check_output(["llvm-cov-14", "export", lib, "-instr-profile=" + prof, "-skip-expansions"])
    data = json.loads(exp)["data"][0]
    srcroot = os.path.join(build.REPO, "src") + os.sep
    files = {}
    for f in data["files"]:
        fn = f["filename"]
        if not fn.startswith(srcroot) or "/BlocksRuntime/" in fn:
            continue
        s = f["summary"]
        files[fn[len(build.REPO) + 1:]] = {k: {"count": s[k]["count"], "covered": s[k]["covered"]} for k in ("lines", "functions", "regions")}
    unreached, reached = [], 0
    for fu in data["functions"]:
        fns = [x for x in fu["filenames"] if x.startswith(srcroot) and "/BlocksRuntime/" not in x]
        if not fns:
            continue
        name = fu["name"].split(":")[-1]
        if fu["count"] == 0:
            unreached.append("%s\t%s" % (fns[0][len(build.REPO) + 1:], name))
        else:
            reached += 1
    tot = {k: {"count": sum(v[k]["count"] for v in files.values()), "covered": sum(v[k]["covered"] for v in files.values())} for k in ("lines", "functions", "regions")}
    summary = {"tier": a.tier, "seed": a.seed, "processes": len(jobs), "processes_not_clean": len(bad),
               "repo_head": subprocess.check_output(["git", "-C", build.REPO, "rev-parse", "--short", "HEAD"]).decode().strip(),
               "total": tot, "files": dict(sorted(files.items())),
               "function_instances_reached": reached, "function_instances_unreached": len(unreached)}
    json.dump(summary, open(os.path.join(out, "summary.json"), "w"), indent=1, sort_keys=True)
    open(os.path.join(out, "unreached.txt"), "w").write("\n".join(sorted(set(unreached))) + "\n")
    for fn, v in sorted(files.items()):
        if v["lines"]["count"]:
            print("%-40s lines %5d/%5d %5.1f%%  functions %4d/%4d" % (fn, v["lines"]["covered"], v["lines"]["count"],
                  100.0 * v["lines"]["covered"] / v["lines"]["count"], v["functions"]["covered"], v["functions"]["count"]))
    print("TOTAL lines %d/%d (%.1f%%) functions %d/%d" % (tot["lines"]["covered"], tot["lines"]["count"],
          100.0 * tot["lines"]["covered"] / max(1, tot["lines"]["count"]), tot["functions"]["covered"], tot["functions"]["count"]))
    if a.keep:
        shutil.copy(prof, os.path.join(build.BUILD, "cov", "all.profdata"))
    shutil.rmtree(raw, ignore_errors=True)


if __name__ == "__main__":
    main()
