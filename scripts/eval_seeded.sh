#!/bin/sh
# usage: scripts/eval_seeded.sh <scratch worktree with the seeded change applied> <name> <Cxx> [Cxx...]
# Runs the quick checks of the given properties against the scratch tree (never /repo), with builds and
# evidence redirected to /tmp so that nothing registered in MANIFEST.json is touched.
wt=$1; name=$2; shift 2
export VERIF_REPO=$wt VERIF_BUILD=/tmp/mutb/$name VERIF_EVIDENCE=/tmp/mutb/$name/evidence
mkdir -p $VERIF_BUILD
cd /verif
for p in "$@"; do
  echo "=== $name: ./check $p (seed ${VERIF_SEED:-1})"
  ./check $p 2>&1 | grep -E "^(HELD|INCONCLUSIVE|VIOLATION|KNOWN-FINDING|  key=)" | cut -c1-260
done
