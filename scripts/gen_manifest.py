#!/usr/bin/env python3
"""Regenerate MANIFEST.json from the table below (keeps it valid and in sync with vf/props.py)."""
import json, os, subprocess, sys
sys.path.insert(0, os.path.dirname(os.path.dirname(os.path.abspath(__file__))))
from vf import props

V = os.path.dirname(os.path.dirname(os.path.abspath(__file__)))
ids = [json.loads(l)["id"] for l in open(os.path.join(V, "properties.jsonl"))]

TECH = {
 "C01": ("runtime monitoring: per-item exactly-once counters + quiescence/stuck-witness watchdog over perturbed random workloads (incl. queues retargeted while in use, EINTR storm, stray futex wake-ups, dependent item pairs with a 2 s stuck rule), directed failpoint schedules (redirected waiter, pending barrier); ASan with stack-use-after-return detection", "§5 C01, §13.2"),
 "C02": ("runtime monitoring: offline interval-overlap and real-time FIFO checker over call/return/start/end stamps (incl. the thread-bound main queue drained by eventfd wake-ups + _dispatch_main_queue_callback_4CF); lost-update counter; ThreadSanitizer on plain per-queue memory", "§5 C02, §13.2"),
 "C03": ("runtime monitoring: interval-overlap checker keyed by hierarchy bottom, per-queue FIFO, gate scenario; ThreadSanitizer", "§5 C03"),
 "C04": ("runtime monitoring: reader/writer overlap + barrier-ordering checker over stamps; torn-write words; ThreadSanitizer", "§5 C04"),
 "C05": ("runtime monitoring: return-vs-end stamps, check-summed plain payloads on every hand-off edge, waiter-stack canary (directed schedule); ThreadSanitizer (TSO-promoted library atomics) as happens-before oracle; ASan stack-use-after-return", "§5 C05, §13.2"),
 "C06": ("runtime monitoring: suspend-count timeline checker over stamps; stuck-witness watchdog; directed failpoint schedule (pending barrier + suspend)", "§5 C06, §13.2"),
 "C07": ("runtime monitoring: interval-bound group-count checker, notify exactly-once/ordering, timeout lower bound", "§5 C07"),
 "C08": ("runtime monitoring: permit-conservation checker over call/return stamps, end-state drain, timeout lower bound (also under injected clock gaps and an EINTR signal storm)", "§5 C08, §13.2"),
 "C09": ("runtime monitoring: initialiser counters and init-end vs return stamps over racing callers; ThreadSanitizer", "§5 C09"),
 "C10": ("runtime monitoring: per-index counters, end-vs-return stamps, order/overlap checker; ASan, ThreadSanitizer", "§5 C10"),
 "C11": ("runtime monitoring: in-handler clock reading vs decoded deadline, fire-count bound, heap-invariant hook H2; ASan", "§5 C11"),
 "C12": ("runtime monitoring: differential testing of dispatch_time/dispatch_walltime against a 128-bit reference model + relational checks; UBSan", "§5 C12"),
 "C13": ("runtime monitoring: byte-string reference model over random operation trees, destructor counters; ASan/UBSan (+memcheck)", "§5 C13"),
 "C14": ("runtime monitoring: position-coded stream model over handler arguments, done/cleanup exactly-once, ordering; unusable descriptors (EBADF, wrong type / access mode, missing path) with a bystander channel; one socket read and written at the same time against a stalling peer; ASan/LSan", "§5 C14, §13.2"),
 "C15": ("runtime monitoring: conservation (sum/union/last) checker over merge and handler events, re-entrancy flag", "§5 C15"),
 "C16": ("runtime monitoring: stamp-order checker over cancel/handler/cancel-handler events, epoll registration probe; ASan", "§5 C16"),
 "C17": ("sanitizers: ASan (with stack-use-after-return detection) / LSan over release-racing lifetime scenarios incl. retargeted and ephemeral target queues and data objects of failed writes + finalizer/destructor counters", "§5 C17, §13.2"),
 "C18": ("runtime monitoring: expected-value model for get_specific/assert_queue/attributes/global queues, exhaustive attribute and identifier tables", "§5 C18"),
 "C19": ("runtime monitoring: stamp-order checker for block wait/notify/cancel, body counters; ThreadSanitizer", "§5 C19"),
 "C20": ("runtime monitoring: reference codecs, round-trip and inverse-accepts relations over all fragmentations; ASan/UBSan (+memcheck)", "§5 C20"),
}

checks, na = [], []
for i in ids:
    if i in props.PROPS:
        tech, ref = TECH[i]
        checks.append({
            "property_id": i,
            "quick_cmd": "./check %s --tier quick" % i,
            "thorough_cmd": "./check %s --tier thorough" % i,
            "evidence_file": "evidence/%s.json" % i,
            "replay_cmd_template": "./check %s --replay {path}" % i,
            "engine": "vf",
            "level_claimed": {"category": "exploration",
                              "text": "held on the executions produced by this run (counts, interleavings and library slow paths reached are in the evidence file); a run that misses its coverage floors is inconclusive, never a pass",
                              "design_ref": "DESIGN.md " + ref},
            "level_note": "trusts: the stamp counter (one atomic RMW), the harness and checker code in /verif/harness and /verif/vf, clang-14 sanitizer runtimes; x86-64 Linux configuration only; schedules are sampled (perturbation at library atomics, affinity masks), not enumerated",
            "technique": tech,
        })
    else:
        na.append({"property_id": i, "reason": "check not built yet in this round (work in progress; see DESIGN.md §5 for the planned monitor)"})

m = {
 "version": 1,
 "setup_cmd": "python3 vf/build.py hooks asan tsan dbg",
 "hooks": {"guard": "DISPATCH_VERIF",
           "enable": "cmake -DCMAKE_C_FLAGS=-DDISPATCH_VERIF=1 (vf/build.py builds /repo out of tree into /verif/build/<flavor>)",
           "baseline_off_cmd": "scripts/baseline_off.sh",
           "source_commits": subprocess.run(["git", "-C", "/repo", "log", "--format=%H", "--grep=^verif hook"], capture_output=True, text=True).stdout.split(),
           "add_only": True},
 "engines": [{"name": "vf", "path": "check", "serves_properties": [c["property_id"] for c in checks],
              "kind_free_text": "runtime monitoring driver: builds /repo in hooks/asan/tsan/dbg flavors, fans out harness processes (harness/*.c) under perturbation and affinity masks, checks recorded histories, triages sanitizer logs, matches known findings, writes evidence"}],
 "checks": checks,
 "not_applicable": na,
 "notes": "See DESIGN.md. known_findings.json lists fixed/known findings; scripts/gen_manifest.py regenerates this file.",
}
json.dump(m, open(os.path.join(V, "MANIFEST.json"), "w"), indent=1)
print("checks:", len(checks), "not_applicable:", len(na))
