#!/usr/bin/env python3
"""Apply each mutant of mutants/mutants.py to a scratch worktree of /repo and run the checks expected to catch it.
usage: scripts/run_mutants.py [name-substring ...]   (results: /tmp/mutants_result.jsonl and stdout)"""
import json, os, subprocess, sys
V = os.path.dirname(os.path.dirname(os.path.abspath(__file__)))
sys.path.insert(0, os.path.join(V, "mutants"))
from mutants import MUTANTS
WT, BD = "/tmp/mw", "/tmp/mwb"
subprocess.run(["git", "-C", "/repo", "worktree", "remove", "--force", WT], capture_output=True)
subprocess.run(["git", "-C", "/repo", "worktree", "add", "-q", "--detach", WT, "HEAD"], check=True)
env = dict(os.environ, VERIF_REPO=WT, VERIF_BUILD=BD, VERIF_EVIDENCE=BD + "/evidence")
sel = sys.argv[1:]
out = open("/tmp/mutants_result.jsonl", "a")
for name, prop, path, old, new, checks in MUTANTS:
    if sel and not any(s in name for s in sel):
        continue
    subprocess.run(["git", "-C", WT, "checkout", "-q", "--", "."], check=True)
    p = os.path.join(WT, path)
    src = open(p).read()
    if not old or src.count(old) != 1:
        print("%-55s SKIPPED (snippet not found exactly once)" % name, flush=True)
        continue
    open(p, "w").write(src.replace(old, new))
    res = {}
    for c in checks:
        r = subprocess.run([os.path.join(V, "check"), c], env=env, capture_output=True, text=True, cwd=V)
        keys = [l.strip()[4:] for l in r.stdout.splitlines() if l.startswith("  key=")]
        verdict = "CAUGHT" if r.returncode == 1 else "held" if r.returncode == 0 else "inconclusive"
        res[c] = {"verdict": verdict, "keys": keys[:8]}
    print("%-55s %s" % (name, "  ".join("%s:%s%s" % (c, v["verdict"], (" [" + ", ".join(v["keys"][:3]) + "]") if v["keys"] else "") for c, v in res.items())), flush=True)
    out.write(json.dumps({"mutant": name, "property": prop, "results": res}) + "\n"); out.flush()
subprocess.run(["git", "-C", "/repo", "worktree", "remove", "--force", WT], capture_output=True)
subprocess.run(["rm", "-rf", BD])
