#!/bin/sh
# usage: scripts/soak.sh "<seeds>" [props...]   — runs quick checks with evidence redirected; prints one line per run
seeds=$1; shift
props=${@:-C01 C02 C03 C04 C05 C06 C07 C08 C09 C10 C11 C12 C13 C14 C15 C16 C17 C18 C19 C20}
export VERIF_EVIDENCE=/tmp/soak_evidence
cd /verif
for s in $seeds; do for p in $props; do
  t0=$(date +%s)
  out=$(VERIF_SEED=$s ./check $p 2>&1 | grep -E "^(HELD|INCONCLUSIVE|VIOLATION|KNOWN-FINDING|  key=)" | cut -c1-200 | tr '\n' '|')
  echo "seed=$s $p $(( $(date +%s) - t0 ))s $out"
done; done
