#!/usr/bin/env python3
"""usage: scripts/tsan_probe.py <harness> [args...] — run one harness in the tsan flavor and list the client-level
race reports the driver would keep (debugging aid)."""
import os, subprocess, sys, shutil
V = os.path.dirname(os.path.dirname(os.path.abspath(__file__)))
sys.path.insert(0, V)
from vf import build, driver
h = sys.argv[1]
build.build_flavor("tsan")
b = build.build_harness("tsan", h)
d = "/tmp/tsan_probe"; shutil.rmtree(d, ignore_errors=True); os.makedirs(d)
env = dict(os.environ, TSAN_OPTIONS="halt_on_error=0:report_signal_unsafe=0:report_thread_leaks=0:exitcode=0:history_size=4:log_path=%s/san" % d)
p = subprocess.run([b] + sys.argv[2:], env=env, capture_output=True, text=True)
for l in p.stdout.splitlines():
    if '"type":"violation"' in l or '"type":"summary"' in l: print(l[:300])
print("exit", p.returncode, p.stderr[-300:])
class J: pass
j = J(); j.sanlog = d + "/san"
keep, disc = driver.tsan_reports(j)
print("client-level reports:", len(keep), "discarded:", disc)
seen = {}
for k, det in keep:
    seen.setdefault(k, det)
for k, det in seen.items():
    print("==", k); print(det[:1800])
