"""Build flavors of /repo (always from its current working tree) and the harnesses."""
import fcntl
import os
import shutil
import subprocess
import sys
import time

VERIF = os.path.dirname(os.path.dirname(os.path.abspath(__file__)))
REPO = os.environ.get("VERIF_REPO", "/repo")
BUILD = os.environ.get("VERIF_BUILD", os.path.join(VERIF, "build"))
CC = "clang-14"
CXX = "clang++-14"

COMMON = "-g -fno-omit-frame-pointer -DDISPATCH_VERIF=1"
FLAVORS = {
    # name: (lib cflags, opt flags, harness cflags, link flags, cmake extra)
    "hooks": dict(cflags=COMMON, opt="-O2 -g", hcflags="-O2", ldflags="", cmake=[]),
    "asan": dict(
        cflags=COMMON + " -fsanitize=address,undefined -fno-sanitize=vptr,function -fno-sanitize-recover=all",
        opt="-O1 -g", hcflags="-O1 -fsanitize=address,undefined -fno-sanitize=vptr,function -fno-sanitize-recover=all",
        ldflags="-fsanitize=address,undefined", cmake=[]),
    "tsan": dict(
        cflags=COMMON + " -fsanitize=thread -mllvm -tsan-instrument-memory-accesses=0 -mllvm -tsan-instrument-memintrinsics=0",
        opt="-O1 -g", hcflags="-O1 -fsanitize=thread", ldflags="-fsanitize=thread", cmake=[]),
    # reach map only (scripts/coverage.py); never part of a check
    "cov": dict(cflags=COMMON + " -fprofile-instr-generate -fcoverage-mapping", opt="-O1 -g", hcflags="-O1",
                ldflags="-fprofile-instr-generate", cmake=[]),
    "dbg": dict(cflags=COMMON + " -Wno-error=format -Wno-error", opt="-O2 -g", hcflags="-O2", ldflags="",
                cmake=["-DDISPATCH_ENABLE_ASSERTS=ON"]),
}


class BuildError(Exception):
    pass


def _run(cmd, log, cwd=None):
    with open(log, "ab") as f:
        f.write(("\n$ " + " ".join(cmd) + "\n").encode())
        f.flush()
        r = subprocess.run(cmd, stdout=f, stderr=subprocess.STDOUT, cwd=cwd)
    return r.returncode


def libdir(flavor):
    return os.path.join(BUILD, flavor, "lib")


def bindir(flavor):
    return os.path.join(BUILD, flavor, "bin")


def build_flavor(flavor):
    """cmake+ninja build of REPO into BUILD/<flavor>/lib; serialised by flock."""
    fl = FLAVORS[flavor]
    ld = libdir(flavor)
    os.makedirs(ld, exist_ok=True)
    os.makedirs(bindir(flavor), exist_ok=True)
    log = os.path.join(BUILD, flavor, "build.log")
    lock = open(os.path.join(BUILD, flavor, ".lock"), "w")
    fcntl.flock(lock, fcntl.LOCK_EX)
    try:
        stamp = os.path.join(ld, ".vf_configured")
        want = REPO + "|" + fl["cflags"] + "|" + fl["opt"] + "|" + " ".join(fl["cmake"])
        have = open(stamp).read() if os.path.exists(stamp) else None
        if have != want:
            if os.path.exists(ld):
                shutil.rmtree(ld)
            os.makedirs(ld)
            if os.path.exists(log):
                os.unlink(log)
            cmd = ["cmake", "-G", "Ninja", "-S", REPO, "-B", ld,
                   "-DCMAKE_C_COMPILER=" + CC, "-DCMAKE_CXX_COMPILER=" + CXX,
                   "-DCMAKE_BUILD_TYPE=RelWithDebInfo",
                   "-DCMAKE_C_FLAGS_RELWITHDEBINFO=" + fl["opt"],
                   "-DCMAKE_CXX_FLAGS_RELWITHDEBINFO=" + fl["opt"],
                   "-DCMAKE_C_FLAGS=" + fl["cflags"], "-DCMAKE_CXX_FLAGS=" + fl["cflags"],
                   "-DCMAKE_SHARED_LINKER_FLAGS=" + fl["ldflags"],
                   "-DBUILD_TESTING=OFF"] + fl["cmake"]
            if _run(cmd, log) != 0:
                raise BuildError("cmake configure failed for flavor %s (see %s)" % (flavor, log))
            with open(stamp, "w") as f:
                f.write(want)
        if _run(["cmake", "--build", ld, "--", "-j16"], log) != 0:
            raise BuildError("build failed for flavor %s (see %s)" % (flavor, log))
        inc = os.path.join(BUILD, flavor, "vfinc")
        os.makedirs(inc, exist_ok=True)
        link = os.path.join(inc, "dispatch")
        if os.path.islink(link) and os.readlink(link) != os.path.join(REPO, "private"):
            os.unlink(link)
        if not os.path.islink(link):
            os.symlink(os.path.join(REPO, "private"), link)
    finally:
        fcntl.flock(lock, fcntl.LOCK_UN)
        lock.close()
    return ld


def _newest(paths):
    m = 0
    for p in paths:
        try:
            m = max(m, os.stat(p).st_mtime)
        except OSError:
            pass
    return m


def build_harness(flavor, name, extra_src=()):
    """Compile harness/<name>.c (+ vf_common, + extra) against the flavor's library."""
    fl = FLAVORS[flavor]
    ld = libdir(flavor)
    hdir = os.path.join(VERIF, "harness")
    out = os.path.join(bindir(flavor), name)
    srcs = [os.path.join(hdir, name + ".c")] + [os.path.join(hdir, s) for s in extra_src]
    common = os.path.join(hdir, "vf_common.c")
    hdrs = [os.path.join(hdir, f) for f in os.listdir(hdir) if f.endswith(".h")]
    pub = []
    for d in ("dispatch", "private", "os"):
        dd = os.path.join(REPO, d)
        if os.path.isdir(dd):
            pub += [os.path.join(dd, f) for f in os.listdir(dd) if f.endswith(".h")]
    deps = srcs + [common] + hdrs + pub + [os.path.join(ld, "libdispatch.so"), os.path.abspath(__file__)]
    lock = open(os.path.join(BUILD, flavor, ".hlock." + name), "w")
    fcntl.flock(lock, fcntl.LOCK_EX)
    try:
        if os.path.exists(out) and os.stat(out).st_mtime > _newest(deps):
            return out
        log = os.path.join(BUILD, flavor, "harness-%s.log" % name)
        if os.path.exists(log):
            os.unlink(log)
        base = [CC, "-std=gnu11", "-g", "-fno-omit-frame-pointer", "-fblocks", "-Wall", "-Wextra",
                "-Wno-unused-parameter", "-Werror=implicit-function-declaration",
                "-Werror=incompatible-pointer-types", "-Werror=int-conversion",
                "-I" + REPO, "-I" + os.path.join(REPO, "src", "BlocksRuntime"), "-I" + os.path.join(BUILD, flavor, "vfinc"), "-I" + ld, "-I" + hdir,
                "-DVF_FLAVOR_" + flavor.upper() + "=1"]
        objs = []
        # vf_common is never TSan-instrumented: its statistics are deliberately racy
        ccommon = fl["hcflags"].replace("-fsanitize=thread", "")
        o = os.path.join(bindir(flavor), "vf_common.%s.o" % name)
        if _run(base + ccommon.split() + ["-c", common, "-o", o], log) != 0:
            raise BuildError("compiling vf_common failed (%s)" % log)
        objs.append(o)
        cmd = base + fl["hcflags"].split() + srcs + objs + ["-o", out + ".tmp", "-L" + ld,
              "-Wl,-rpath," + ld, "-ldispatch", "-lBlocksRuntime", "-lpthread", "-ldl", "-lm", "-rdynamic"] + fl["ldflags"].split()
        if _run(cmd, log) != 0:
            raise BuildError("compiling harness %s failed for flavor %s (see %s)" % (name, flavor, log))
        os.replace(out + ".tmp", out)
    finally:
        fcntl.flock(lock, fcntl.LOCK_UN)
        lock.close()
    return out


if __name__ == "__main__":
    t = time.time()
    for f in sys.argv[1:] or ["hooks"]:
        print(build_flavor(f), "%.1fs" % (time.time() - t))
