"""Driver: build flavors, fan out harness processes, triage, evidence, findings."""
import fnmatch
import hashlib
import json
import os
import random
import re
import signal
import subprocess
import sys
import threading
import time
from concurrent.futures import ThreadPoolExecutor

from . import build

VERIF = build.VERIF
EVID = os.environ.get("VERIF_EVIDENCE", os.path.join(VERIF, "evidence"))  # redirected only when testing the monitors on scratch copies
REPLAY = os.path.join(EVID, "replay")
NCPU = len(os.sched_getaffinity(0))
ALLCPUS = sorted(os.sched_getaffinity(0))
SYMBOLIZER = "llvm-symbolizer-14"

_print_lock = threading.Lock()


def say(msg):
    with _print_lock:
        print(msg, flush=True)


class Job:
    """One harness process."""

    def __init__(self, flavor, harness, args=(), ncpu=None, timeout=300, env=None, extra_src=(),
                 expect_exit=None, wrapper=None, tag=None):
        self.flavor = flavor
        self.harness = harness
        self.args = list(args)
        self.ncpu = ncpu
        self.timeout = timeout
        self.env = env or {}
        self.extra_src = tuple(extra_src)
        self.wrapper = wrapper  # e.g. ["valgrind", "--error-exitcode=9", ...]
        self.tag = tag or harness
        # filled by run
        self.rc = None
        self.lines = []
        self.stderr = ""
        self.timed_out = False
        self.wall = 0.0
        self.cmd = None
        self.retried = False


def _san_env(flavor, logbase):
    env = {}
    if flavor == "asan":
        env["ASAN_OPTIONS"] = "abort_on_error=1:detect_leaks=%s:halt_on_error=1:allocator_may_return_null=1:detect_stack_use_after_return=1" % os.environ.get("VF_LSAN", "0")
        env["UBSAN_OPTIONS"] = "print_stacktrace=1:halt_on_error=1"
        env["LSAN_OPTIONS"] = "exitcode=23"
    elif flavor == "tsan":
        env["TSAN_OPTIONS"] = "halt_on_error=0:report_signal_unsafe=0:report_thread_leaks=0:exitcode=0:history_size=4:second_deadlock_stack=1:log_path=%s" % logbase
    return env


def run_job(job, seed, binpath):
    cpus = None
    if job.ncpu and job.ncpu < NCPU:
        rnd = random.Random(hash((seed, job.tag, tuple(job.args))))
        cpus = set(rnd.sample(ALLCPUS, job.ncpu))
    os.makedirs(REPLAY, exist_ok=True)
    logbase = os.path.join(REPLAY, "san-%s-%d-%d" % (re.sub(r"[^A-Za-z0-9_]", "_", job.tag), os.getpid(), id(job) & 0xffffff))
    env = dict(os.environ)
    env.update(_san_env(job.flavor, logbase))
    env["VF_REPLAY_DIR"] = REPLAY
    env.update(job.env)
    cmd = (job.wrapper or []) + [binpath] + job.args + ["--seed=%d" % seed]
    job.cmd = cmd
    job.sanlog = logbase

    def pre():
        if cpus:
            os.sched_setaffinity(0, cpus)
        os.setsid()

    t0 = time.time()
    p = subprocess.Popen(cmd, stdout=subprocess.PIPE, stderr=subprocess.PIPE, env=env, preexec_fn=pre, cwd=VERIF)
    try:
        out, err = p.communicate(timeout=job.timeout)
    except subprocess.TimeoutExpired:
        job.timed_out = True
        try:
            os.killpg(p.pid, signal.SIGKILL)
        except OSError:
            pass
        out, err = p.communicate()
    job.wall = time.time() - t0
    job.rc = p.returncode
    job.stderr = err.decode("utf-8", "replace")
    job.lines = []
    for ln in out.decode("utf-8", "replace").splitlines():
        ln = ln.strip()
        if ln.startswith("{"):
            try:
                job.lines.append(json.loads(ln))
            except ValueError:
                job.lines.append({"type": "garbled", "raw": ln[:400]})
    return job


# ---------------------------------------------------------------- triage helpers
def symbolize(lib, off):
    try:
        r = subprocess.run([SYMBOLIZER, "-e", lib, "-f", "-C", "-i", off], capture_output=True, text=True, timeout=30)
        names = [l for i, l in enumerate(r.stdout.splitlines()) if i % 2 == 0 and l.strip()]
        return names
    except Exception:
        return []


SIGNAMES = {v: k for k, v in signal.__dict__.items() if k.startswith("SIG") and not k.startswith("SIG_") and isinstance(v, int)}


def crash_key(job):
    """key for a process that died by a signal: crash:<SIG>:<top library function>"""
    sig = -job.rc
    signame = SIGNAMES.get(sig, "SIG%d" % sig)
    top = "?"
    for ln in job.lines:
        if ln.get("type") == "crash":
            for fr in ln.get("frames", []):
                if fr.get("obj", "").startswith("libdispatch"):
                    names = symbolize(os.path.join(build.libdir(job.flavor), "libdispatch.so"), fr["off"])
                    # innermost non-inlined function = last name; use the outermost real function
                    if names:
                        top = names[-1]
                        break
            break
    return "crash:%s:%s" % (signame, top)


_ASAN_RE = re.compile(r"ERROR: AddressSanitizer: ([a-zA-Z0-9_-]+)")
_UBSAN_RE = re.compile(r"([^\s:]+):(\d+):(\d+): runtime error: (.*)")
_FRAME_RE = re.compile(r"#\d+ 0x[0-9a-f]+ in (\S+) (\S+)")


def sanitizer_keys(job):
    """ASan/UBSan report in stderr -> list of (key, detail)."""
    out = []
    err = job.stderr
    m = _ASAN_RE.search(err)
    if m:
        kind = m.group(1)
        func = "?"
        for fm in _FRAME_RE.finditer(err[m.end():]):
            if "/src/" in fm.group(2) or "harness" in fm.group(2):
                func = fm.group(1)
                break
        out.append(("asan:%s:%s" % (kind, func), err[m.start():m.start() + 3000]))
    for m in _UBSAN_RE.finditer(err):
        msg = re.sub(r"0x[0-9a-f]+", "ADDR", m.group(4))
        msg = re.sub(r"-?\d+", "N", msg)[:80]
        func = "?"
        fm = _FRAME_RE.search(err[m.end():m.end() + 600])
        if fm:
            func = fm.group(1)
        out.append(("ubsan:%s:%s:%s" % (os.path.basename(m.group(1)), func, msg), err[m.start():m.start() + 2000]))
    if "LeakSanitizer: detected memory leaks" in err:
        i = err.index("LeakSanitizer: detected memory leaks")
        func = "?"
        for fm in _FRAME_RE.finditer(err[i:]):
            if "/src/" in fm.group(2) and "alloc" not in fm.group(1):
                func = fm.group(1)
                break
        out.append(("lsan:leak:%s" % func, err[i:i + 3000]))
    return out


def tsan_reports(job, harness_markers=("harness/",)):
    """Parse TSan logs; return list of (key, detail) for client-level reports: both accesses
    have their innermost frame in harness code (or in libc mem* called from it)."""
    res = []
    discarded = 0
    d = os.path.dirname(job.sanlog)
    base = os.path.basename(job.sanlog)
    texts = []
    for f in os.listdir(d):
        if f.startswith(base):
            p = os.path.join(d, f)
            texts.append(open(p, errors="replace").read())
            os.unlink(p)
    for t in texts:
        for block in t.split("=================="):
            if "WARNING: ThreadSanitizer" not in block:
                continue
            kind = re.search(r"WARNING: ThreadSanitizer: ([^\n(]+)", block).group(1).strip()
            if "data race" not in kind:
                discarded += 1
                continue
            # split into stack sections; the first two are the two accesses
            secs = re.split(r"\n\s*\n", block)
            # (the first access follows the WARNING line inside the first section: match per line)
            acc = [s for s in secs if re.search(r"^\s*(Write|Read|Previous write|Previous read|Atomic|Previous atomic)", s, re.I | re.M)]
            ok = len(acc) >= 2
            funcs = []
            for s in acc[:2]:
                frames = re.findall(r"#\d+ (\S+) (\S+)", s)
                inner = None
                for fn, loc in frames:
                    if fn in ("memcpy", "memset", "memmove", "memcmp", "free", "malloc", "calloc", "__interceptor_memcpy", "__interceptor_memset") or "sanitizer" in loc or "tsan" in loc:
                        continue
                    inner = (fn, loc)
                    break
                if not inner or not any(mk in inner[1] for mk in harness_markers):
                    ok = False
                else:
                    funcs.append(inner[0])
            if ok:
                res.append(("tsan:race:%s" % "+".join(sorted(funcs)), block[:4000]))
            else:
                discarded += 1
    return res, discarded


# ---------------------------------------------------------------- findings
def load_findings():
    p = os.path.join(VERIF, "known_findings.json")
    if not os.path.exists(p):
        return []
    return json.load(open(p)).get("findings", [])


def match_finding(findings, prop, key):
    for f in findings:
        if f.get("property") == prop and f.get("status") == "known" and fnmatch.fnmatchcase(key, f.get("key", "")):
            return f
    return None


# ---------------------------------------------------------------- main entry
class Result:
    def __init__(self):
        self.violations = []      # (key, detail, job)
        self.inconclusive = []    # strings
        self.trials = 0
        self.sigs = set()
        self.samples = []
        self.counters = {}
        self.siteops = {}
        self.nsites = 0
        self.injected = 0
        self.stamps = 0
        self.jobs = 0
        self.tsan_discarded = 0
        self.extra = {}


def merge(a, b):
    """Accumulate the result of another round into a."""
    a.violations += b.violations
    a.inconclusive += b.inconclusive
    a.trials += b.trials
    a.sigs |= b.sigs
    a.samples = (a.samples + b.samples)[:12]
    for k, v in b.counters.items():
        a.counters[k] = a.counters.get(k, 0) + v
    for k, v in b.siteops.items():
        a.siteops[k] = a.siteops.get(k, 0) + v
    a.nsites = max(a.nsites, b.nsites)
    a.injected += b.injected
    a.stamps += b.stamps
    a.jobs += b.jobs
    a.tsan_discarded += b.tsan_discarded
    for k, v in b.extra.items():
        a.extra.setdefault(k, []).extend(v)
    return a


def run_jobs(prop, jobs, seed, parallel=None):
    res = Result()
    # build
    flavors = sorted(set(j.flavor for j in jobs))
    bins = {}
    try:
        with ThreadPoolExecutor(max_workers=len(flavors)) as ex:
            list(ex.map(build.build_flavor, flavors))
        hs = sorted(set((j.flavor, j.harness, j.extra_src) for j in jobs))
        with ThreadPoolExecutor(max_workers=8) as ex:
            for (fl, h, es), b in zip(hs, ex.map(lambda t: build.build_harness(t[0], t[1], t[2]), hs)):
                bins[(fl, h)] = b
    except build.BuildError as e:
        res.inconclusive.append("build: %s" % e)
        return res

    def one(job):
        run_job(job, seed, bins[(job.flavor, job.harness)])
        if job.timed_out and not any(l.get("type") == "violation" for l in job.lines):
            # inconclusive; re-run once before reporting a hang
            job.retried = True
            run_job(job, seed, bins[(job.flavor, job.harness)])
        return job

    workers = parallel or NCPU
    with ThreadPoolExecutor(max_workers=workers) as ex:
        done = list(ex.map(one, jobs))

    for job in done:
        res.jobs += 1
        have_summary = False
        for ln in job.lines:
            t = ln.get("type")
            if t == "trial":
                res.trials += int(ln.get("n", 1))
                if ln.get("nontrivial", True):
                    res.sigs.add(str(ln.get("sig")))
                if "sample" in ln and len(res.samples) < 6:
                    res.samples.append(ln["sample"])
            elif t == "sample" and len(res.samples) < 12:
                res.samples.append({k: v for k, v in ln.items() if k not in ("type",)})
            elif t == "violation":
                res.violations.append((ln.get("key", "?"), ln.get("detail", ""), job))
            elif t == "harness_failure":
                res.inconclusive.append("%s: harness failure: %s" % (job.tag, ln.get("detail")))
            elif t == "summary":
                have_summary = True
                for k, v in ln.get("counters", {}).items():
                    res.counters[k] = res.counters.get(k, 0) + v
                for k, v in ln.get("siteops", {}).items():
                    res.siteops[k] = res.siteops.get(k, 0) + v
                res.nsites = max(res.nsites, ln.get("nsites", 0))
                res.injected += ln.get("injected", 0)
                res.stamps += ln.get("stamps", 0)
            elif t == "extra":
                for k, v in ln.items():
                    if k not in ("type", "harness"):
                        res.extra.setdefault(k, []).append(v)
        sk = sanitizer_keys(job) if job.flavor == "asan" or job.wrapper else []
        for key, detail in sk:
            res.violations.append((key, detail, job))
        if job.flavor == "tsan":
            tr, disc = tsan_reports(job)
            res.tsan_discarded += disc
            for key, detail in tr:
                res.violations.append((key, detail, job))
        if job.timed_out:
            if not any(k for k, _, j in res.violations if j is job):
                res.inconclusive.append("%s: timed out after %ds twice (no stuck witness)" % (job.tag, job.timeout))
        elif job.rc is not None and job.rc < 0:
            if not sk:
                res.violations.append((crash_key(job), "process died by signal %d; stderr tail: %s" % (-job.rc, job.stderr[-1500:]), job))
        elif job.rc == 2:
            if not any("harness failure" in s and job.tag in s for s in res.inconclusive):
                res.inconclusive.append("%s: exit 2; stderr tail: %s" % (job.tag, job.stderr[-400:]))
        elif job.rc not in (0, 1, 3):
            if not sk:
                res.inconclusive.append("%s: unexpected exit status %s; stderr tail: %s" % (job.tag, job.rc, job.stderr[-400:]))
        elif not have_summary and job.rc == 0:
            res.inconclusive.append("%s: no summary line" % job.tag)
        elif job.rc in (1, 3) and not any(j is job for _, _, j in res.violations):
            res.inconclusive.append("%s: exit %d without a violation line" % (job.tag, job.rc))
    return res


def finish(prop, tier, seed, res, t0, rule, floors=None, assumptions=None, extra_cov=None, level="exploration", min_distinct=2):
    """Apply floors, match findings, write evidence, print verdict lines, return exit code."""
    floors = floors or {}
    findings = load_findings()
    os.makedirs(REPLAY, exist_ok=True)
    allc = dict(res.counters)
    allc.update({"site:" + k: v for k, v in res.siteops.items()})
    allc["trials"] = res.trials
    allc["distinct"] = len(res.sigs)
    for name, need in floors.items():
        got = allc.get(name, 0)
        if got < need:
            res.inconclusive.append("floor not reached: %s = %d < %d" % (name, got, need))
    if len(res.sigs) < min_distinct:
        res.inconclusive.append("fewer than %d distinct non-trivial cases observed" % min_distinct)

    new_keys = {}
    known_keys = {}
    for key, detail, job in res.violations:
        f = match_finding(findings, prop, key)
        if f:
            known_keys.setdefault(key, (f, detail, job))
        else:
            new_keys.setdefault(key, (detail, job))
    for key, (f, detail, job) in sorted(known_keys.items()):
        say("KNOWN-FINDING: property=%s %s -- %s" % (prop, key, f.get("description", "")[:200]))
    replay_paths = []
    for key, (detail, job) in sorted(new_keys.items()):
        h = hashlib.sha1(key.encode()).hexdigest()[:10]
        path = os.path.join(REPLAY, "%s-%s.json" % (prop, h))
        with open(path, "w") as f:
            json.dump({"property": prop, "key": key, "detail": detail, "cmd": job.cmd if job else None,
                       "flavor": job.flavor if job else None, "ncpu": job.ncpu if job else None,
                       "env": job.env if job else None, "seed": seed, "tier": tier,
                       "stderr_tail": job.stderr[-3000:] if job else ""}, f, indent=1)
        replay_paths.append(path)
        say("VIOLATION property=%s replay=%s" % (prop, path))
        say("  key=%s" % key)
        say("  %s" % detail[:600].replace("\n", "\n  "))

    cov = {
        "evaluations": max(res.trials, 0),
        "distinct_nontrivial": len(res.sigs),
        "rule": rule,
        "samples": res.samples[:12] or ["(no sample emitted)"],
        "processes": res.jobs,
        "stamps_taken": res.stamps,
        "delays_injected": res.injected,
        "library_atomic_sites_reached": res.nsites,
        "counters": dict(sorted(res.counters.items())),
        "slow_path_site_hits": {k: v for k, v in sorted(res.siteops.items()) if v},
        "floors": floors,
        "inconclusive": res.inconclusive,
        "known_findings_seen": sorted(known_keys.keys()),
        "new_violation_keys": sorted(new_keys.keys()),
    }
    if res.tsan_discarded:
        cov["tsan_reports_discarded_as_library_internal"] = res.tsan_discarded
    if extra_cov:
        cov.update(extra_cov)
    ev = {
        "property_id": prop, "tier": tier, "seed": int(seed), "level": level, "coverage": cov,
        "assumptions": assumptions or [], "wall_s": round(time.time() - t0, 2),
        "violations": len(new_keys),
    }
    os.makedirs(EVID, exist_ok=True)
    tmp = os.path.join(EVID, ".%s.json.tmp%d" % (prop, os.getpid()))
    with open(tmp, "w") as f:
        json.dump(ev, f, indent=1, sort_keys=False)
    os.replace(tmp, os.path.join(EVID, "%s.json" % prop))

    if new_keys:
        return 1
    if res.inconclusive:
        for s in res.inconclusive:
            say("INCONCLUSIVE property=%s %s" % (prop, s))
        return 2
    say("HELD property=%s tier=%s seed=%s trials=%d distinct=%d wall=%.1fs" % (prop, tier, seed, res.trials, len(res.sigs), time.time() - t0))
    return 0


def replay(path, times=5):
    r = json.load(open(path))
    say("replay of %s: key=%s" % (path, r["key"]))
    say(r["detail"])
    if not r.get("cmd"):
        return 0
    hits = 0
    for i in range(times):
        p = subprocess.run(r["cmd"], capture_output=True, text=True, timeout=1800)
        hit = ('"key":"%s"' % r["key"]) in p.stdout or p.returncode not in (0,)
        say("  run %d: exit %d %s" % (i + 1, p.returncode, "REPRODUCED" if hit else "not reproduced"))
        hits += hit
    return 1 if hits else 0
