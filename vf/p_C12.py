"""C12 — dispatch_time / dispatch_walltime arithmetic (harness/h_time.c).

Differential test against an exact (__int128) model of the documented dispatch_time_t
encoding + relational checks (clock preserved, monotone in delta, FOREVER absorbing) +
sampled past-deadline waits (dispatch_semaphore_wait / dispatch_group_wait on all three
clocks); UBSan watches the library's arithmetic in the asan flavor.
"""
from .driver import Job


def ht(flavor, trials, first, batch, extremes=7, ncpu=None, timeout=300, waits=12):
    args = ["--trials=%d" % trials, "--first=%d" % first, "--batch=%d" % batch,
            "--extremes=%d" % extremes, "--waits=%d" % waits]
    return Job(flavor, "h_time", args, ncpu=ncpu, timeout=timeout,
               tag="h_time:%s:x%d:%d:%s" % (flavor, extremes, first, ncpu or 16))


def spec(tier):
    quick = tier == "quick"
    if quick:
        batch, h_trials, h_procs = 20000, 32, 16          # 16 * 32 * 20000 = 1.02e7 cases
        a_trials, a_procs = 13, 4                          # 4 * 13 * 20000 = 1.04e6 cases under ASan+UBSan
        to = 120
    else:
        batch, h_trials, h_procs = 250000, 250, 16        # 16 * 250 * 250000 = 1.0e9
        a_trials, a_procs = 50, 8                          # 8 * 50 * 250000 = 1.0e8
        to = 900
    jobs = []
    # hooks flavor: full input domain (all int64 extremes), disjoint trial ranges; two processes on small
    # CPU masks so that the waiter/helper threads of the past-deadline probes also run time-sliced
    for i in range(h_procs):
        ncpu = 1 if i == h_procs - 1 else 2 if i == h_procs - 2 else None
        jobs.append(ht("hooks", h_trials, i * h_trials, batch, extremes=7, ncpu=ncpu, timeout=to))
    # asan flavor. A UBSan report is fatal (-fno-sanitize-recover), so the volume runs with --extremes=0
    # (every exact quantity of a case fits in int64, delta != INT64_MIN, no NOW sentinel as a deadline) ...
    a0 = 100000
    for i in range(a_procs):
        jobs.append(ht("asan", a_trials, a0 + i * a_trials, batch, extremes=0, timeout=to))
    # ... and each excluded class is probed by its own short process, so that each one can report
    # (and die on) its own UBSan finding without hiding the others
    for bit in (1, 2, 4):
        jobs.append(ht("asan", 2, a0 + 10000 * bit, 20000, extremes=bit, timeout=to))

    hooks_cases = h_procs * h_trials * batch
    asan_cases = a_procs * a_trials * batch
    total = hooks_cases + asan_cases
    nwait = 12 * (h_procs * h_trials + a_procs * a_trials)

    def frac(x):
        return int(total * x)

    floors = {
        # volume
        "cases": int(total * 0.98),
        "cases_ubsan_watched": int(asan_cases * 0.96),
        # both entry points, every base kind (about half of the measured share each)
        "cases_dispatch_time_fn": frac(0.45),
        "cases_walltime_fn": frac(0.20),
        "cases_uptime_base": frac(0.09),
        "cases_monotonic_base": frac(0.09),
        "cases_wall_base": frac(0.25),
        "cases_now_base": frac(0.05),
        "cases_forever_base": frac(0.01),
        "cases_out_of_range_base": frac(0.04),
        # every outcome class of the model
        "cases_exact": frac(0.20),
        "cases_overflow": frac(0.10),
        "cases_underflow": frac(0.10),
        "cases_boundary_sum": frac(0.05),          # sum on -1..4 or 2^62-3..2^62+2
        "cases_delta_int64_extreme": frac(0.01),   # delta INT64_MIN / INT64_MAX
        # timespec classes of dispatch_walltime
        "cases_ts_null": frac(0.01),
        "cases_ts_negative": frac(0.01),
        "cases_ts_beyond_2p62": frac(0.02),
        "cases_ts_beyond_int64": int(hooks_cases * 0.03),   # only generated with --extremes bit 2 (hooks)
        "cases_ts_denormal_nsec": frac(0.04),
        # relation d1 <= d2 => t(d1) <= t(d2): checked, and not vacuously (strictly ordered results seen)
        "monotone_pairs_checked": frac(0.20),
        "monotone_pairs_strict": frac(0.10),
        # past-deadline waits: all (api, clock) combinations. While dispatch_semaphore_wait blocks on
        # monotonic deadlines each process probes that combination exactly once (2 s each) and then skips
        # it, hence the small floors there.
        "waits_past_deadline": nwait // 3,
        "waits_deadline_from_library": nwait // 8,
        "waits_deadline_hand_encoded": nwait // 10,
        "waits_semaphore_uptime": nwait // 16,
        "waits_semaphore_wall": nwait // 16,
        "waits_group_uptime": nwait // 16,
        "waits_group_monotonic": nwait // 16,
        "waits_group_wall": nwait // 16,
        "waits_semaphore_monotonic": 10,
        "waits_semaphore_monotonic_now_sentinel": 10,
        "waits_group_monotonic_now_sentinel": 10,
    }
    rule = ("one case = one call dispatch_time(base, delta) or dispatch_walltime(timespec|NULL, delta) compared with an exact "
            "__int128 model of the documented encoding (same clock, base + delta exactly; FOREVER above 2^62-1; any already "
            "elapsed time of that clock below the representable minimum; NOW bases bracketed by clock readings before/after the "
            "call); cases come in pairs (base, d1 <= d2) that are also checked for monotonicity on the library's own outputs; "
            "inputs are boundary-biased (0,1,2, 2^62+-k, 2^63+-k, 2^64-k, the three clock encodings with small/now-ish/huge "
            "values, NOW sentinels, FOREVER, out-of-range values; deltas 0, +-1, +-2^31, +-2^62, INT64_MIN/MAX, deltas that land "
            "the sum on 0/1/2/3/2^62+-k; timespecs with tv_sec 0/small/now/2^31/2^62ns/INT64_MAX/1e9+-k/INT64_MAX/negative and "
            "tv_nsec 0/999999999/>=1e9/negative) mixed with uniform 64-bit values; one trial = one batch of cases plus 12 waits "
            "on an exhausted semaphore / unbalanced group with a deadline that is already past (uptime, monotonic, wall; library "
            "produced and hand-encoded), each on a helper thread that must return non-zero within 2 s; non-trivial = the batch "
            "contained exact, overflow and underflow outcomes, NOW bases, dispatch_walltime cases and checked monotone pairs; "
            "distinct = distinct sets of (base class, delta class, outcome class) triples covered by a batch")
    opts = {
        "assumptions": [
            "the wall clock is not stepped during the run (NOW brackets and 'already elapsed' use CLOCK_REALTIME readings)",
            "x86-64 Linux: one dispatch time unit is one nanosecond; uptime = CLOCK_MONOTONIC, monotonic = CLOCK_BOOTTIME, wall = CLOCK_REALTIME",
            "2^128 (base, delta) and 2^192 (timespec, delta) inputs are sampled, not covered",
            "a past-deadline wait counts as blocking when the waiter thread is still asleep 2 s after the call (a runnable, starved waiter gets more time)",
        ],
    }
    return jobs, floors, rule, opts
