"""C13 — dispatch_data objects denote fixed byte strings (harness/h_data.c).

Model-based random testing against a byte-string reference model with destructor accounting,
under ASan/UBSan (asan flavor), plain (hooks flavor, poisoned buffers are quarantined so that a
read after a premature destructor deterministically mismatches the model) and, in the thorough
tier, valgrind memcheck at 1/50 volume (uninitialised reads, which ASan does not see).
"""
from .driver import Job

AVG_OPS = 1100  # a trial is one random sequence of 200..2000 operations

# valgrind 3.19 cannot read clang-14's DWARF 5: run it on debug-stripped copies of the harness and
# the two shared objects (RUNPATH has lower precedence than LD_LIBRARY_PATH). $0 = harness binary.
_VG = ('b="$0"; l="$(dirname "$(dirname "$b")")/lib"; d="$(mktemp -d /tmp/vf-c13-vg.XXXXXX)" || exit 2; '
       'trap \'rm -rf "$d"\' EXIT; '
       'objcopy --strip-debug "$b" "$d/h_data" && objcopy --strip-debug "$l/libdispatch.so" "$d/libdispatch.so" && '
       'objcopy --strip-debug "$l/libBlocksRuntime.so" "$d/libBlocksRuntime.so" || exit 2; '
       'LD_LIBRARY_PATH="$d" valgrind --error-exitcode=9 --quiet --track-origins=no --leak-check=no "$d/h_data" "$@"')
VALGRIND_WRAPPER = ["/bin/sh", "-c", _VG]


def hd(flavor, trials, first, ncpu=None, timeout=300, extra=(), wrapper=None, tag=None):
    return Job(flavor, "h_data", ["--trials=%d" % trials, "--first=%d" % first] + list(extra), ncpu=ncpu,
               timeout=timeout, wrapper=wrapper, tag=tag or "h_data:%s:%d:%s" % (flavor, first, ncpu or 16))


def spec(tier):
    quick = tier == "quick"
    jobs = []
    first = [0]

    def batch(flavor, total_ops, nproc, **kw):
        per = max(1, int(total_ops / AVG_OPS / nproc))
        out = []
        for _ in range(nproc):
            out.append(hd(flavor, per, first[0], **kw))
            first[0] += per
        return out

    if quick:
        jobs += batch("asan", 2.0e5, 5, timeout=240)
        jobs += batch("asan", 0.3e5, 1, ncpu=1, timeout=240)      # destructor threads share one CPU with the op sequence
        jobs += batch("hooks", 9.0e5, 7, timeout=240)
        jobs += batch("hooks", 1.0e5, 1, ncpu=2, timeout=240)
        mult = 1
    else:
        jobs += batch("asan", 1.0e7, 14, timeout=1500)
        jobs += batch("asan", 5.0e5, 2, ncpu=1, timeout=1500)
        jobs += batch("hooks", 1.0e7, 14, timeout=1500)
        jobs += batch("hooks", 5.0e5, 2, ncpu=2, timeout=1500)
        # memcheck at 1/50 volume. The harness polls VALGRIND_COUNT_ERRORS after every operation and reports
        # "memcheck:error:<op>" itself (exit 1 + violation line); --error-exitcode=9 is only a backstop (the driver
        # files an unexpected exit status as inconclusive, never as a pass). --munmap=0: no forked probe under valgrind.
        jobs += batch("hooks", 2.0e5, 6, timeout=1500, extra=["--munmap=0"], wrapper=VALGRIND_WRAPPER)
        for j in jobs:
            if j.wrapper:
                j.tag = j.tag.replace("h_data:hooks", "h_data:memcheck")
        mult = 10
    # DISPATCH_DATA_DESTRUCTOR_MUNMAP: directed probe in a forked child (a MUNMAP leaf kills the process on the
    # unchanged tree, so the random trees only contain that kind when the start-up probe survives)
    jobs += [Job("hooks", "h_data", ["--mode=munmap"], timeout=120, tag="h_data:munmap-probe")]

    q = {
        "ops": 1000000,
        "objects_checked": 400000,
        "bytes_checked": 100000000,
        "dtor_ran_once": 20000,
        "nontrivial_trials": 500,
        # constructors / destructor kinds
        "leaf_default": 2000, "leaf_default_f": 2000, "leaf_free": 2000, "leaf_free_f": 2000, "leaf_none": 4000,
        "leaf_block": 6000, "leaf_block_q": 4000, "leaf_func": 2000, "leaf_func_q": 2000, "leaf_alloc": 2000,
        "leaf_empty_singleton": 2000, "leaf_zero_len": 2000, "dtor_on_queue": 6000, "dtor_default_queue": 8000,
        "none_buffer_freed_early": 3000,
        # concat
        "concat_leaf_leaf": 5000, "concat_composites": 5000, "concat_mixed": 10000, "concat_self": 5000,
        "concat_with_empty": 300, "concat_of_subranges": 5000,
        # subrange special cases (data.c: leaf, trivial, composite single record, composite multi record, to_the_end)
        "sub_of_leaf": 8000, "sub_of_trivial": 4000, "sub_whole": 2000, "sub_whole_clamped": 2000,
        "sub_offset_oob": 10000, "sub_zero_len": 4000, "sub_len_clamped": 10000, "sub_sum_overflow": 6000,
        "sub_comp_within_record": 8000, "sub_comp_multi": 6000, "sub_comp_cut_first": 4000, "sub_comp_cut_last": 1500,
        "sub_comp_to_end": 4000, "sub_comp_record_aligned": 1000, "sub_comp_multi_cut": 5000,
        # map / apply / copy_region
        "map_direct": 8000, "map_flatten": 4000, "map_empty": 100, "map_same_object": 8000, "map_null_outptrs": 4000,
        "apply_block": 10000, "apply_f": 10000, "apply_multi_region": 10000, "apply_early_stop": 6000,
        "apply_region_pinned": 1000, "apply_region_to_pool": 3000,
        "cr_single": 5000, "cr_first_record": 2500, "cr_last_record": 2500, "cr_middle_record": 1000, "cr_oob": 4000,
        "cr_result_is_subrange": 4000,
        # reference counting orders
        "extra_retain": 10000, "release_nonfinal": 10000, "release_final_with_live_derived": 50000,
        "recheck": 30000, "recheck_mapbuf": 2500,
        "munmap_probe": 1,
    }
    floors = {k: (v if k in ("munmap_probe",) else v * mult) for k, v in q.items()}

    rule = ("one case = one trial: a random sequence of 200-2000 operations (seeded by trial index) over a pool of <=64 live "
            "dispatch_data references, each shadowed by its model byte string: leaves from every constructor/destructor kind "
            "(DEFAULT, FREE, NONE, custom block or function with and without destructor queue, create_alloc, the empty "
            "singleton, zero-length buffers; MUNMAP by a directed probe), concat (incl. self and empty), subrange with offsets/"
            "lengths from {0,1,n-1,n,n+1,SIZE_MAX,SIZE_MAX-off+1,record boundaries +-1,random}, create_map, apply/apply_f "
            "(incl. early stop and retaining the region object), copy_region at in- and out-of-range locations, extra "
            "retain/release and random release order, derivation depth <=12; after each step size, bytes and region tiling "
            "are compared with the model, destructors are counted per buffer (poison+free), every object is released and the "
            "destructor queues drained at the end; trial mix, size class, pool size and perturbation profile are drawn per "
            "trial; non-trivial = the trial took a subrange of a multi-record object that spans >=2 records and cuts through "
            "one; distinct = distinct (mix, size class, set of special cases reached, log2 max records, max depth) signatures")
    opts = {
        "assumptions": [
            "C13: out-of-range dispatch_data_copy_region locations are only checked for memory safety (the headers document no result for them); "
            "whether traversal stops after the applier returns false is counted, not judged",
            "C13: allocation failure paths (DISPATCH_OUT_OF_MEMORY, NULL map) are not exercised; objects <= 256 KiB, <= 300 records",
        ],
    }
    return jobs, floors, rule, opts
