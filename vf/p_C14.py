"""C14 — dispatch I/O channels and the convenience API (harness/h_io.c)."""
from .driver import Job


def hio(mode, trials, first=0, flavor="hooks", ncpu=None, timeout=300, extra=(), tag=None):
    return Job(flavor, "h_io", ["--mode=%s" % mode, "--trials=%d" % trials, "--first=%d" % first] + list(extra),
               ncpu=ncpu, timeout=timeout, tag=tag or "h_io:%s:%s:%s:%d" % (mode, flavor, ncpu or 16, first))


# Three scenario classes used to end a process on the pinned tree (write on a full pipe whose reader goes
# away: EPOLLERR ignored; two dispatch_read in flight on one descriptor: use-after-free in
# _dispatch_stream_handler; EPOLLHUP race in the epoll backend: "Source finalized twice"). All three are
# repaired in /repo (DESIGN 13.3 F12-F14), so the bulk jobs now keep every scenario class on; the
# dedicated jobs stay as focused regressions.
BULK = []


def spec(tier):
    quick = tier == "quick"
    jobs = []
    nxt = [0]

    def add(mode, nproc, trials, **kw):
        for _ in range(nproc):
            jobs.append(hio(mode, trials, first=nxt[0], **kw))
            nxt[0] += trials

    # Many short processes rather than few long ones: the rare epoll hang-up race ends a process
    # about once per 1000 trials on the unchanged tree.
    T = 1800 if not quick else 300
    add("default", 4 if quick else 400, 150 if quick else 1000, extra=BULK, timeout=T)
    add("read", 1 if quick else 40, 100 if quick else 1000, extra=BULK, timeout=T)
    add("write", 1 if quick else 40, 100 if quick else 1000, extra=BULK, timeout=T)
    add("conv", 1 if quick else 40, 80 if quick else 1000, extra=BULK, timeout=T)
    # small pools: handler / barrier / cleanup blocks compete for few workers
    add("default", 1 if quick else 40, 100 if quick else 600, ncpu=2, extra=BULK, timeout=T)
    add("default", 1 if quick else 40, 100 if quick else 600, ncpu=4, extra=BULK, timeout=T)
    add("chan", 1 if quick else 20, 60 if quick else 400, ncpu=1, extra=BULK, timeout=T)
    # EINTR in read / write / epoll_wait: signals delivered to random threads, the library's workers included
    add("default", 1 if quick else 40, 100 if quick else 600, extra=BULK + ["--sigstorm=2000"], timeout=T)
    # buffer lifetime
    add("default", 1 if quick else 60, 80 if quick else 500, flavor="asan", extra=BULK, timeout=600 if quick else 1800)
    # dedicated jobs for the scenario classes excluded from the bulk
    jobs.append(hio("pipe-hangup", 10, first=0, timeout=240, tag="h_io:pipe-hangup:hooks"))
    jobs.append(hio("conv", 60 if quick else 500, first=nxt[0], flavor="asan", timeout=600, tag="h_io:conv-pair:asan"))
    # descriptors and paths the library cannot use (invalid, wrong type, wrong access mode, missing path) with a bystander
    # channel on a healthy file of the same device (harness/h_iobad.c)
    nb = 60 if quick else 600
    for i in range(2 if quick else 8):
        jobs.append(Job("hooks", "h_iobad", ["--trials=%d" % nb, "--first=%d" % (i * nb)], ncpu=[None, 4, 2, None][i % 4], timeout=T, tag="h_iobad:hooks:%d" % i))
    jobs.append(Job("asan", "h_iobad", ["--trials=%d" % nb, "--first=90000"], timeout=600 if quick else 1800, env={"VF_LSAN": "1"}, tag="h_iobad:asan"))
    jobs.append(Job("hooks", "h_iobad", ["--trials=%d" % nb, "--first=91000", "--sigstorm=2000"], timeout=T, tag="h_iobad:sigstorm"))
    # every scenario class also as the very first use of dispatch I/O in a process (lazily created global queues, once predicates)
    for i in range(24 if quick else 240):
        jobs.append(Job("hooks", "h_iobad", ["--trials=1", "--first=%d" % (93000 + i)], timeout=120, tag="h_iobad:cold:%d" % i))
        jobs.append(hio("default", 1, first=940000 + i, timeout=120, tag="h_io:cold:%d" % i))
    # directed (F35): the first dispatch I/O object of a process is a channel derived from one whose path does not exist, closed with STOP
    for i in range(3 if quick else 12):
        jobs.append(Job("hooks", "h_iobad", ["--trials=1", "--first=%d" % (92000 + i), "--force-class=3", "--force-derived=1", "--force-close=1"], timeout=120, tag="h_iobad:cold-derived-stop:%d" % i))
    # one socket used in both directions at once (read and write stream sources share one epoll registration): harness/h_duplex.c
    nd = 80 if quick else 800
    for i in range(3 if quick else 12):
        jobs.append(Job("hooks", "h_duplex", ["--mode=io", "--trials=%d" % nd, "--first=%d" % (i * nd)], ncpu=[None, 4, 2][i % 3], timeout=T, tag="h_duplex:io:hooks:%d" % i))
    jobs.append(Job("asan", "h_duplex", ["--mode=io", "--trials=%d" % (nd // 2), "--first=50000", "--scale=50"], timeout=600 if quick else 1800, tag="h_duplex:io:asan"))
    jobs.append(Job("hooks", "h_duplex", ["--mode=io", "--trials=%d" % nd, "--first=60000", "--sigstorm=2000"], timeout=T, tag="h_duplex:io:sigstorm"))
    # two channels on one descriptor, operations parked on both, one channel stopped: the other's operations still complete
    for i in range(2 if quick else 8):
        jobs.append(Job("hooks", "h_duplex", ["--mode=siblings", "--trials=%d" % nd, "--first=%d" % (70000 + i * nd)], ncpu=[None, 4][i % 2], timeout=T, tag="h_duplex:siblings:hooks:%d" % i))
    jobs.append(Job("asan", "h_duplex", ["--mode=siblings", "--trials=%d" % (nd // 2), "--first=80000"], timeout=600 if quick else 1800, tag="h_duplex:siblings:asan"))
    # the same with the window between the stream handler's check of the channel and the one in perform widened (F34): delays at
    # the atomics of dispatch_suspend, which the handler passes in between
    for i in range(3 if quick else 12):
        jobs.append(Job("hooks", "h_duplex", ["--mode=siblings", "--trials=%d" % (2 * nd), "--first=%d" % (85000 + i * 2 * nd), "--perturb=hot", "--hot-func=_dispatch_lane_suspend"],
                        timeout=T, tag="h_duplex:siblings:hot-suspend:%d" % i))
    # the library's own assertions and debug logging (DISPATCH_DEBUG) as the oracle; the second job abandons a derived channel
    # in every create_with_io trial (F37: the creation block logged the new channel after dropping its reference to it)
    add("default", 1 if quick else 20, 100 if quick else 500, flavor="dbg", extra=BULK, timeout=T)
    jobs.append(hio("default", 60 if quick else 400, first=970000, flavor="dbg", extra=["--force-abandoned=1"], timeout=T, tag="h_io:abandoned-derived:dbg"))
    if not quick:
        add("default", 10, 300, flavor="asan", ncpu=2, extra=BULK, timeout=1800)
    k = 1 if quick else 200
    floors = {
        "read_ops": 1500 * k,
        "write_ops": 1000 * k,
        "conv_reads": 300 * k,
        "conv_writes": 60 * k,
        "bytes_read": 20000000 * k,
        "bytes_written": 20000000 * k,
        "handler_invocations": 20000 * k,
        "partial_deliveries": 300 * k,     # operations that received their data in >= 2 invocations
        "eof_seen": 300 * k,
        "hangup_seen": 10 * k,             # writes that met a vanished peer (socket / pipe)
        "stop_in_flight": 100 * k,         # DISPATCH_IO_STOP landed while an operation was in flight
        "close_in_flight": 50 * k,
        "barrier_checked": 1500 * k,       # (barrier, operation) pairs compared
        "ecanceled_ops": 600 * k,
        "ops_after_close": 400 * k,
        "cleanup_handlers": 700 * k,
        "sibling_channel_trials": 150 * (1 if quick else 10),
        "duplex_io_trials": 300 * (1 if quick else 10),
        "duplex_trials_outbound_exceeds_socket_buffer": 80 * (1 if quick else 10),
        "duplex_ops_with_partial_deliveries": 100 * (1 if quick else 10),
        "unusable_descriptor_trials": 150 * (1 if quick else 10),
        "unusable_descriptor_writes": 150 * (1 if quick else 10),
        "bystander_operations_on_healthy_file": 300 * (1 if quick else 10),
        "pipe": 200 * k, "socket": 120 * k, "file": 200 * k,
        "create": 250 * k, "create_with_path": 60 * k, "create_with_io": 100 * k, "convenience": 150 * k,
    }
    rule = ("one case = one trial: a position-coded byte stream (byte k = f(k, salt)) on a pipe, AF_UNIX stream socketpair or "
            "regular file; channel type STREAM or RANDOM; constructor dispatch_io_create / _with_path / _with_io or the "
            "dispatch_read/dispatch_write convenience calls; a feeder thread dripping 1 B..64 KiB chunks with pauses and then EOF "
            "(reads) or a fast/slow/stalled/vanishing drainer (writes); drawn low/high water marks and (strict) intervals; 1-6 "
            "operations (lengths 0, 1, small, large, SIZE_MAX; fragmented dispatch_data for writes) with barriers in between; "
            "dispatch_io_close(0) / close(STOP) before any operation, between operations, while one is in flight or after done, or "
            "release without close; operations scheduled after close; handler queue serial / concurrent / global; a perturbation "
            "profile at the library's atomics and an affinity mask. Oracle at quiescence over per-operation records: stream-position "
            "model (contiguous ranges in submission order, nothing consumed and dropped: the harness drains the descriptor "
            "afterwards), <= requested, <= high water, short read only at EOF, remaining-data objects are suffixes of the submitted "
            "data and what reached the peer/file equals the written prefixes, done exactly once and last, in-handler flag, "
            "completion order on serial handler queues, barrier before/after stamps, ECANCELED after close, cleanup handler "
            "exactly once / after the handlers of operations scheduled before close / error 0 / descriptor still open, "
            "liveness by watchdog; ASan for buffer lifetime. non-trivial = an operation received its data in >= 2 invocations or "
            "a close/stop landed while an operation was in flight; distinct = (transport, type, constructor, direction, op mix, "
            "water-mark class, interval class, close placement, handler-queue kind, outcome classes). A second harness (h_iobad) runs "
            "the same APIs on descriptors / paths the library cannot use (not open, RANDOM on a pipe, a directory, a missing path, "
            "a file or pipe end opened for the other direction: EBADF at the first read()/write() with more operations queued) next "
            "to a bystander channel on a healthy file of the same device: done exactly once, failed reads deliver nothing, failed "
            "writes hand the whole submitted data back (bytes written + bytes reported unwritten = submitted), cleanup exactly once, "
            "bystander operations complete in full with the right bytes. A third harness (h_duplex --mode=io) keeps reads and writes in "
            "flight at the same time on one AF_UNIX stream socket (one channel, two channels on the descriptor, create_with_io, or the "
            "convenience calls) against a peer that dribbles the inbound stream and drains the outbound one in bursts with stalls (the "
            "send buffer fills), optionally half-closing: inbound bytes delivered to the reads in submission order are what the peer "
            "sent, the peer received exactly the submitted writes, done once, error 0, cleanup after the handlers, everything completes; "
            "--mode=siblings parks operations of one direction on two channels of one descriptor (empty / full pipe or socket), stops "
            "one channel (its operations complete with ECANCELED and move no byte) and then makes the descriptor ready: the other "
            "channel's operations complete with exactly the bytes fed / drained")
    opts = {
        "assumptions": [
            "ordering of completions is only judged on serial handler queues (on concurrent/global queues the byte ranges alone show that the I/O was performed in submission order)",
            "cleanup-after-handlers is only judged for operations scheduled before dispatch_io_close was called; low-water guarantees and timing of interval deliveries are not part of C14",
            "on channels whose creation failed the cleanup handler is posted at once; its position relative to the handlers of operations submitted to the failed channel is recorded (handlers_after_cleanup_of_failed_channel), not judged",
            "kernel short counts / EINTR injection (symbol interposition) is not built; partial reads come from real pipe/socket buffering (4 KiB pipes, dripping feeder)",
        ],
        "min_distinct": 40 if quick else 1000,
    }
    opts["thorough_rounds"] = 1   # this job list alone takes tens of minutes in the thorough tier
    return jobs, floors, rule, opts
