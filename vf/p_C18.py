"""C18 — identity, queue-specific data, attributes, global queues (harness/h_ident.c)."""
from .driver import Job


def spec(tier):
    m = 1 if tier == "quick" else 10
    jobs = [Job("hooks", "h_ident", ["--mode=global", "--trials=1"], timeout=300, tag="h_ident:global"),
            Job("hooks", "h_ident", ["--mode=assert", "--trials=1"], timeout=600, tag="h_ident:assert")]
    for ph in range(4):
        jobs.append(Job("hooks", "h_ident", ["--mode=attr", "--trials=1", "--stride=4", "--phase=%d" % ph], timeout=600, tag="h_ident:attr:%d" % ph))
    jobs.append(Job("asan", "h_ident", ["--mode=attr", "--trials=1", "--stride=8", "--phase=3"], timeout=600, tag="h_ident:attr:asan"))
    for i in range(4):
        jobs.append(Job("hooks", "h_ident", ["--mode=default", "--trials=%d" % (6 * m), "--first=%d" % (i * 6 * m)], ncpu=[None, 4, 2, 1][i], timeout=600, tag="h_ident:specific:%d" % i))
    jobs.append(Job("asan", "h_ident", ["--mode=default", "--trials=%d" % (3 * m), "--first=900"], timeout=600, tag="h_ident:specific:asan"))
    jobs.append(Job("hooks", "h_mainq", ["--trials=%d" % (2 * m), "--first=70"], timeout=300, tag="h_mainq"))
    jobs.append(Job("hooks", "h_mainq", ["--mode=cf", "--trials=%d" % (2 * m), "--first=270"], timeout=300, tag="h_mainq:cf"))
    jobs.append(Job("dbg", "h_ident", ["--mode=default", "--trials=%d" % (6 * m), "--first=2000"], timeout=900, tag="h_ident:specific:dbg"))
    floors = {
        "global_queue_lookups": 80000,
        "assert_queue_scenarios": 200,
        "attr_queues_checked": 10000,
        "get_specific_checks": 100000 * (1 if tier == "quick" else 8),
        "specific_hierarchies": 600,
        "specific_destructors": 3000,
    }
    rule = ("four parts. (a) one case = one random hierarchy (1-6 queues, chains to depth 4, 5 keys set on random subsets of levels, "
            "values replaced) in which every queue runs items reached through async, sync, barrier_async, barrier_sync, "
            "async_and_wait, group_async, apply, a source handler, a sync from an item of another hierarchy, and its finalizer; each "
            "item compares dispatch_get_specific for every key with the value on the nearest queue of the chain. (b) every (queue "
            "shape, submission path, asserted queue in / out of the chain / submitting context, assert / assert_not / assert_barrier) "
            "scenario in its own child process, expected = returns vs traps [exhaustive]. (c) every attribute table entry composed "
            "from the public constructors in 3 random orders: label, QoS class (clamped) and relative priority, width, root target "
            "(class + overcommit), initial activity [exhaustive]. (d) dispatch_get_global_queue for the 9 documented identifiers x "
            "{0, OVERCOMMIT}, 62 undefined flag values and every other integer in [-40000, 40000] [exhaustive]; distinct = distinct "
            "(part, profile) signatures")
    opts = {"extra_cov": {"exhaustive_subspaces": ["attribute table (4032 entries x 3 constructor orders)", "global queue identifiers in [-40000,40000] x flags", "assert_queue scenario table (241 scenarios)"]},
            "min_distinct": 2}
    return jobs, floors, rule, opts
