"""C20 — data transforms round-trip and never read outside their input (harness/h_transform.c).

One process = one input class (--mode), because a sanitizer report ends the process. Classes in
which a crash is known on the unchanged tree (utf8to16, utf16odd, adv8any, adv16odd, adv16tail,
chain under ASan) are separate processes, so that the remaining classes are still explored in
the asan flavor; the hooks flavor (no sanitizer) runs every class to the end for volume and for
the value-level checks.
"""
from .driver import Job

# classes whose asan process is expected to complete on the unchanged tree
SAFE = ["base32", "base32hex", "base64", "utf8iso", "utf16even", "utfany", "adversarial", "incompat", "exhaustive"]
# classes that contain inputs with a known out-of-bounds access (own process each)
RISKY = ["utf8to16", "utf16odd", "adv8any", "adv16odd", "adv16tail", "chain"]


def ht(flavor, mode, trials, first=0, tier="quick", maxlen=None, timeout=300, nrand=None):
    args = ["--mode=%s" % mode, "--trials=%d" % trials, "--first=%d" % first, "--tier=%s" % tier]
    if maxlen:
        args.append("--maxlen=%d" % maxlen)
    if nrand:
        args.append("--nrand=%d" % nrand)
    return Job(flavor, "h_transform", args, timeout=timeout, tag="h_transform:%s:%s:%d" % (mode, flavor, first))


def spread(flavor, mode, per, nproc, base=0, **kw):
    return [ht(flavor, mode, per, first=base + i * per, **kw) for i in range(nproc)]


def spec(tier):
    q = tier == "quick"
    to = 300 if q else 1800
    kw = dict(tier=tier, timeout=to)
    jobs = []
    if q:
        # asan: the memory oracle on every class
        jobs += [ht("asan", "base32", 30, **kw), ht("asan", "base32hex", 15, **kw), ht("asan", "base64", 30, **kw),
                 ht("asan", "utf8iso", 40, **kw), ht("asan", "utf16even", 80, **kw), ht("asan", "utfany", 25, **kw),
                 ht("asan", "incompat", 10, **kw), ht("asan", "exhaustive", 3, **kw)]
        jobs += spread("asan", "adversarial", 3, 3, **kw)
        jobs += [ht("asan", "utf8to16", 40, **kw), ht("asan", "utf16odd", 20, **kw), ht("asan", "adv8any", 4, **kw),
                 ht("asan", "adv16odd", 3, **kw), ht("asan", "adv16tail", 20, **kw), ht("asan", "chain", 1, **kw)]
        # hooks: volume, larger inputs
        jobs += [ht("hooks", "base32", 150, first=1000, maxlen=2048, **kw), ht("hooks", "base32hex", 60, first=1000, **kw),
                 ht("hooks", "base64", 150, first=1000, maxlen=2048, **kw),
                 ht("hooks", "utf8to16", 150, first=1000, maxlen=2048, **kw), ht("hooks", "utf16even", 300, first=1000, maxlen=2048, **kw),
                 ht("hooks", "utf16odd", 100, first=1000, maxlen=2048, **kw), ht("hooks", "utfany", 100, first=1000, **kw),
                 ht("hooks", "adv8any", 30, first=1000, **kw), ht("hooks", "adv16odd", 20, first=1000, **kw),
                 ht("hooks", "adv16tail", 100, first=1000, **kw), ht("hooks", "incompat", 30, first=1000, **kw)]
        jobs += spread("hooks", "adversarial", 8, 2, base=1000, **kw)
    else:
        jobs += spread("asan", "base32", 1000, 4, maxlen=4096, **kw) + spread("asan", "base32hex", 1000, 2, maxlen=4096, **kw)
        jobs += spread("asan", "base64", 1000, 4, maxlen=4096, **kw)
        jobs += spread("asan", "utf8iso", 700, 4, maxlen=4096, **kw) + spread("asan", "utf16even", 1500, 4, maxlen=4096, **kw)
        jobs += spread("asan", "utfany", 400, 4, maxlen=4096, **kw)
        jobs += spread("asan", "adversarial", 50, 8, maxlen=4096, **kw)
        jobs += spread("asan", "incompat", 300, 2, **kw) + spread("asan", "exhaustive", 40, 2, **kw)
        jobs += spread("asan", "utf8to16", 500, 2, maxlen=4096, **kw) + spread("asan", "utf16odd", 300, 2, maxlen=4096, **kw)
        jobs += spread("asan", "adv8any", 40, 2, **kw) + spread("asan", "adv16odd", 30, 2, **kw)
        jobs += [ht("asan", "adv16tail", 200, **kw)] + spread("asan", "chain", 10, 2, **kw)
        b = 100000
        jobs += spread("hooks", "base32", 3000, 2, base=b, maxlen=4096, **kw) + spread("hooks", "base64", 3000, 2, base=b, maxlen=4096, **kw)
        jobs += [ht("hooks", "base32hex", 2000, first=b, maxlen=4096, **kw)]
        jobs += spread("hooks", "utf8to16", 2000, 4, base=b, maxlen=4096, **kw) + spread("hooks", "utf16even", 4000, 2, base=b, maxlen=4096, **kw)
        jobs += spread("hooks", "utf16odd", 1500, 4, base=b, maxlen=4096, **kw) + spread("hooks", "utfany", 1500, 2, base=b, maxlen=4096, **kw)
        jobs += spread("hooks", "adversarial", 150, 8, base=b, maxlen=4096, **kw)
        jobs += spread("hooks", "adv8any", 400, 4, base=b, maxlen=4096, **kw) + spread("hooks", "adv16odd", 300, 4, base=b, maxlen=4096, **kw)
        jobs += [ht("hooks", "adv16tail", 1000, first=b, **kw), ht("hooks", "incompat", 300, first=b, **kw)]

    m = 1 if q else 60
    floors = {
        "cases": 1500000 * m,
        "transforms_called": 2000000 * m,
        "cases_encode_vs_reference": 300000 * m,
        "cases_base32_roundtrip": 150000 * m,
        "cases_base32hex_roundtrip": 60000 * m,
        "cases_base64_roundtrip": 150000 * m,
        "cases_utf8_wellformed": 150000 * m,
        "cases_utf16_refragmented": 100000 * m,
        "cases_utfany": 100000 * m,
        "cases_adversarial": 1000000 * m,
        "cases_incompatible": 100000 * m,
        "inverse_checks": 300000 * m,
        "fragmentations_exhaustive": 1500000 * m,
        "exhaustive_inputs": 10000 * m,
        "splits_inside_multibyte": 150000 * m,
        "splits_inside_surrogate_pair": 40000 * m,
        "splits_inside_code_unit": 100000 * m,
        "splits_inside_padding": 500000 * m,
        "one_byte_regions": 1000000 * m,
        "inputs_1k_or_longer": 50 if q else 5000,
        "distinct": 300,
    }
    rule = ("one case = one call sequence on one (input bytes, fragmentation into regions, format pair): each region is its own exact-size "
            "malloc block; oracle: reference RFC 4648 / UTF codecs in the harness (encode == reference; decode of the library's own "
            "encoding == original; well-formed UTF-8 -> UTF-16LE/BE -> UTF-8 == original apart from one leading BOM, for every split of "
            "the UTF-8 input and of the library's UTF-16 intermediate; UTF_ANY detection on the same relation), for arbitrary input: NULL, "
            "or a result whose size is backed by memory and that the inverse pair accepts; incompatible pairs -> NULL; ASan/UBSan "
            "(asan flavor) for out-of-bounds accesses. Outcomes of malformed input that differ between fragmentations are counted "
            "(note_fragmentation_dependent_malformed) but not judged: the property's 'independent of how the input is fragmented' "
            "qualifies the round-trip sentence only. trial lines aggregate cases by signature = (format pair, input class, fragmentation "
            "class [enumeration kind, number of regions, split inside multi-byte sequence / surrogate pair / code unit / padding group], "
            "outcome class); non-trivial = the input was split into >= 2 regions; distinct = distinct signatures")
    extra_cov = {
        "exhaustive_subspace": {
            "exhaustive": True,
            "what": "for every input of <= 16 bytes that a trial generates or takes from its fixed lists (raw bytes of length 0..20 per "
                    "Base-N format and their encodings, 20 fixed and 10 drawn short texts per trial in UTF-8 and in the library's "
                    "UTF-16LE/BE rendering, every adversarial input, every incompatible pair) EVERY split into 1..4 regions is executed "
                    "(plus the all-1-byte-regions split); class-restricted modes enumerate every split of their class (utf16even: all "
                    "boundaries even; utf16odd/adv16odd: at least one odd boundary; utf8iso/adversarial: no region starting in one "
                    "multi-byte sequence and ending in another; utf8to16/adv8any: unrestricted)",
            "counters": ["fragmentations_exhaustive", "exhaustive_inputs"],
            "not_exhaustive": "the set of inputs itself (sampled and hand-picked), inputs longer than 16 bytes (drawn splits), splits into more than 4 regions",
        },
        "modes_with_known_crash_on_unchanged_tree": RISKY,
    }

    def post(res):
        # witnesses of sanitizer reports / crashes (the harness prints its current case from __asan_on_error / the signal handler)
        for k in ("asan_case", "crash_case"):
            if k in res.extra:
                extra_cov[k + "s"] = sorted(set(res.extra[k]))[:20]
        if "note_fragmentation_dependent_malformed" in res.extra:
            extra_cov["not_judged_samples"] = sorted(set(res.extra["note_fragmentation_dependent_malformed"]))[:6]

    opts = {
        "extra_cov": extra_cov,
        "post": post,
        "assumptions": [
            "x86-64 little-endian Linux build of /repo; inputs are dispatch_data objects whose regions are separate exact-size heap blocks",
            "memory-safety verdicts come from ASan/UBSan in the asan flavor only (red-zone detection: misses non-adjacent overflows); the "
            "hooks flavor judges values only",
            "the text generator covers all planes and the boundary characters, but inputs are sampled; only the fragmentation space of "
            "short inputs is exhaustive",
        ],
    }
    opts["thorough_rounds"] = 2   # this job list alone takes tens of minutes in the thorough tier
    return jobs, floors, rule, opts
