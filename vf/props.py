"""Per-property check definitions: which harness processes to run, floors, evidence rule."""
from .driver import Job

ASSUME_COMMON = [
    "verdicts cover only the executions produced: the schedules, inputs and configurations listed in coverage",
    "x86-64 Linux, epoll backend, internal pthread workqueue; library rebuilt from /repo's working tree with -DDISPATCH_VERIF=1 (hooks only observe and delay)",
    "liveness is decided as bounded progress: a stuck witness (all threads asleep, no logical progress for >=10 s) or a livelock witness (30 s CPU without progress); wall-clock caps only yield 'inconclusive'",
]


def hq(mode, trials, first=0, flavor="hooks", ncpu=None, scale=100, perturb="auto", timeout=300, extra=()):
    return Job(flavor, "h_queue", ["--mode=%s" % mode, "--trials=%d" % trials, "--first=%d" % first,
                                   "--scale=%d" % scale, "--perturb=%s" % perturb] + list(extra),
               ncpu=ncpu, timeout=timeout, tag="h_queue:%s:%s:%s" % (mode, flavor, ncpu or 16))


def spread(fn, mode, total_trials, nproc, **kw):
    """nproc processes, disjoint trial index ranges."""
    per = max(1, total_trials // nproc)
    return [fn(mode, per, first=i * per, **kw) for i in range(nproc)]


def hw(trials, first=0, flavor="hooks"):
    """directed redirected-waiter schedule (harness/h_waiter.c)"""
    return Job(flavor, "h_waiter", ["--trials=%d" % trials, "--first=%d" % first], timeout=300, tag="h_waiter:%s" % flavor)


def mqcf(trials, first=0, flavor="hooks", extra=(), timeout=300):
    """main queue drained the CoreFoundation way: eventfd wake-ups + _dispatch_main_queue_callback_4CF on the bound main thread"""
    return Job(flavor, "h_mainq", ["--mode=cf", "--trials=%d" % trials, "--first=%d" % first] + list(extra), timeout=timeout,
               tag="h_mainq:cf" + ("" if flavor == "hooks" else ":" + flavor) + (":sig" if extra else ""))


def C01(tier):
    m = 1 if tier == "quick" else 12
    jobs = []
    jobs += spread(hq, "pingpong", 24 * m, 3)
    jobs += [hq("pingpong", 6 * m, first=100, ncpu=1, scale=40), hq("pingpong", 6 * m, first=200, ncpu=2, scale=60),
             hq("pingpong", 8 * m, first=300, ncpu=4)]
    jobs += spread(hq, "flood", 12 * m, 2)
    jobs += spread(hq, "mixed", 16 * m, 2)
    jobs += [hq("default", 8 * m, first=50, ncpu=2, scale=60), hq("hier", 8 * m, first=60), hq("wl", 6 * m, first=70)]
    jobs += [hq("gate", 30 * m, first=0), hq("gate", 20 * m, first=500, ncpu=2)]
    jobs += [hq("starve", 2 * m, first=0, ncpu=2), hq("starve", 2 * m, first=10, ncpu=4), hq("starve", 1 * m, first=20, ncpu=1)]
    jobs += [hq("default", 5 * m, first=900, flavor="asan", scale=30, timeout=600),
             hq("wl", 6 * m, first=920, flavor="asan", scale=50, timeout=600), hq("hier", 5 * m, first=940, flavor="asan", scale=40, timeout=600)]
    jobs += [hw(32 * min(m, 2)), hw(32 * min(m, 2), flavor="asan")]
    # legacy queues whose target queue is changed (dispatch_set_target_queue) while they are in use
    jobs += spread(hq, "retarget", 16 * m, 2) + [hq("retarget", 6 * m, first=100, ncpu=4), hq("retarget", 5 * m, first=200, flavor="asan", scale=40, timeout=600)]
    jobs += [hj("h_suspend", 16 * min(m, 2), first=0, mode="pbar")]
    # the thread-bound main queue drained the CoreFoundation way: nothing but the eventfd wake-up makes the main thread drain
    jobs += [mqcf(2 * m, 600), mqcf(2 * m, 700, extra=["--sigstorm=2000"])]
    # an item that a running item of another queue depends on must start: every push onto a root queue ends in a thread request
    # (short stuck rule: a stall that the idle-worker time-out repairs after 5 s is a stranded item)
    jobs += [hj("h_relay", 10 * m, first=0), hj("h_relay", 8 * m, first=100, ncpu=4), hj("h_relay", 6 * m, first=200, ncpu=2),
             hj("h_relay", 6 * m, first=300, extra=["--sigstorm=2000"])]
    # stray futex wake-ups: a woken waiter that does not re-check its condition returns early
    jobs += [hq("mixed", 6 * m, first=3300, extra=["--futexstorm=3000"]), hq("hier", 6 * m, first=3400, extra=["--futexstorm=3000"])]
    jobs += [hq("mixed", 6 * m, first=3000, extra=["--sigstorm=2000"]), hq("pingpong", 6 * m, first=3100, extra=["--sigstorm=2000"]), hq("hier", 6 * m, first=3200, extra=["--sigstorm=2000"])]
    # the library's own assertions (DISPATCH_DEBUG build) as one more oracle
    jobs += [hq("default", 10 * m, first=2000, flavor="dbg", scale=60, timeout=900)]
    if tier == "thorough":
        for t in jobs:
            t.timeout = 1800
    floors = {
        "items": 300000 * (1 if tier == "quick" else 8),
        "site:_dispatch_queue_drain_try_unlock:4": 100,       # DIRTY re-check taken in the drain unlock path
        "site:_dispatch_wait_for_enqueuer:0": 1000,           # dequeuer waited for a half-finished enqueue
        "site:_dispatch_lane_drain_barrier_waiter:3": 1000,   # sync waiter hand-offs
        "site:_dispatch_non_barrier_waiter_redirect_or_wake:0": 100,
        "site:_dispatch_root_queue_poke_slow:3": 1000,
        "gate_trials": 20,
        "starve_trials": 4,
        "waiter_schedule_reached": 48,
        "retargets_while_in_use": 8000,
        "mainq_cf_items": 10000,
        "mainq_cf_wakeups": 200,
        "relay_pairs": 100000,
        "stray_futex_wakes": 1000,
    }
    rule = ("one case = one trial: a drawn queue graph (serial/concurrent/global/workloop queues, target chains to depth 4), "
            "workload shape (pingpong/flood/mixed/chain/gate/starve), 2-12 foreign client threads, a perturbation profile at the "
            "library's atomics and a CPU-affinity mask (pool size); non-trivial = consecutive items of one domain ran on different "
            "threads (cross-thread hand-off observed); distinct = distinct (graph, shape, profile kind, set of library atomic "
            "sites reached, bucketed overlap/hand-off counts) signatures; additional job classes: legacy queues whose target queue is changed (custom, global, default, ephemeral, workloop targets), suspended and resumed by other threads while clients use them; directed failpoint schedules (redirected waiter: h_waiter; pending barrier + suspend: h_suspend pbar); trials under a signal storm (EINTR in every blocking call); the thread-bound main queue drained only by eventfd wake-ups + _dispatch_main_queue_callback_4CF (h_mainq --mode=cf); pairs of items on two queues of which the first blocks until the second, submitted microseconds later, has run (h_relay, stuck rule shortened to 2 s); trials under stray FUTEX_WAKE calls on the words the library's wait loops read; ASan with stack-use-after-return detection")
    return jobs, floors, rule


def C02(tier):
    m = 1 if tier == "quick" else 12
    jobs = []
    jobs += spread(hq, "serial", 30 * m, 3)
    jobs += [hq("serial", 8 * m, first=100, ncpu=1, scale=40), hq("serial", 8 * m, first=200, ncpu=2, scale=60),
             hq("serial", 10 * m, first=300, ncpu=4)]
    jobs += spread(hq, "pingpong", 24 * m, 3, )
    jobs += spread(hq, "mixed", 16 * m, 2)
    md = min(m, 2)   # directed schedules: every trial is the same schedule, more of them adds nothing
    jobs += [hq("window", 16 * md, first=0), hq("window3", 16 * md, first=0), hq("window3", 8 * md, first=100, ncpu=2)]
    # serial queues inside target-queue hierarchies (sync / async_and_wait recursing through levels)
    jobs += spread(hq, "hier", 16 * m, 2)
    jobs += [Job("hooks", "h_mainq", ["--trials=%d" % (2 * m)], timeout=300, tag="h_mainq")]
    jobs += [hq("serial", 8 * m, first=3300, extra=["--futexstorm=3000"]), hq("pingpong", 6 * m, first=3400, extra=["--futexstorm=3000"]),
             hq("hier", 6 * m, first=3500, extra=["--futexstorm=3000"])]
    jobs += [mqcf(2 * m, 200), mqcf(2 * m, 300, extra=["--sigstorm=2000"]), mqcf(m, 400, flavor="asan", timeout=600),
             mqcf(m, 500, flavor="tsan", extra=["--scale=25", "--perturb=uniform"], timeout=900)]
    jobs += [hq("serial", 6 * m, first=900, flavor="tsan", scale=25, timeout=900, perturb="uniform"),
             hq("pingpong", 4 * m, first=950, flavor="tsan", scale=25, timeout=900, perturb="uniform")]
    # ASan with stack-use-after-return detection: sync contexts live on the waiters' stacks
    jobs += [hq("serial", 6 * m, first=1000, flavor="asan", scale=40, timeout=600), hq("pingpong", 5 * m, first=1020, flavor="asan", scale=40, timeout=600),
             hq("hier", 5 * m, first=1040, flavor="asan", scale=40, timeout=600)]
    jobs += [hq("retarget", 8 * m, first=300), hq("retarget", 4 * m, first=350, flavor="tsan", scale=25, timeout=900, perturb="uniform")]
    if tier == "thorough":
        for t in jobs:
            t.timeout = 1800
    floors = {
        "items": 300000 * (1 if tier == "quick" else 8),
        "ordered_pairs_checked": 200000,
        "cross_thread_handoffs": 20000,
        "site:_dispatch_queue_try_acquire_barrier_sync_and_suspend:3": 1000,  # sync fast path attempted
        "site:_dispatch_lane_drain_barrier_waiter:3": 1000,
        "mainq_items": 10000,
        "mainq_cf_items": 10000,
        "mainq_cf_wakeups": 200,
        "stray_futex_wakes": 1000,
        "window3_schedule_reached": 16,
    }
    rule = ("one case = one trial of N client threads using every submission API (async/sync/barrier_*/async_and_wait, block and "
            "_f forms) on 1-3 serial queues (plus the main queue in h_mainq) under a drawn perturbation profile and affinity mask; "
            "oracle: interval-overlap + real-time FIFO over call/return/start/end stamps, a plain lost-update counter, and TSan on "
            "plain per-queue memory; non-trivial = items of a queue ran on different threads; distinct = distinct trial signatures; plus serial legacy queues retargeted while in use, serial / concurrent queues over the main queue, and the thread-bound main queue drained the CoreFoundation way (eventfd wake-ups + _dispatch_main_queue_callback_4CF; a lost wake-up strands items)")
    return jobs, floors, rule


def C03(tier):
    m = 1 if tier == "quick" else 12
    jobs = []
    jobs += spread(hq, "hier", 40 * m, 4)
    jobs += [hq("hier", 8 * m, first=100, ncpu=1, scale=40), hq("hier", 8 * m, first=200, ncpu=2, scale=60), hq("hier", 10 * m, first=300, ncpu=4)]
    jobs += spread(hq, "wl", 24 * m, 3)
    jobs += [hq("gate", 30 * m, first=0), hq("gate", 20 * m, first=500, ncpu=2)]
    # hierarchies whose bottom is the main queue (serial and concurrent queues over it)
    jobs += [Job("hooks", "h_mainq", ["--trials=%d" % (2 * m), "--first=50"], timeout=300, tag="h_mainq"), mqcf(2 * m, 250)]
    jobs += [hq("hier", 6 * m, first=900, flavor="tsan", scale=25, timeout=900, perturb="uniform"),
             hq("wl", 4 * m, first=950, flavor="tsan", scale=25, timeout=900, perturb="uniform")]
    # ASan with stack-use-after-return detection: waiters redirected down the hierarchy live on foreign stacks
    jobs += [hq("hier", 6 * m, first=1000, flavor="asan", scale=50, timeout=600), hq("wl", 8 * m, first=1020, flavor="asan", scale=60, timeout=600),
             hq("wl", 8 * m, first=1040, flavor="asan", scale=60, timeout=600), hq("wl", 6 * m, first=1060, flavor="asan", scale=60, ncpu=4, timeout=600)]
    jobs += [hw(32 * min(m, 2)), hw(32 * min(m, 2), flavor="asan")]
    if tier == "thorough":
        for t in jobs:
            t.timeout = 1800
    floors = {
        "items": 300000 * (1 if tier == "quick" else 8),
        "cross_thread_handoffs": 20000,
        "hierarchy_domains": 40,
        "workloop_domains": 3,
        "site:_dispatch_workloop_invoke2:0": 1,
        "gate_trials": 20,
        "mainq_items": 5000,
        "mainq_cf_items": 5000,
        "waiter_schedule_reached": 48,
    }
    rule = ("one case = one trial over a random target-queue hierarchy (depth<=4, fan-in, serial and concurrent inner queues, "
            "workloop bottoms, queues created inactive/retargeted/activated), async to every level and sync/barrier_sync/"
            "async_and_wait through every level from foreign threads and from items of other trees; oracle: no two item bodies "
            "of the hierarchy overlap (stamps + plain counter + TSan), per-serial-queue real-time FIFO, nothing starts while the "
            "bottom is parked; non-trivial = hierarchy with >=2 queues whose items ran on different threads")
    return jobs, floors, rule


def C04(tier):
    m = 1 if tier == "quick" else 12
    jobs = []
    jobs += spread(hq, "barrier", 40 * m, 4)
    jobs += [hq("barrier", 8 * m, first=100, ncpu=1, scale=40), hq("barrier", 8 * m, first=200, ncpu=2, scale=60), hq("barrier", 10 * m, first=300, ncpu=4)]
    jobs += spread(hq, "mixed", 16 * m, 2)
    md = min(m, 2)
    jobs += [hq("gate", 30 * m, first=0, extra=["--gate-conc=1"]), hq("window", 16 * md, first=0), hq("window3", 16 * md, first=0)]
    jobs += [hq("barrier", 6 * m, first=900, flavor="tsan", scale=25, timeout=900, perturb="uniform")]
    jobs += [hq("barrier", 6 * m, first=1000, flavor="asan", scale=40, timeout=600), hq("mixed", 5 * m, first=1020, flavor="asan", scale=40, timeout=600)]
    jobs += [hq("retarget", 8 * m, first=400), hj("h_suspend", 16 * min(m, 2), first=0, mode="pbar")]
    if tier == "thorough":
        for t in jobs:
            t.timeout = 1800
    floors = {
        "items": 300000 * (1 if tier == "quick" else 8),
        "reader_overlaps_seen": 1000,    # the overlap detector is live: readers do overlap
        "ordered_pairs_checked": 100000,
        "site:_dispatch_queue_try_upgrade_full_width:3": 1000,
        "site:_dispatch_lane_non_barrier_complete:3": 10000,
        "site:_dispatch_queue_try_reserve_sync_width:3": 1000,
        "window3_schedule_reached": 8,
    }
    rule = ("one case = one trial of reader/barrier mixes (async, sync, barrier_async, barrier_sync, (barrier_)async_and_wait, "
            "group_async; block and _f forms) on 1-2 concurrent queues under a perturbation profile and affinity mask; oracle: "
            "a barrier body overlaps no other body of the queue, ordering before/after each barrier by submission real time, "
            "readers never observe a half-finished barrier write (plain words + TSan); non-trivial = reader/reader overlaps were "
            "observed in the trial (so exclusion of barriers is not vacuous); plus concurrent legacy queues retargeted, suspended and resumed while in use, and the directed pending-barrier schedule")
    return jobs, floors, rule


def C05(tier):
    m = 1 if tier == "quick" else 12
    jobs = []
    jobs += spread(hq, "pingpong", 24 * m, 3)
    jobs += spread(hq, "mixed", 16 * m, 2)
    jobs += [hq("default", 10 * m, first=300, ncpu=4), hq("serial", 10 * m, first=400, ncpu=2, scale=60)]
    jobs += [Job("hooks", "h_handoff", ["--trials=%d" % (20 * m)], timeout=600, tag="h_handoff:hooks"),
             Job("hooks", "h_handoff", ["--trials=%d" % (10 * m), "--first=100"], ncpu=2, timeout=600, tag="h_handoff:hooks:2")]
    jobs += [Job("tsan", "h_handoff", ["--trials=%d" % (10 * m), "--first=200", "--scale=40"], timeout=900, tag="h_handoff:tsan"),
             hq("pingpong", 4 * m, first=950, flavor="tsan", scale=25, timeout=900, perturb="uniform"),
             hq("mixed", 4 * m, first=960, flavor="tsan", scale=25, timeout=900, perturb="uniform")]
    jobs += [Job("asan", "h_handoff", ["--trials=%d" % (8 * m), "--first=300", "--scale=40"], timeout=600, tag="h_handoff:asan"),
             hq("pingpong", 5 * m, first=1000, flavor="asan", scale=40, timeout=600), hq("wl", 5 * m, first=1020, flavor="asan", scale=50, timeout=600)]
    jobs += [hw(32 * min(m, 2)), hw(32 * min(m, 2), flavor="asan")]
    jobs += [hq("retarget", 8 * m, first=500), hq("retarget", 4 * m, first=550, flavor="tsan", scale=25, timeout=900, perturb="uniform")]
    jobs += [Job("hooks", "h_handoff", ["--trials=%d" % (10 * m), "--first=600", "--sigstorm=2000"], timeout=600, tag="h_handoff:hooks:sigstorm"), hq("pingpong", 6 * m, first=3100, extra=["--sigstorm=2000"])]
    # stray futex wake-ups on the words sync waiters, group waiters and once waiters sleep on
    jobs += [Job("hooks", "h_handoff", ["--trials=%d" % (10 * m), "--first=700", "--futexstorm=3000"], timeout=600, tag="h_handoff:hooks:futexstorm"), hq("pingpong", 6 * m, first=3600, extra=["--futexstorm=3000"]),
             hq("hier", 6 * m, first=3700, extra=["--futexstorm=3000"])]
    if tier == "thorough":
        for t in jobs:
            t.timeout = 1800
    floors = {
        "items": 200000 * (1 if tier == "quick" else 8),
        "handoff_edges_checked": 50000,
        "handoff_cross_thread": 20000,
        "waiter_schedule_reached": 48,
    }
    rule = ("one case = one trial; every submission writes a check-summed plain payload before the call and the item verifies it, "
            "items of a serial queue pass a plain chained record, callers read item results after sync return / group_wait / "
            "notify / semaphore_wait / dispatch_once; oracle: value checks on this machine + ThreadSanitizer (library atomics "
            "promoted to release/acquire = x86-TSO) reporting any hand-off without a synchronisation chain; non-trivial = the "
            "writer and the reader of the edge were different threads; plus the directed redirected-waiter schedule (canary over the waiter's stack, ASan stack-use-after-return), retargeted queues under TSan, and trials under a signal storm")
    return jobs, floors, rule


def hj(harness, trials, first=0, flavor="hooks", ncpu=None, scale=100, mode=None, perturb="auto", timeout=300, extra=()):
    args = ["--trials=%d" % trials, "--first=%d" % first, "--scale=%d" % scale, "--perturb=%s" % perturb] + list(extra)
    if mode:
        args.append("--mode=%s" % mode)
    return Job(flavor, harness, args, ncpu=ncpu, timeout=timeout, tag="%s:%s:%s:%s:%d" % (harness, mode or "-", flavor, ncpu or 16, first))


def C07(tier):
    m = 1 if tier == "quick" else 12
    jobs = []
    for i in range(4):
        jobs.append(hj("h_group", 12 * m, first=i * 12 * m, mode="tokens"))
    for i in range(3):
        jobs.append(hj("h_group", 12 * m, first=1000 + i * 12 * m, mode="mixed"))
    jobs += [hj("h_group", 6 * m, first=2000, ncpu=1, scale=40, mode="tokens"), hj("h_group", 8 * m, first=2100, ncpu=2, scale=60, mode="mixed"),
             hj("h_group", 8 * m, first=2200, ncpu=4, mode="tokens")]
    jobs += [hj("h_group", 4 * m, first=3000, flavor="asan", scale=40, timeout=600)]
    jobs += [hj("h_group", 8 * m, first=5000, mode="tokens", extra=["--sigstorm=2000"]), hj("h_group", 8 * m, first=5100, mode="mixed", extra=["--sigstorm=2000"])]
    jobs += [hj("h_group", 8 * m, first=5200, mode="tokens", extra=["--futexstorm=3000"]), hj("h_group", 8 * m, first=5300, mode="mixed", extra=["--futexstorm=3000"])]
    # quiescent rounds: a wake-up lost at a zero transition leaves every thread asleep (stuck witness)
    jobs += [hj("h_group", 3 * m, first=4000, mode="rounds"), hj("h_group", 3 * m, first=4100, mode="rounds"),
             hj("h_group", 2 * m, first=4200, mode="rounds", ncpu=3, scale=50), hj("h_group", 2 * m, first=4300, mode="rounds", ncpu=2, scale=30)]
    jobs += [Job("tsan", "h_handoff", ["--trials=%d" % (4 * m), "--first=300", "--scale=40"], timeout=900, tag="h_handoff:tsan")]
    if tier == "thorough":
        for t in jobs:
            t.timeout = 1800
    floors = {
        "tokens": 200000 * (1 if tier == "quick" else 8),
        "waits_zero_entered_at_call": 20000,   # successful waits that had to wait for the count to reach zero
        "waits_timed_out": 2000,
        "notify_order_checked": 30000,
        "site:dispatch_group_leave:3": 10000,   # zero transitions with waiters/notifications
        "site:_dispatch_group_wait_slow:0": 10000,
        "rounds": 20000,   # seeded: 60810..112810 per quick run; the three floors halved after the C17 block_cases lesson (DESIGN 13.2)
        "round_waits_released": 10000,
        "round_notifies_fired": 5000,
    }
    rule = ("one case = one trial: 2-8 threads doing enter/leave, group_async, notify and wait (forever / timed on three clocks / "
            "zero timeout) on ONE group reused through thousands of zero transitions, under a perturbation profile at the library's "
            "atomics; oracle: interval-bound count timeline for every successful wait, deadline lower bound for every timeout, notify "
            "exactly-once and not-before-leave ordering, nothing left behind at quiescence; non-trivial = some successful wait began "
            "while tokens were outstanding and notifications were registered")
    return jobs, floors, rule


def C08(tier):
    m = 1 if tier == "quick" else 12
    jobs = []
    for i in range(6):
        jobs.append(hj("h_sema", 12 * m, first=i * 12 * m))
    jobs += [hj("h_sema", 6 * m, first=2000, ncpu=1, scale=40), hj("h_sema", 8 * m, first=2100, ncpu=2, scale=60), hj("h_sema", 8 * m, first=2200, ncpu=4)]
    jobs += [hj("h_sema", 4 * m, first=3000, flavor="asan", scale=40, timeout=600)]
    jobs += [hj("h_sema", 6 * m, first=4000, mode="clockgap"), hj("h_sema", 4 * m, first=4100, mode="clockgap", ncpu=2)]
    # EINTR: signals delivered to random threads (waiters included): an interrupted wait is neither a time-out nor a wake-up
    jobs += [hj("h_sema", 10 * m, first=5000, extra=["--sigstorm=2000"]), hj("h_sema", 6 * m, first=5100, ncpu=2, scale=60, extra=["--sigstorm=2000"])]
    if tier == "thorough":
        for t in jobs:
            t.timeout = 1800
    floors = {
        "clockgap_delays_injected": 200,
        "signals_delivered": 1000,
        "waits": 300000 * (1 if tier == "quick" else 8),
        "timeouts": 20000,
        "success_after_deadline": 50,   # timed waits satisfied after their deadline: the timeout raced a signal
        "topup_signals": 1,
        "site:_dispatch_semaphore_wait_slow:3": 20000,
    }
    rule = ("one case = one trial: a semaphore of value v in {0,1,3}, 1-8 waiter threads (forever / timed 20-500 us on uptime and wall "
            "clocks / poll) against 1-4 signaller threads paced at the same scale, under a perturbation profile; oracle: permit "
            "conservation at every successful return stamp, deadline lower bound for every timeout, end-state drain count == "
            "v + signals - successes, forever-waiters released; non-trivial = the trial had both time-outs and successes")
    return jobs, floors, rule


def C09(tier):
    m = 1 if tier == "quick" else 12
    jobs = []
    for i in range(6):
        jobs.append(hj("h_once", 10 * m, first=i * 10 * m))
    jobs += [hj("h_once", 6 * m, first=2000, ncpu=1, scale=30), hj("h_once", 8 * m, first=2100, ncpu=2, scale=60), hj("h_once", 8 * m, first=2200, ncpu=4)]
    jobs += [hj("h_once", 6 * m, first=3000, flavor="tsan", scale=40, timeout=900)]
    jobs += [hj("h_once", 8 * m, first=5000, extra=["--sigstorm=2000"]), hj("h_once", 8 * m, first=5100, extra=["--futexstorm=3000"])]
    if tier == "thorough":
        for t in jobs:
            t.timeout = 1800
    floors = {
        "predicates": 50000 * (1 if tier == "quick" else 8),
        "callers_that_waited_for_initialiser": 10000,
        "site:_dispatch_once_wait:3": 1000,
    }
    rule = ("one case = one trial: an array of 300-3000 zeroed predicates, 2-16 callers released together on each predicate through "
            "dispatch_once (block), dispatch_once_f (inline fast path) and the out-of-line function, initialiser bodies of 0-200 us, "
            "under a perturbation profile; oracle: initialiser count == 1 per predicate, end(initialiser) < return stamp of every "
            "caller, the initialiser's plain record visible to every caller (also under TSan), later calls do not run it; non-trivial "
            "= callers arrived while the initialiser was running")
    return jobs, floors, rule


def C06(tier):
    m = 1 if tier == "quick" else 12
    jobs = []
    for i, mode in enumerate(["self", "barrier", "foreign", "conc", "inactive"]):
        jobs.append(hj("h_suspend", 8 * m, first=i * 1000, mode=mode))
        jobs.append(hj("h_suspend", 6 * m, first=i * 1000 + 500, mode=mode, ncpu=[4, 2, 4, 2, 1][i], scale=60))
    jobs += [hj("h_suspend", 5 * m, first=7000, mode="foreign", ncpu=1, scale=30), hj("h_suspend", 5 * m, first=7100, mode="self", ncpu=1, scale=30)]
    jobs += [hj("h_suspend", 5 * m, first=8000, flavor="asan", scale=30, timeout=600)]
    # directed: concurrent queue suspended while its drainer retries with a pending barrier (F29)
    jobs += [hj("h_suspend", 16 * min(m, 2), first=0, mode="pbar"), hj("h_suspend", 8 * min(m, 2), first=100, mode="pbar", flavor="asan", timeout=600)]
    jobs += [hj("h_suspend", 20 * m, first=9000, flavor="dbg", scale=60, timeout=1800)]
    if tier == "thorough":
        for t in jobs:
            t.timeout = 1800
    floors = {
        "items": 200000 * (1 if tier == "quick" else 8),
        "intervals_checked": 5000,
        "deep_nesting_intervals": 100,                 # nesting beyond the inline suspend count
        "foreign_intervals_with_one_start": 100,       # the <=1 bound is tight: the committed item is observed
        "site:_dispatch_lane_suspend_slow:3": 100,     # transfer to the side suspend count
        "site:_dispatch_lane_resume_slow:3": 100,      # and back
        "self": 10, "barrier": 10, "foreign": 10, "conc": 10, "inactive": 10,
        "pbar_schedule_reached": 18,
    }
    rule = ("one case = one trial of one scenario (self-suspend on a serial queue, barrier-suspend on a concurrent queue, foreign "
            "suspends of a serial queue, foreign suspends of a concurrent queue, initially-inactive queue with racing submissions, "
            "retarget, pre-activation suspends) with 2-6 submitting threads, nesting depths 1-300, resumes from threads / other "
            "queues / dispatch_after, under a perturbation profile and affinity mask; oracle: no item start inside a definitely-"
            "suspended interval (at most one for foreign suspends of a serial queue), none before activate, everything pending runs "
            "after the last resume; non-trivial = at least one suspension interval was checked in the trial; plus the directed pending-barrier schedule (h_suspend pbar): a concurrent queue suspended while its drainer retries must run everything after the resume")
    return jobs, floors, rule


def C10(tier):
    m = 1 if tier == "quick" else 12
    jobs = []
    for i in range(5):
        jobs.append(hj("h_apply", 8 * m, first=i * 8 * m))
    jobs += [hj("h_apply", 5 * m, first=2000, ncpu=1, scale=30), hj("h_apply", 6 * m, first=2100, ncpu=2, scale=50), hj("h_apply", 6 * m, first=2200, ncpu=4),
             hj("h_apply", 6 * m, first=2300, ncpu=8)]
    jobs += [hj("h_apply", 4 * m, first=3000, flavor="asan", scale=25, timeout=600), hj("h_apply", 3 * m, first=3100, flavor="asan", scale=25, ncpu=2, timeout=600)]
    jobs += [hj("h_apply", 3 * m, first=6000, flavor="tsan", scale=20, timeout=900, perturb="uniform")]
    if tier == "thorough":
        for t in jobs:
            t.timeout = 1800
    floors = {
        "applies": 3000 * (1 if tier == "quick" else 8),
        "iterations": 3000000 * (1 if tier == "quick" else 8),
        "serial_domain_applies": 300,
        "concurrent_queue_applies": 300,
        "nested_applies": 500,
        "applies_run_by_several_threads": 300,
        "barrier_apply_pairs_checked": 1000,
        "site:_dispatch_apply_invoke2:4": 10000,
    }
    rule = ("one case = one dispatch_apply call (n in {0,1,2,cpu-1,cpu,cpu+1,3..100000}) on a global queue, DISPATCH_APPLY_AUTO, a "
            "serial queue, a concurrent queue, or a two-level chain, from 1-6 foreign threads or from inside an item, nested to depth "
            "2, with barriers submitted concurrently to the concurrent queues, under a perturbation profile and affinity mask; oracle: "
            "per-index counters, bodies inside [call,return], index order on serial domains, no overlap with / correct order after "
            "barriers, a barrier after the apply must run; trial line = one batch of applies; non-trivial = some apply of the batch "
            "was executed by more than one thread")
    return jobs, floors, rule


def C19(tier):
    m = 1 if tier == "quick" else 12
    jobs = []
    for i in range(5):
        jobs.append(hj("h_block", 8 * m, first=i * 8 * m))
    jobs += [hj("h_block", 5 * m, first=2000, ncpu=1, scale=30), hj("h_block", 6 * m, first=2100, ncpu=2, scale=50), hj("h_block", 6 * m, first=2200, ncpu=4)]
    jobs += [hj("h_block", 6 * m, first=2500, mode="window")]
    jobs += [hj("h_block", 4 * m, first=3000, flavor="asan", scale=30, timeout=600), hj("h_block", 3 * m, first=3100, flavor="asan", mode="window", timeout=600)]
    jobs += [hj("h_block", 6 * m, first=5000, extra=["--sigstorm=2000"])]
    # the body's plain writes are read by waiters / notification blocks / the checker: ThreadSanitizer decides the edge
    jobs += [hj("h_block", 4 * m, first=6000, flavor="tsan", scale=30, timeout=900, perturb="uniform")]
    if tier == "thorough":
        for t in jobs:
            t.timeout = 1800
    floors = {
        "block_cases": 30000 * (1 if tier == "quick" else 8),
        "cancelled_before_start_skipped": 5000,
        "cancel_raced_start_ran": 200,
        "cancel_raced_start_skipped": 200,
        "block_waits_ok": 10000,
        "block_waits_timed_out": 100,
        "block_notifications": 20000,
        "window_stall_reached": 30,
    }
    rule = ("one case = one block object (random creation flags / QoS) executed exactly once through async, barrier_async, sync, "
            "group_async or direct invocation; a driver and a racer thread submit / wait (forever or timed, retried after time-outs) / "
            "register 0-3 notifications / cancel in random real-time orders, plus constructed orders (cancel before submission, cancel "
            "behind a gate item, cancel while the body is running, wait concurrent with the submission via a directed stall); oracle "
            "over stamps: wait==0 only after the body's end and after execution, time-out only after the deadline, each notification "
            "once and after completion, cancelled-before-start never runs, testcancel from cancel on; trial line = batch of cases; "
            "non-trivial = the batch contained time-outs and cancelled-before-start cases")
    return jobs, floors, rule


def C11(tier):
    m = 1 if tier == "quick" else 12
    jobs = []
    for i in range(6):
        jobs.append(hj("h_timer", 5 * m, first=i * 5 * m))
    jobs += [hj("h_timer", 3 * m, first=2000, ncpu=1, scale=50), hj("h_timer", 4 * m, first=2100, ncpu=2, scale=60), hj("h_timer", 4 * m, first=2200, ncpu=4)]
    jobs += [hj("h_timer", 3 * m, first=3000, flavor="asan", scale=50, timeout=600), hj("h_timer", 3 * m, first=3100, flavor="asan", scale=50, timeout=600)]
    jobs += [hj("h_timer", 4 * m, first=5000, extra=["--sigstorm=2000"])]
    jobs += [hj("h_timer", (20 if tier == "thorough" else 6) * m, first=9000, flavor="dbg", timeout=1800)]
    if tier == "thorough":
        for t in jobs:
            t.timeout = 1800
    floors = {
        "timers": 2000 * (1 if tier == "quick" else 8),
        "timer_fires": 15000 * (1 if tier == "quick" else 8),
        "rearms_from_handler": 1000,
        "dispatch_after_blocks": 2000,
        "heap_validations": 30000,
        "heap_segment_grows": 200,
        "heap_segment_shrinks": 200,
        "heap_arm_at_root": 1000,
        "heap_arm_below_root": 10000,
        "heap_disarms": 5000,
    }
    rule = ("one case = one trial: a population of 1-500 timer sources on the uptime / monotonic / wall clocks (starts in the past, "
            "now, +10us..+250ms, DISPATCH_TIME_FOREVER or one hour ahead; one-shot or 0.1-30 ms intervals; random leeway; STRICT or "
            "not; serial / concurrent / global targets) plus 10-200 dispatch_after blocks, with histories of set_timer from the "
            "handler, suspend from the handler + resume elsewhere, foreign suspend/resume and cancel while others fire, under a "
            "perturbation profile and affinity mask; oracle: clock reading in every handler >= decoded start (zero tolerance), "
            "cumulative get_data <= interval boundaries passed, after-blocks exactly once and not early, every armed timer fires "
            "(stuck witness otherwise), never-timers never fire, heap validator (hook H2) after every arm/disarm; non-trivial = "
            "population of at least 9 timers (multi-level heap)")
    opts = {"assumptions": ["the wall clock (CLOCK_REALTIME) is not stepped during the run"]}
    return jobs, floors, rule, opts


def C15(tier):
    m = 1 if tier == "quick" else 12
    jobs = []
    for i in range(5):
        jobs.append(hj("h_source", 12 * m, first=i * 12 * m, mode="data"))
    jobs += [hj("h_source", 6 * m, first=2000, mode="data", ncpu=1, scale=40), hj("h_source", 9 * m, first=2100, mode="data", ncpu=2, scale=60),
             hj("h_source", 9 * m, first=2200, mode="data", ncpu=4)]
    jobs += [hj("h_source", 6 * m, first=3000, mode="data", flavor="asan", scale=40, timeout=600)]
    # handler re-entrancy is also monitored for timer / fd / signal sources in the cancellation and timer harnesses
    jobs += [hj("h_source", 4 * m, first=4000, mode="cancel"), hj("h_timer", 3 * m, first=4100)]
    # a DATA_ADD source on the main queue and a timer on a serial queue over it, main queue drained by dispatch_main() workers or the
    # CoreFoundation way (thread-bound): sum delivered == merged, handlers serialised with every item of the hierarchy
    jobs += [Job("hooks", "h_mainq", ["--trials=%d" % (2 * m), "--first=900"], timeout=300, tag="h_mainq"), mqcf(2 * m, 950)]
    # read and write sources sharing one descriptor (one epoll registration, two unote lists)
    jobs += [hj("h_duplex", 60 * m, first=0, mode="sources"), hj("h_duplex", 40 * m, first=5000, mode="sources", ncpu=2),
             hj("h_duplex", 30 * m, first=6000, mode="sources", flavor="asan", scale=50, timeout=600)]
    if tier == "thorough":
        for t in jobs:
            t.timeout = 1800
    floors = {
        "shared_descriptor_source_trials": 100,
        "shared_descriptor_handler_invocations": 1000,
        "mainq_source_handler_invocations": 1000,
        "data_merges": 500000 * (1 if tier == "quick" else 8),
        "data_handler_invocations": 10000,
        "DATA_ADD": 20, "DATA_OR": 20, "DATA_REPLACE": 20,
        "or_rounds_checked": 2000,
        "site:_dispatch_source_latch_and_call:2": 10000,   # latch of the pending data (xchg)
        "site:dispatch_source_merge_data:4": 100000,
    }
    rule = ("one case = one trial on one DATA_ADD / DATA_OR / DATA_REPLACE source targeting a serial, concurrent, global or chained "
            "queue, 1-16 merging threads with unique values (bit-disjoint masks in rounds for OR), handler bodies of 0-80 us, merges "
            "from inside the handler, merges before activation, a suspend/resume controller, under a perturbation profile; oracle: "
            "sum delivered == sum merged (ADD), every round's masks delivered and no foreign bit (OR), every delivered value was "
            "merged and the final merge is the last delivered (REPLACE), no invocation with 0, in-handler flag never found set, "
            "merged values delivered after resume (stuck witness otherwise); non-trivial = coalescing happened (fewer invocations "
            "than merges); the in-handler flag is also monitored on timer, signal and descriptor sources (h_source cancel mode, "
            "h_timer) and on 2-4 read / write sources sharing one socket (h_duplex --mode=sources: both byte streams must arrive "
            "complete and in order)")
    return jobs, floors, rule


def C16(tier):
    m = 1 if tier == "quick" else 12
    jobs = []
    for i in range(6):
        jobs.append(hj("h_source", 5 * m, first=i * 5 * m, mode="cancel"))
    jobs += [hj("h_source", 3 * m, first=2000, mode="cancel", ncpu=1, scale=40), hj("h_source", 4 * m, first=2100, mode="cancel", ncpu=2, scale=60),
             hj("h_source", 4 * m, first=2200, mode="cancel", ncpu=4)]
    jobs += [hj("h_source", 4 * m, first=3000, mode="cancel", flavor="asan", scale=40, timeout=600),
             hj("h_source", 3 * m, first=3100, mode="cancel", flavor="asan", scale=40, ncpu=2, timeout=600)]
    jobs += [hj("h_timer", 3 * m, first=4100)]
    # sources sharing one descriptor: cancelling one (from its handler, or from outside half-way) must not disturb the others
    jobs += [hj("h_duplex", 60 * m, first=10000, mode="sources"), hj("h_duplex", 40 * m, first=15000, mode="sources", ncpu=4),
             hj("h_duplex", 30 * m, first=16000, mode="sources", flavor="asan", scale=50, timeout=600),
             hj("h_duplex", 40 * m, first=17000, mode="sources", extra=["--sigstorm=2000"])]
    jobs += [hj("h_source", (20 if tier == "thorough" else 8) * m, first=9000, mode="cancel", flavor="dbg", timeout=1800)]
    if tier == "thorough":
        for t in jobs:
            t.timeout = 1800
    floors = {"cancel_cases": 5000 * (1 if tier == "quick" else 8), "epoll_unregistration_verified": 2000,
              "shared_descriptor_source_trials": 150, "shared_descriptor_foreign_cancels_with_survivor": 40}
    for p in ["before-activate", "right-after-activate", "from-own-handler", "from-item-on-serial-target", "foreign-while-events-flow",
              "while-suspended", "double-cancel", "cancel_and_wait", "from-registration-handler"]:
        floors["cancel_at_" + p] = 200
    for k in ["timer", "data_add", "read(pipe)", "read(socketpair)", "write(pipe)", "signal"]:
        floors["cancel_kind_" + k] = 300
    rule = ("one case = one source (timer, DATA_ADD, read on pipe / socketpair, write on pipe, signal) with events flowing from a "
            "feeder thread, cancelled at one life-cycle point (before activation, right after activation, from its own handler, from "
            "an item on its serial target queue, from a foreign thread while events flow, while suspended, twice concurrently, with "
            "dispatch_source_cancel_and_wait), 1-4 driver threads in parallel (descriptor numbers are reused at once), under a "
            "perturbation profile; oracle over stamps: no event handler start after the cancel returned (handler / target-queue "
            "origin), at most one (foreign origin), cancel handler exactly once, on the target queue (queue-specific marker), after "
            "the last event handler invocation returned, never followed by an event handler, descriptor absent from the library's "
            "epoll set (/proc/self/fdinfo) when the cancel handler runs, cancel_and_wait returns with nothing running and nothing "
            "started afterwards; trial line = batch of cases; plus 2-4 read / write sources sharing one socket (h_duplex --mode=sources), "
            "each cancelling itself from its handler when its stream is done or cancelled from outside half-way while the survivors "
            "on the same descriptor carry on: never invoked after the self-cancel, cancel handler once, after the last event handler")
    return jobs, floors, rule


def C17(tier):
    m = 1 if tier == "quick" else 12
    jobs = []
    lsan = {"VF_LSAN": "1"}
    for i in range(4):
        jobs.append(hj("h_life", 5 * m, first=i * 5 * m, flavor="asan", timeout=600))
    jobs += [hj("h_life", 3 * m, first=2000, flavor="asan", ncpu=1, scale=40, timeout=600), hj("h_life", 4 * m, first=2100, flavor="asan", ncpu=2, scale=60, timeout=600),
             hj("h_life", 4 * m, first=2200, flavor="asan", ncpu=4, timeout=600)]
    jobs += [hj("h_life", 6 * m, first=3000), hj("h_life", 6 * m, first=3100, ncpu=2, scale=60)]
    # other object families under ASan: queue graphs torn down in random order, sources cancelled at every life-cycle
    # point with descriptor reuse, block objects (private data + queue references), data objects and their destructors
    jobs += [hq("hier", 4 * m, first=5000, flavor="asan", scale=30, timeout=600), hq("wl", 3 * m, first=5100, flavor="asan", scale=30, timeout=600),
             hj("h_source", 3 * m, first=5200, mode="cancel", flavor="asan", scale=40, timeout=600),
             hj("h_block", 3 * m, first=5300, flavor="asan", scale=30, timeout=600), hj("h_block", 2 * m, first=5400, flavor="asan", mode="window", timeout=600),
             Job("asan", "h_data", ["--trials=%d" % (20 * m), "--first=5500"], timeout=600, tag="h_data:asan:c17"),
             hj("h_timer", 2 * m, first=5600, flavor="asan", scale=50, timeout=600)]
    jobs += [hw(32 * min(m, 2)), hw(32 * min(m, 2), flavor="asan")]
    jobs += [hq("retarget", 5 * m, first=600, flavor="asan", scale=40, timeout=600)]
    # data objects handed to writes that fail (unusable descriptors): destructors exactly once, nothing leaked, no use after free
    jobs += [Job("asan", "h_iobad", ["--trials=%d" % (60 * m), "--first=7000"], timeout=600, tag="h_iobad:asan:c17"),
             Job("hooks", "h_iobad", ["--trials=%d" % (60 * m), "--first=7500"], timeout=600, tag="h_iobad:hooks:c17")]
    for j in jobs:
        if j.flavor == "asan" and j.harness in ("h_life", "h_data", "h_queue", "h_iobad"):   # the other harnesses keep per-case records alive on purpose
            j.env.update({"ASAN_OPTIONS": "abort_on_error=1:detect_leaks=1:halt_on_error=1:allocator_may_return_null=1:detect_stack_use_after_return=1", "LSAN_OPTIONS": "exitcode=23:report_objects=0"})
    jobs += [hj("h_life", 20 * m, first=9000, flavor="dbg", timeout=1800)]
    if tier == "thorough":
        for t in jobs:
            t.timeout = 1800
    floors = {
        "objects_finalized": 15000 * (1 if tier == "quick" else 8),
        "target_order_checked": 5000,
        "cancel_cases": 60,
        "block_cases": 200,   # seeded draw gives 477..2734 per quick run (seeds 1-3, 101-108); 500 was inside that spread
        "site:_os_object_release_internal_n_inline:4": 100000,
        "site:_dispatch_lane_class_dispose:0": 10000,
        "waiter_schedule_reached": 48,
        "unusable_descriptor_data_destructors": 100,
    }
    rule = ("one case = one lifetime scenario: the last application reference to a queue / source / group / workloop is dropped right "
            "after submitting, from inside the object's own item, while a child queue or a source still targets it, by another thread "
            "right after a resume, while a timer is armed, with merges or a dispatch_after in flight, after retargeting an inactive "
            "queue; hierarchies are torn down in random order; 1-6 driver threads in parallel under a perturbation profile; oracle: "
            "AddressSanitizer + LeakSanitizer (asan flavor) for use-after-free / double free / leaks, finalizer exactly once, on the "
            "target queue, with the context current at release, not before the object's items finished, child before parent, "
            "everything finalised at quiescence; trial line = batch of scenarios; the same ASan build also runs the queue-graph, "
            "source-cancellation, block-object, data-object and timer harnesses; plus retargeted / ephemeral target queues and the redirected-waiter schedule under ASan+LSan, and the data objects of writes on unusable descriptors (h_iobad: destructor counts, ASan+LSan)")
    return jobs, floors, rule


PROPS = {"C01": C01, "C02": C02, "C03": C03, "C04": C04, "C05": C05, "C06": C06, "C07": C07, "C08": C08, "C09": C09, "C10": C10, "C11": C11, "C15": C15, "C16": C16, "C17": C17, "C19": C19}


# specs kept in their own files (vf/p_<ID>.py defines spec(tier))
import importlib  # noqa: E402
import os as _os  # noqa: E402
for _f in sorted(_os.listdir(_os.path.dirname(_os.path.abspath(__file__)))):
    if _f.startswith("p_C") and _f.endswith(".py"):
        _pid = _f[2:-3]
        PROPS[_pid] = importlib.import_module("." + _f[:-3], __package__).spec
